(* Lease cluster: the global invariant of the transition system and no_fork for runs in which
   every node's stream stays sorted by height. *)
From Coq Require Import ZifyBool ZifyN ZifyNat Permutation.
From FC Require Import Lease.System Lease.ProofsStr Lease.ProofsNode Lease.ProofsEpoch Lease.ProofsVote
  Lease.Proofs25 Lease.ProofsSys Lease.ProofsSys2.
Open Scope str_scope.
Open Scope N_scope.

(* ------------------------------------------------------------------------------------ *)
(* set_nth / remove_nth *)

Lemma set_nth_length : forall {A} i (x : A) l, List.length (set_nth i x l) = List.length l.
Proof. induction i; destruct l; cbn; auto. Qed.
Lemma nth_error_set_nth_eq : forall {A} i (x y : A) l, nth_error l i = Some y -> nth_error (set_nth i x l) i = Some x.
Proof. induction i; destruct l; cbn; intros; try discriminate; eauto. Qed.
Lemma nth_error_set_nth_ne : forall {A} i j (x : A) l, i <> j -> nth_error (set_nth i x l) j = nth_error l j.
Proof. induction i; destruct l, j; cbn; intros; auto; try contradiction. Qed.
Lemma in_set_nth : forall {A} i (x y : A) l, In y (set_nth i x l) -> y = x \/ In y l.
Proof.
  induction i; destruct l; cbn; intros; auto.
  - destruct H; auto.
  - destruct H; auto. destruct (IHi _ _ _ H); auto.
Qed.
Lemma set_nth_same : forall {A} i (x : A) l, nth_error l i = Some x -> set_nth i x l = l.
Proof. induction i; destruct l; cbn; intros; try discriminate; [inversion H; reflexivity | f_equal; auto]. Qed.
Lemma Forall_set_nth : forall {A} (P : A -> Prop) i x l, Forall P l -> P x -> Forall P (set_nth i x l).
Proof. induction i; destruct l; cbn; intros; auto; inversion H; subst; constructor; auto. Qed.
Lemma in_remove_nth : forall {A} i (x : A) l, In x (remove_nth i l) -> In x l.
Proof. induction i; destruct l; cbn; intros; auto. destruct H; auto. Qed.

Lemma filter_remove_nth : forall {A} (f : A -> bool) i l x, nth_error l i = Some x ->
  if f x then Permutation (filter f l) (x :: filter f (remove_nth i l))
  else filter f (remove_nth i l) = filter f l.
Proof.
  induction i; destruct l as [|a l]; cbn; intros x H; try discriminate.
  - inversion H; subst. destruct (f x) eqn:E; [apply Permutation_refl | reflexivity].
  - specialize (IHi l x H). destruct (f x) eqn:E.
    + destruct (f a); [|assumption].
      eapply Permutation_trans; [apply perm_skip; exact IHi | apply perm_swap].
    + rewrite IHi. reflexivity.
Qed.

Lemma nodup_remove_nth : forall {A B} (f : A -> bool) (g : A -> B) i l (t : list B),
  NoDup (map g (filter f l) ++ t) -> NoDup (map g (filter f (remove_nth i l)) ++ t).
Proof.
  intros A B f g i l t H. destruct (nth_error l i) as [x|] eqn:E.
  - pose proof (filter_remove_nth f i l x E) as P. destruct (f x).
    + assert (Q : Permutation (map g (filter f l) ++ t) (g x :: map g (filter f (remove_nth i l)) ++ t)).
      { change (g x :: map g (filter f (remove_nth i l)) ++ t) with (map g (x :: filter f (remove_nth i l)) ++ t).
        apply Permutation_app_tail. apply Permutation_map. assumption. }
      pose proof (Permutation_NoDup Q H) as N0. inversion N0; assumption.
    + rewrite P. assumption.
  - assert (R : remove_nth i l = l).
    { clear -E. revert l E. induction i; destruct l; cbn; intros; auto; try discriminate. f_equal. auto. }
    rewrite R. assumption.
Qed.

Lemma in_combine_nth : forall {A B} (l1 : list A) (l2 : list B) x y,
  In (x, y) (combine l1 l2) -> exists i, nth_error l1 i = Some x /\ nth_error l2 i = Some y.
Proof.
  induction l1; destruct l2; cbn; intros; try contradiction.
  destruct H as [H|H]; [inversion H; subst; exists O; auto|].
  destruct (IHl1 _ _ _ H) as (i & ? & ?). exists (S i). auto.
Qed.

Lemma nodup_common : forall n (l1 l2 : list nat), NoDup l1 -> NoDup l2 ->
  (forall x, In x l1 -> (x < n)%nat) -> (forall x, In x l2 -> (x < n)%nat) ->
  (n < List.length l1 + List.length l2)%nat -> exists x, In x l1 /\ In x l2.
Proof.
  intros n l1 l2 N1 N2 B1 B2 L.
  destruct (existsb (fun x => existsb (Nat.eqb x) l2) l1) eqn:E.
  - apply existsb_exists in E. destruct E as (x & I1 & E). apply existsb_exists in E.
    destruct E as (y & I2 & E). apply Nat.eqb_eq in E. subst. exists y. auto.
  - exfalso.
    assert (D : forall x, In x l1 -> In x l2 -> False).
    { intros x I1 I2. assert (T : existsb (fun x => existsb (Nat.eqb x) l2) l1 = true); [|congruence].
      apply existsb_exists. exists x. split; [assumption|]. apply existsb_exists. exists x. split; [assumption|apply Nat.eqb_refl]. }
    pose proof (NoDup_app_intro l1 l2 N1 N2 D) as NA.
    assert (I : incl (l1 ++ l2) (seq 0 n)).
    { intros x Ix. apply in_seq. apply in_app_or in Ix. destruct Ix; [specialize (B1 x H) | specialize (B2 x H)]; lia. }
    pose proof (NoDup_incl_length NA I) as Le. rewrite app_length, seq_length in Le. lia.
Qed.

Lemma nodup_app_r : forall {A} (l1 l2 : list A), NoDup (l1 ++ l2) -> NoDup l2.
Proof. induction l1; cbn; intros; auto. inversion H; auto. Qed.

Lemma filter_none : forall {A} (f : A -> bool) l, (forall x, In x l -> f x = false) -> filter f l = [].
Proof.
  induction l as [|a l IH]; cbn; intros H; [reflexivity|]. rewrite (H a (or_introl eq_refl)). apply IH.
  intros. apply H. right. assumption.
Qed.

Lemma phase_eq_idle : forall ph, ph = PIdle \/ ph <> PIdle.
Proof. destruct ph; [left; reflexivity | right; discriminate ..]. Qed.

Section Sys3.
Variable c : cfg.
Hypothesis Hq : (c_n c < 2 * c_q c)%nat.

Definition cur (rid : nat) (tag : N) (rq : req) : bool := Nat.eqb (q_rep rq) rid && (q_tag rq =? tag).

Definition pool_ok (reps : list replica) (pool : list req) : Prop :=
  forall rq, In rq pool -> cmd_ok (q_cmd rq) /\
    forall rp, nth_error reps (q_rep rq) = Some rp ->
      q_tag rq <= r_tag rp /\ (q_tag rq = r_tag rp -> phase_cmd (r_phase rp) (r_next rp) (q_cmd rq)).
Definition cur_nodup (reps : list replica) (pool : list req) : Prop :=
  forall rid rp, nth_error reps rid = Some rp ->
    NoDup (map q_node (filter (cur rid (r_tag rp)) pool) ++ map fst (r_inbox rp)).

Definition Inv (s : sys) : Prop :=
  List.length (y_nodes s) = c_n c /\ Forall node_good (y_nodes s) /\
  (forall rp, In rp (y_reps s) -> rep_ok c (y_nodes s) rp) /\
  pool_ok (y_reps s) (y_pool s) /\ cur_nodup (y_reps s) (y_pool s).

Definition sorted_sys (s : sys) : Prop := Forall (fun nd => sorted (heights nd)) (y_nodes s).
Definition allowed (a : action) : Prop :=
  match a with AWipe _ => False | ASetTrim _ k => k = 0 | _ => True end.

Lemma apply_tres_inv : forall s rid rp t, Inv s -> nth_error (y_reps s) rid = Some rp ->
  tres_ok c (y_nodes s) rid rp t -> Inv (apply_tres s rid t).
Proof.
  intros s rid rp [[rp' evs] rqs] (L & G & R & P & C) E (T & IB & CH & PH & targets & cm & NT & ERQ & CO & PC).
  unfold apply_tres, Inv. cbn [y_nodes y_reps y_pool].
  split; [assumption|]. split; [assumption|]. split; [|split].
  - intros rp2 I. destruct (in_set_nth _ _ _ _ I) as [->|I2]; [|apply R; assumption].
    split; [assumption|]. split; [assumption|]. rewrite IB. constructor.
  - intros rq I. apply in_app_or in I. destruct I as [I|I].
    + destruct (P rq I) as [A B]. split; [assumption|]. intros rp2 E2.
      destruct (Nat.eq_dec (q_rep rq) rid) as [D|D].
      * rewrite D in E2. rewrite (nth_error_set_nth_eq _ _ _ _ E) in E2. inversion E2; subst rp2.
        rewrite D in B. destruct (B rp E) as [B1 _]. split; [lia|]. intro. lia.
      * rewrite nth_error_set_nth_ne in E2 by congruence. apply B. assumption.
    + rewrite ERQ in I. apply in_map_iff in I. destruct I as (n & <- & I). cbn. split; [assumption|].
      intros rp2 E2. rewrite (nth_error_set_nth_eq _ _ _ _ E) in E2. inversion E2; subst rp2.
      split; [lia|]. intros _. assumption.
  - intros rid2 rp2 E2. rewrite filter_app.
    destruct (Nat.eq_dec rid rid2) as [D|D].
    + subst rid2. rewrite (nth_error_set_nth_eq _ _ _ _ E) in E2. inversion E2; subst rp2.
      rewrite IB. cbn [map]. rewrite app_nil_r.
      assert (F1 : filter (cur rid (r_tag rp')) (y_pool s) = []).
      { apply filter_none. intros rq I. unfold cur. destruct (Nat.eqb_spec (q_rep rq) rid) as [D|D]; [|reflexivity].
        destruct (P rq I) as [_ B]. rewrite D in B. destruct (B rp E) as [B1 _]. cbn. apply N.eqb_neq. lia. }
      rewrite F1. cbn [app].
      assert (F2 : filter (cur rid (r_tag rp')) rqs = rqs).
      { rewrite ERQ. clear. induction targets; cbn; [reflexivity|]. unfold cur at 1. cbn.
        rewrite Nat.eqb_refl, N.eqb_refl. cbn. f_equal. assumption. }
      rewrite F2, ERQ, map_map. cbn. rewrite map_id. assumption.
    + rewrite nth_error_set_nth_ne in E2 by assumption.
      assert (F2 : filter (cur rid2 (r_tag rp2)) rqs = []).
      { rewrite ERQ. clear -D. induction targets; cbn; [reflexivity|]. unfold cur at 1. cbn.
        destruct (Nat.eqb_spec rid rid2); [contradiction|]. cbn. assumption. }
      rewrite F2, app_nil_r. apply C. assumption.
Qed.

Lemma drop_inv : forall s i log ow, Inv s ->
  Inv (mkSys (y_nodes s) (y_reps s) (remove_nth i (y_pool s)) log ow).
Proof.
  intros s i log ow (L & G & R & P & C). unfold Inv. cbn [y_nodes y_reps y_pool].
  split; [assumption|]. split; [assumption|]. split; [assumption|]. split.
  - intros rq I. apply P. eapply in_remove_nth. eassumption.
  - intros rid rp E. apply nodup_remove_nth. apply C. assumption.
Qed.

Lemma ext_set_nth : forall nodes n nd nd', nth_error nodes n = Some nd ->
  (forall h b, holds nd h b -> holds nd' h b) -> ext nodes (set_nth n nd' nodes).
Proof.
  intros nodes n nd nd' E H m h b (nd0 & E0 & H0). destruct (Nat.eq_dec n m) as [D|D].
  - subst m. rewrite E in E0. inversion E0; subst nd0. exists nd'. split; [eapply nth_error_set_nth_eq; eassumption | auto].
  - exists nd0. split; [rewrite nth_error_set_nth_ne by assumption; assumption | assumption].
Qed.

Lemma exec_req_inv : forall s i deliver, Inv s -> sorted_sys s -> Inv (exec_req s i deliver).
Proof.
  intros s i deliver I S. unfold exec_req.
  destruct (nth_error (y_pool s) i) as [rq|] eqn:E1; [|assumption].
  destruct (nth_error (y_nodes s) (q_node rq)) as [nd|] eqn:E2; [|apply drop_inv; assumption].
  destruct (node_exec (q_cmd rq) nd) as [rep nd'] eqn:NE.
  pose proof I as (L & G & R & P & C).
  assert (Irq : In rq (y_pool s)) by (eapply nth_error_In; eassumption).
  destruct (P rq Irq) as [CO PB].
  assert (Gnd : node_good nd) by (rewrite Forall_forall in G; apply G; eapply nth_error_In; eassumption).
  assert (Snd : sorted (heights nd)) by (unfold sorted_sys in S; rewrite Forall_forall in S; apply S; eapply nth_error_In; eassumption).
  pose proof (node_step (q_cmd rq) nd Gnd Snd CO) as [Gnd' Hmono]. rewrite NE in Gnd', Hmono. cbn [snd] in Gnd', Hmono.
  set (nodes' := set_nth (q_node rq) nd' (y_nodes s)).
  assert (EXT : ext (y_nodes s) nodes') by (eapply ext_set_nth; eassumption).
  assert (G' : Forall node_good nodes') by (apply Forall_set_nth; assumption).
  assert (L' : List.length nodes' = c_n c) by (unfold nodes'; rewrite set_nth_length; assumption).
  assert (Enew : nth_error nodes' (q_node rq) = Some nd') by (eapply nth_error_set_nth_eq; eassumption).
  (* the case in which the reply is delivered *)
  destruct (nth_error (y_reps s) (q_rep rq)) as [rp|] eqn:E3.
  2:{ unfold Inv. cbn [y_nodes y_reps y_pool]. split; [assumption|]. split; [assumption|].
      split; [intros; eapply rep_ok_mono; [eassumption | apply R; assumption]|].
      split; [intros rq2 I2; apply P; eapply in_remove_nth; eassumption|].
      intros rid rp2 E. apply nodup_remove_nth. apply C. assumption. }
  destruct (deliver && (r_tag rp =? q_tag rq)) eqn:DL.
  2:{ unfold Inv. cbn [y_nodes y_reps y_pool]. split; [assumption|]. split; [assumption|].
      split; [intros; eapply rep_ok_mono; [eassumption | apply R; assumption]|].
      split; [intros rq2 I2; apply P; eapply in_remove_nth; eassumption|].
      intros rid rp2 E. apply nodup_remove_nth. apply C. assumption. }
  apply andb_true_iff in DL. destruct DL as [_ TG]. apply N.eqb_eq in TG.
  destruct (PB rp eq_refl) as [_ PC]. specialize (PC (eq_sym TG)).
  set (rp2 := mkRep (r_owner rp) (r_epoch rp) (r_chain rp) (r_next rp) (r_ctr rp) (r_phase rp) (r_tag rp)
                    (r_inbox rp ++ [(q_node rq, rep)])).
  assert (Irp : In rp (y_reps s)) by (eapply nth_error_In; eassumption).
  destruct (R rp Irp) as (CH & PH & ND).
  assert (CUR : cur (q_rep rq) (r_tag rp) rq = true).
  { unfold cur. rewrite Nat.eqb_refl. cbn. apply N.eqb_eq. congruence. }
  pose proof (C (q_rep rq) rp E3) as CN.
  pose proof (filter_remove_nth (cur (q_rep rq) (r_tag rp)) i (y_pool s) rq E1) as FP. rewrite CUR in FP.
  assert (CN2 : NoDup (map q_node (filter (cur (q_rep rq) (r_tag rp)) (remove_nth i (y_pool s))) ++
                       map fst (r_inbox rp ++ [(q_node rq, rep)]))).
  { rewrite map_app. cbn [map fst]. rewrite app_assoc.
    eapply Permutation_NoDup; [apply Permutation_cons_append|].
    eapply Permutation_NoDup; [|exact CN].
    change (q_node rq :: map q_node (filter (cur (q_rep rq) (r_tag rp)) (remove_nth i (y_pool s))) ++ map fst (r_inbox rp))
      with (map q_node (rq :: filter (cur (q_rep rq) (r_tag rp)) (remove_nth i (y_pool s))) ++ map fst (r_inbox rp)).
    apply Permutation_app_tail. apply Permutation_map. assumption. }
  assert (ROK : rep_ok c nodes' rp2).
  { split; [eapply chain_ok_mono; [eassumption|]; exact CH|]. split.
    - (* the new reply is sound *)
      unfold phase_ok in *. cbn [r_phase r_inbox r_next rp2]. unfold phase_cmd in PC.
      destruct (r_phase rp) as [|k|k|a|a| | |snaps it h acc blk pre|blk|] eqn:EP; try exact Logic.I.
      + destruct PC as (m & k & Ec). intros n r items In0 D. apply in_app_or in In0.
        destruct In0 as [In0|[In0|[]]]; [eapply snap_ok_mono; [eassumption|]; eapply PH; eassumption|].
        inversion In0; subst n r.
        rewrite Ec in NE. pose proof (entries_holds m k nd items Gnd) as EH. rewrite NE in EH. cbn [fst] in EH.
        destruct (EH D) as [EA EB]. split; [|assumption].
        intros h e d Id. exists nd'. split; [assumption|]. apply Hmono. eapply EA. eassumption.
      + destruct PC as (e & o & t & m & Ec). destruct PH as (WO & AO & ns & SO & PO & DJ).
        rewrite Ec in NE.
        assert (WN : dec_write (Some rep) = WWritten -> holds nd' h blk /\ ~ In h (heights nd)).
        { intro D. pose proof (write_written e o h blk t m nd Gnd Snd) as WW. rewrite NE in WW. cbn [fst snd] in WW. auto. }
        split; [|split; [eapply acc_ok_mono; eassumption|]].
        * intros n r In0 D. apply in_app_or in In0.
          destruct In0 as [In0|[In0|[]]]; [apply EXT; eapply WO; eassumption|].
          inversion In0; subst n r. exists nd'. split; [assumption | apply WN; assumption].
        * exists ns. split; [eapply snaps_ok_mono; eassumption|]. split; [eapply pre_ok_mono; eassumption|].
          intros n r snap In0 D Ic. apply in_app_or in In0. destruct In0 as [In0|[In0|[]]]; [eapply DJ; eassumption|].
          inversion In0; subst n r. destruct (snap_hash snap h) eqn:SH; [|reflexivity]. exfalso.
          unfold snap_hash in SH. apply existsb_exists in SH. destruct SH as ([[h' e'] d'] & Is & Eh).
          cbn in Eh. apply N.eqb_eq in Eh. subst h'.
          destruct SO as [_ F2].
          pose proof (Forall2_combine_in _ _ _ _ _ F2 Ic) as [SA _].
          destruct (WN D) as [_ NIn]. apply NIn.
          destruct (SA h e' d' Is) as (ndx & Ex & Hx). rewrite E2 in Ex. inversion Ex; subst ndx.
          eapply holds_height. eassumption.
      + destruct PC as (e & o & t & m & Ec). rewrite Ec in NE.
        intros n r In0 D. apply in_app_or in In0. destruct In0 as [In0|[In0|[]]]; [apply EXT; eapply PH; eassumption|].
        inversion In0; subst n r. exists nd'. split; [assumption|].
        pose proof (write_written e o (r_next rp) blk t m nd Gnd Snd) as WW. rewrite NE in WW. cbn [fst snd] in WW.
        apply WW. assumption.
    - cbn [r_inbox rp2]. eapply nodup_app_r. exact CN2. }
  unfold Inv. cbn [y_nodes y_reps y_pool]. fold nodes'. fold rp2.
  split; [assumption|]. split; [assumption|]. split; [|split].
  - intros rp3 I3. destruct (in_set_nth _ _ _ _ I3) as [->|I4]; [assumption|].
    eapply rep_ok_mono; [eassumption | apply R; assumption].
  - intros rq2 I2. apply in_remove_nth in I2. destruct (P rq2 I2) as [A B]. split; [assumption|].
    intros rp3 E4. destruct (Nat.eq_dec (q_rep rq) (q_rep rq2)) as [D|D].
    + rewrite <- D in E4. rewrite (nth_error_set_nth_eq _ _ _ _ E3) in E4. inversion E4; subst rp3.
      cbn [r_tag r_phase r_next rp2]. apply B. rewrite <- D. assumption.
    + rewrite nth_error_set_nth_ne in E4 by assumption. apply B. assumption.
  - intros rid rp3 E4. destruct (Nat.eq_dec (q_rep rq) rid) as [D|D].
    + subst rid. rewrite (nth_error_set_nth_eq _ _ _ _ E3) in E4. inversion E4; subst rp3.
      cbn [r_tag r_inbox rp2]. exact CN2.
    + rewrite nth_error_set_nth_ne in E4 by assumption. apply nodup_remove_nth. apply C. assumption.
Qed.

Lemma inv_log : forall s log ow, Inv s -> Inv (mkSys (y_nodes s) (y_reps s) (y_pool s) log ow).
Proof. intros s log ow I. exact I. Qed.

Lemma apply_tres_noop : forall s r rp, nth_error (y_reps s) r = Some rp -> Inv s -> Inv (apply_tres s r (rp, [], [])).
Proof.
  intros s r rp E I. unfold apply_tres. rewrite (set_nth_same _ _ _ E), app_nil_r. exact I.
Qed.

Lemma nodes_update_inv : forall s n nd nd' log ow, Inv s -> nth_error (y_nodes s) n = Some nd ->
  node_good nd' -> (forall h b, holds nd h b -> holds nd' h b) ->
  Inv (mkSys (set_nth n nd' (y_nodes s)) (y_reps s) (y_pool s) log ow).
Proof.
  intros s n nd nd' log ow (L & G & R & P & C) E G' H. unfold Inv. cbn [y_nodes y_reps y_pool].
  split; [rewrite set_nth_length; assumption|]. split; [apply Forall_set_nth; assumption|].
  split; [|split; assumption].
  intros rp I. eapply rep_ok_mono; [eapply ext_set_nth; eassumption | apply R; assumption].
Qed.

Lemma advance_good : forall nd dt, node_good nd ->
  node_good (mkNode (n_kv nd) (n_now nd + dt) (n_trim nd)) /\
  (forall h b, holds nd h b -> holds (mkNode (n_kv nd) (n_now nd + dt) (n_trim nd)) h b).
Proof.
  intros nd dt (WF & TR & ND & EO).
  assert (E : node_stream (mkNode (n_kv nd) (n_now nd + dt) (n_trim nd)) = node_stream nd).
  { destruct WF as [_ SW]. unfold stream_wf in SW. unfold node_stream, live. cbn [n_kv n_now].
    destruct (n_kv nd stream_key) as [[[v|st] [t|]]|]; try contradiction; reflexivity. }
  destruct (advance_wf nd dt WF) as [WF' _].
  unfold node_good, heights, holds. rewrite E. cbn [n_trim]. auto.
Qed.

Lemma step_inv : forall s a, Inv s -> sorted_sys s -> allowed a -> Inv (step c s a).
Proof.
  intros s a I S A. destruct a as [r o|i|i|i|r orc|n dt|n|r|n k]; cbn [step].
  - destruct (nth_error (y_reps s) r) as [rp|] eqn:E; [|assumption].
    destruct (r_phase rp) eqn:EP.
    + eapply apply_tres_inv; try eassumption. apply start_ok; [|assumption].
      destruct I as (_ & _ & R & _). apply R. eapply nth_error_In. eassumption.
    + unfold start. rewrite EP. apply apply_tres_noop; assumption.
    + unfold start. rewrite EP. apply apply_tres_noop; assumption.
    + unfold start. rewrite EP. apply apply_tres_noop; assumption.
    + unfold start. rewrite EP. apply apply_tres_noop; assumption.
    + unfold start. rewrite EP. apply apply_tres_noop; assumption.
    + unfold start. rewrite EP. apply apply_tres_noop; assumption.
    + unfold start. rewrite EP. apply apply_tres_noop; assumption.
    + unfold start. rewrite EP. apply apply_tres_noop; assumption.
    + unfold start. rewrite EP. apply apply_tres_noop; assumption.
  - apply exec_req_inv; assumption.
  - apply exec_req_inv; assumption.
  - apply drop_inv. assumption.
  - destruct (nth_error (y_reps s) r) as [rp|] eqn:E; [|assumption].
    destruct (phase_eq_idle (r_phase rp)) as [EP|EP].
    + unfold finish. rewrite EP. apply apply_tres_noop; assumption.
    + eapply apply_tres_inv; try eassumption. apply finish_ok; try assumption.
      * apply I.
      * destruct I as (_ & _ & R & _). apply R. eapply nth_error_In. eassumption.
  - destruct (nth_error (y_nodes s) n) as [nd|] eqn:E; [|assumption].
    assert (G : node_good nd) by (destruct I as (_ & G & _); rewrite Forall_forall in G; apply G; eapply nth_error_In; eassumption).
    destruct (advance_good nd dt G) as [G' H]. eapply nodes_update_inv; eassumption.
  - contradiction.
  - destruct (nth_error (y_reps s) r) as [rp|] eqn:E; [|assumption].
    destruct I as (L & G & R & P & C). unfold Inv. cbn [y_nodes y_reps y_pool].
    split; [assumption|]. split; [assumption|]. split; [|split].
    + intros rp2 I2. destruct (in_set_nth _ _ _ _ I2) as [->|I3]; [|apply R; assumption].
      assert (Irp : In rp (y_reps s)) by (eapply nth_error_In; eassumption).
      destruct (R rp Irp) as (CH & _ & _). split; [exact CH|]. split; [exact Logic.I | constructor].
    + intros rq Iq. destruct (P rq Iq) as [A1 B]. split; [assumption|]. intros rp2 E2.
      destruct (Nat.eq_dec r (q_rep rq)) as [D|D].
      * subst r. rewrite (nth_error_set_nth_eq _ _ _ _ E) in E2. inversion E2; subst rp2. cbn [r_tag].
        destruct (B rp E) as [B1 _]. split; [lia|]. intro. lia.
      * rewrite nth_error_set_nth_ne in E2 by assumption. apply B. assumption.
    + intros rid rp2 E2. destruct (Nat.eq_dec r rid) as [D|D].
      * subst rid. rewrite (nth_error_set_nth_eq _ _ _ _ E) in E2. inversion E2; subst rp2. cbn [r_tag r_inbox map].
        rewrite app_nil_r. rewrite filter_none; [constructor|].
        intros rq Iq. unfold cur. destruct (Nat.eqb_spec (q_rep rq) r) as [D|D]; [|reflexivity].
        destruct (P rq Iq) as [_ B]. rewrite D in B. destruct (B rp E) as [B1 _]. cbn. apply N.eqb_neq. lia.
      * rewrite nth_error_set_nth_ne in E2 by assumption. apply C. assumption.
  - cbn in A. subst k. destruct (nth_error (y_nodes s) n) as [nd|] eqn:E; [|assumption].
    assert (G : node_good nd) by (destruct I as (_ & G & _); rewrite Forall_forall in G; apply G; eapply nth_error_In; eassumption).
    eapply nodes_update_inv; try eassumption.
    + destruct G as (WF & TR & ND & EO). exact (conj WF (conj eq_refl (conj ND EO))).
    + intros h b H. exact H.
Qed.

Fixpoint sorted_run (s : sys) (acts : list action) : Prop :=
  match acts with
  | [] => True
  | a :: r => sorted_sys s /\ allowed a /\ sorted_run (step c s a) r
  end.

Lemma run_inv : forall acts s, Inv s -> sorted_run s acts -> Inv (run c s acts).
Proof.
  induction acts as [|a r IH]; intros s I SR; [exact I|].
  destruct SR as (S & A & SR). unfold run. cbn [fold_left]. apply IH; [apply step_inv; assumption | assumption].
Qed.

Lemma init_inv : forall reps, Inv (init_sys c reps).
Proof.
  intros reps. unfold Inv, init_sys. cbn [y_nodes y_reps y_pool].
  split; [apply repeat_length|]. split.
  - apply Forall_forall. intros nd I. apply repeat_spec in I. subst nd.
    split; [apply empty_node_wf|]. split; [reflexivity|]. split; constructor.
  - split; [|split].
    + intros rp I. apply in_map_iff in I. destruct I as (k & <- & _). unfold init_rep.
      split; [|split; [exact Logic.I | constructor]].
      split; [intros i b H; destruct i; discriminate | reflexivity].
    + intros rq [].
    + intros rid rp E. apply nth_error_In in E. apply in_map_iff in E. destruct E as (k & <- & _). constructor.
Qed.

(* no two replicas hold different committed blocks at one height *)
Lemma inv_no_fork : forall s, Inv s -> forall a b, In a (y_reps s) -> In b (y_reps s) ->
  forall i x y, nth_error (r_chain a) i = Some x -> nth_error (r_chain b) i = Some y -> x = y.
Proof.
  intros s (L & G & R & _ & _) a b Ia Ib i x y Hx Hy.
  destruct (R a Ia) as ((CA & _) & _). destruct (R b Ib) as ((CB & _) & _).
  destruct (CA i x Hx) as (n1 & N1 & L1 & H1). destruct (CB i y Hy) as (n2 & N2 & L2 & H2).
  assert (B1 : forall k, In k n1 -> (k < c_n c)%nat).
  { intros k Ik. destruct (H1 k Ik) as (nd & E & _). rewrite <- L. apply nth_error_Some. congruence. }
  assert (B2 : forall k, In k n2 -> (k < c_n c)%nat).
  { intros k Ik. destruct (H2 k Ik) as (nd & E & _). rewrite <- L. apply nth_error_Some. congruence. }
  destruct (nodup_common (c_n c) n1 n2 N1 N2 B1 B2) as (k & K1 & K2); [lia|].
  destruct (H1 k K1) as (nd & E & Hh). destruct (H2 k K2) as (nd2 & E' & Hh'). rewrite E in E'. inversion E'; subst nd2.
  assert (GN : node_good nd) by (rewrite Forall_forall in G; apply G; eapply nth_error_In; eassumption).
  destruct GN as (_ & _ & ND & _). eapply holds_unique; eassumption.
Qed.

Lemma inv_has_fork : forall s, Inv s -> has_fork s = false.
Proof.
  intros s I. destruct (has_fork s) eqn:F; [|reflexivity]. exfalso.
  unfold has_fork in F. apply existsb_exists in F. destruct F as (a & Ia & F).
  apply existsb_exists in F. destruct F as (b & Ib & F). unfold fork_between in F.
  apply existsb_exists in F. destruct F as ([x y] & Ic & F). cbn in F.
  destruct (in_combine_nth _ _ _ _ Ic) as (i & Hx & Hy).
  pose proof (inv_no_fork s I a b Ia Ib i x y Hx Hy) as E. subst y. rewrite str_eqb_refl in F. discriminate.
Qed.

Theorem no_fork_sorted_all : forall reps acts,
  sorted_run (init_sys c reps) acts -> has_fork (run c (init_sys c reps) acts) = false.
Proof.
  intros reps acts SR. apply inv_has_fork. apply run_inv; [apply init_inv | assumption].
Qed.
End Sys3.

(* ------------------------------------------------------------------------------------ *)
(* the hypothesis of no_fork_sorted_all is decidable along a given run; non-vacuity *)

Fixpoint sortedNb (l : list N) : bool :=
  match l with
  | [] => true
  | x :: r => match r with [] => true | y :: _ => (x <=? y) && sortedNb r end
  end.
Lemma sortedNb_sorted : forall l, sortedNb l = true -> sorted l.
Proof.
  induction l as [|x r IH]; intro H; [constructor|].
  destruct r as [|y r]; [constructor|]. cbn in H. apply andb_true_iff in H. destruct H as [H1 H2].
  constructor; [apply N.leb_le; assumption | apply IH; assumption].
Qed.
Definition sorted_sysb (s : sys) : bool := forallb (fun nd => sortedNb (heights nd)) (y_nodes s).
Definition allowedb (a : action) : bool :=
  match a with AWipe _ => false | ASetTrim _ k => k =? 0 | _ => true end.
Fixpoint sorted_runb (c : cfg) (s : sys) (acts : list action) : bool :=
  match acts with
  | [] => true
  | a :: r => sorted_sysb s && allowedb a && sorted_runb c (step c s a) r
  end.
Lemma sorted_runb_ok : forall c acts s, sorted_runb c s acts = true -> sorted_run c s acts.
Proof.
  induction acts as [|a r IH]; intros s H; cbn in *; [exact Logic.I|].
  apply andb_true_iff in H. destruct H as [H H3]. apply andb_true_iff in H. destruct H as [H1 H2].
  split; [|split; [|apply IH; assumption]].
  - unfold sorted_sys. apply Forall_forall. intros nd I. unfold sorted_sysb in H1. rewrite forallb_forall in H1.
    apply sortedNb_sorted. apply H1. assumption.
  - destruct a; cbn in *; try exact Logic.I; try discriminate. apply N.eqb_eq. assumption.
Qed.

Definition one_round (r : nat) : list action :=
  AStart r OpRound :: concat (repeat [AExec 0; AExec 0; AExec 0; AFinish r 0] 6).
Definition healthy_actions : list action :=
  one_round 0 ++ one_round 0 ++ [ATick 0 2000; ATick 1 2000; ATick 2 2000] ++ one_round 1.

Example healthy_sorted_run :
  sorted_run c3 (init_sys c3 2) healthy_actions /\
  map r_chain (y_reps (run c3 (init_sys c3 2) healthy_actions)) = [["b1.0"; "b2.1"]; ["b1.0"; "b2.1"]].
Proof.
  split; [apply sorted_runb_ok; vm_compute; reflexivity | vm_compute; reflexivity].
Qed.
