(* Lease cluster (C25), layer 3: R sequencer replicas x N Redis nodes as a labelled transition
   system.  A replica runs the adapter operations as a machine of PHASES; a phase sends one
   script invocation to each target node (the requests go to a pool), a request executes on its
   node at any later time (or never), the reply reaches the replica only while it is still in the
   phase that sent it, and the replica closes a phase at any time with the replies that arrived
   (the others count as timeouts).  Requests of closed phases stay in the pool: abandoned writes
   may still land later.  Executable definitions only. *)
From FC Require Export Lease.Adapter.
Open Scope str_scope.
Open Scope N_scope.

Record cfg := mkCfg {
  c_n : nat;            (* Redis nodes *)
  c_q : nat;            (* quorum = calculate_quorum n budget *)
  c_ttl : N;            (* lease_ttl_millis *)
  c_maxlen : N;         (* stream_max_len *)
  c_attempts : nat      (* max_attempts (>= 1) *)
}.

Inductive kont := KLeader | KRelease.

Inductive phase :=
| PIdle
| PCheck (k : kont)                 (* has_lease_owner_quorum: check_lease_owner on all nodes *)
| PExpand (k : kont)                (*   ... promote on the nodes not owned yet *)
| PAcquire (attempt : nat)          (* acquire_lease_if_free: promote on all nodes *)
| PAcqRel (attempt : nat)           (*   ... release on all nodes after a failed attempt *)
| PLatest                           (* should_reconcile_from_stream *)
| PEntries                          (* unreconciled_blocks: read_stream_entries on all nodes *)
| PRepair (snaps : list (list (N * N * str))) (iter : nat) (h : N) (acc : list str)
          (blk : str) (pre : nat) (* repair_sub_quorum_block inside the loop *)
| PPublish (blk : str)           (* publish_produced_block *)
| PRelAll.                          (* release_if_owner: release on all nodes *)

Inductive opk := OpRound | OpRelease.

Record replica := mkRep {
  r_owner : N;
  r_epoch : option N;          (* current_epoch_token *)
  r_chain : list str;       (* locally committed blocks, oldest first *)
  r_next : N;                  (* next height = last committed + 1 *)
  r_ctr : N;                   (* blocks produced so far: makes every produced block distinct *)
  r_phase : phase;
  r_tag : N;                   (* phase counter *)
  r_inbox : list (nat * reply) (* replies of the current phase, arrival order *)
}.

Record req := mkReq { q_rep : nat; q_tag : N; q_node : nat; q_cmd : cmd }.

Inductive ev :=
| EvExec (n : nat) (c : cmd) (r : reply) (ep : N)   (* node n executed c; ep = its epoch afterwards *)
| EvSkip (n : nat) (c : cmd) (fate : N)             (* scripted runs only: 1 dropped, 2 held back *)
| EvLs (r : nat) (code : N) (blks : list str)    (* leader_state: 0 follower 1 leader 2 blocks 10+k Err *)
| EvPub (r : nat) (blk : str) (ok : bool)
| EvRel (r : nat) (ok : bool)
| EvCommit (r : nat) (blk : str).

Record sys := mkSys {
  y_nodes : list node;
  y_reps : list replica;
  y_pool : list req;
  y_log : list ev;             (* newest first *)
  y_owners : N                 (* next fresh owner token *)
}.

Inductive action :=
| AStart (r : nat) (o : opk)
| AExec (i : nat)              (* pool request i executes, the reply is delivered *)
| AExecLost (i : nat)          (* ... executes, the reply is lost *)
| ADrop (i : nat)              (* ... is lost *)
| AFinish (r : nat) (orc : nat)   (* replica r closes its phase; orc: see finish *)
| ATick (n : nat) (dt : N)     (* node n's clock advances (lease expiry) *)
| AWipe (n : nat)              (* node n restarts and loses its data *)
| ACrash (r : nat)             (* replica r restarts: new adapter instance, same database *)
| ASetTrim (n : nat) (k : N).  (* how much the next approximate XTRIM on node n may evict *)

(* ------------------------------------------------------------------------------------ *)

Fixpoint set_nth {A} (i : nat) (x : A) (l : list A) : list A :=
  match i, l with
  | _, [] => []
  | O, _ :: r => x :: r
  | S i', y :: r => y :: set_nth i' x r
  end.
Fixpoint remove_nth {A} (i : nat) (l : list A) : list A :=
  match i, l with
  | _, [] => []
  | O, _ :: r => r
  | S i', y :: r => y :: remove_nth i' r
  end.

Fixpoint inbox_get (n : nat) (ib : list (nat * reply)) : option reply :=
  match ib with
  | [] => None
  | (m, r) :: rest => if Nat.eqb n m then Some r else inbox_get n rest
  end.

Definition init_rep (owner : N) : replica := mkRep owner None [] 1 0 PIdle 0 [].
Definition init_sys (c : cfg) (reps : nat) : sys :=
  mkSys (repeat empty_node (c_n c))
        (map (fun k => init_rep (N.of_nat k)) (seq 0 reps)) [] [] (N.of_nat reps).

Section Step.
Variable c : cfg.

Definition all_nodes : list nat := seq 0 (c_n c).

(* enter phase [ph]: new tag, empty inbox, one request per target node *)
Definition goto (rid : nat) (rp : replica) (ph : phase) (targets : list nat) (cm : cmd)
  : replica * list req :=
  let tag := r_tag rp + 1 in
  (mkRep (r_owner rp) (r_epoch rp) (r_chain rp) (r_next rp) (r_ctr rp) ph tag [],
   map (fun n => mkReq rid tag n cm) targets).
Definition idle (rp : replica) : replica :=
  mkRep (r_owner rp) (r_epoch rp) (r_chain rp) (r_next rp) (r_ctr rp) PIdle (r_tag rp + 1) [].
Definition with_epoch (rp : replica) (e : option N) : replica :=
  mkRep (r_owner rp) e (r_chain rp) (r_next rp) (r_ctr rp) (r_phase rp) (r_tag rp) (r_inbox rp).

Definition promote_cmd (rp : replica) : cmd := CPromote (r_owner rp) (c_ttl c).

(* service.rs: commit the reconciled blocks in order; a block below the next height is skipped,
   one above it fails to import and changes nothing *)
Fixpoint commit_blocks (rid : nat) (bs : list str) (chain : list str) (next : N)
  : list str * N * list ev :=
  match bs with
  | [] => (chain, next, [])
  | b :: r =>
      match blk_height b with
      | Some h => if h =? next then
                    let '(ch, nx, evs) := commit_blocks rid r (chain ++ [b]) (next + 1) in
                    (ch, nx, EvCommit rid b :: evs)
                  else commit_blocks rid r chain next
      | None => commit_blocks rid r chain next
      end
  end.

(* result of a transition of one replica: new state, events (oldest first), requests sent *)
Definition tres : Type := replica * list ev * list req.

(* leader_state returned; the PoA service reacts (OpRound only reaches this) *)
Definition ls_leader (rid : nat) (rp : replica) : tres :=
  let blk := data_str (r_next rp) (N.of_nat rid * 1000 + r_ctr rp) in
  let rp1 := mkRep (r_owner rp) (r_epoch rp) (r_chain rp) (r_next rp) (r_ctr rp + 1)
                   (r_phase rp) (r_tag rp) (r_inbox rp) in
  match r_epoch rp with
  | None =>
      (* publish_produced_block: fencing token not initialised -> Err -> release *)
      let '(rp2, rq) := goto rid rp1 (PCheck KRelease) all_nodes (CCheck (r_owner rp)) in
      (rp2, [EvLs rid 1 []; EvPub rid blk false], rq)
  | Some e =>
      let '(rp2, rq) := goto rid rp1 (PPublish blk) all_nodes
                             (CWrite e (r_owner rp) (r_next rp) blk (c_ttl c) (c_maxlen c)) in
      (rp2, [EvLs rid 1 []], rq)
  end.

Definition ls_blocks (rid : nat) (rp : replica) (bs : list str) : tres :=
  match bs with
  | [] => ls_leader rid rp           (* unreconciled_blocks returned an empty list *)
  | _ =>
      let '(ch, nx, evs) := commit_blocks rid bs (r_chain rp) (r_next rp) in
      (idle (mkRep (r_owner rp) (r_epoch rp) ch nx (r_ctr rp) (r_phase rp) (r_tag rp) (r_inbox rp)),
       EvLs rid 2 bs :: evs, [])
  end.

Definition ls_err (rid : nat) (rp : replica) (code : N) : tres :=
  (idle rp, [EvLs rid (10 + code) []], []).

(* continue unreconciled_blocks from the loop state *)
Definition run_reconcile (rid : nat) (rp : replica) (orc : nat)
           (snaps : list (list (N * N * str))) (iter : nat) (h : N) (acc : list str) : tres :=
  match reconcile (c_q c) orc snaps iter h acc with
  | RDone bs => ls_blocks rid rp bs
  | RErrC code => ls_err rid rp code
  | RNeed it h' acc' blk pre =>
      match r_epoch rp with
      | None => match acc' with [] => ls_err rid rp 5 | _ => ls_blocks rid rp acc' end
      | Some e =>
          let '(rp2, rq) := goto rid rp (PRepair snaps it h' acc' blk pre) all_nodes
                                 (CWrite e (r_owner rp) h' blk (c_ttl c) (c_maxlen c)) in
          (rp2, [], rq)
      end
  end.

Definition arrived_writes (orc : nat) (ib : list (nat * reply)) : list (nat * wres) :=
  let ws := map (fun x => (fst x, dec_write (Some (snd x)))) ib in
  (* the arrival order of the replies is not determined by the order of execution: with an odd
     orc the fencing rejections are the last to arrive *)
  if Nat.odd orc
  then filter (fun x => match snd x with WFenced => false | _ => true end) ws ++
       filter (fun x => match snd x with WFenced => true | _ => false end) ws
  else ws.

Definition after_quorum (rid : nat) (rp : replica) (k : kont) : tres :=
  match k with
  | KLeader => let '(rp2, rq) := goto rid rp PLatest all_nodes CLatest in (rp2, [], rq)
  | KRelease => let '(rp2, rq) := goto rid rp PRelAll all_nodes (CRelease (r_owner rp)) in (rp2, [], rq)
  end.

(* replica [rid] closes its current phase with the replies received so far *)
Definition finish (rid : nat) (orc : nat) (rp : replica) : tres :=
  let ib := r_inbox rp in
  let get := fun n => inbox_get n ib in
  match r_phase rp with
  | PIdle => (rp, [], [])
  | PCheck k =>
      let owners := map (fun n => dec_check (get n)) all_nodes in
      if Nat.ltb (count_true owners) (c_q c) then
        match k with
        | KLeader => let '(rp2, rq) := goto rid rp (PAcquire 0) all_nodes (promote_cmd rp) in (rp2, [], rq)
        | KRelease => (idle (with_epoch rp None), [EvRel rid true], [])
        end
      else
        let non_owned := filter (fun n => negb (dec_check (get n))) all_nodes in
        match non_owned with
        | [] => after_quorum rid rp k
        | _ => let '(rp2, rq) := goto rid rp (PExpand k) non_owned (promote_cmd rp) in (rp2, [], rq)
        end
  | PExpand k =>
      let toks := flat_map (fun x => match dec_promote (Some (snd x)) with Some t => [t] | None => [] end) ib in
      let rp1 := match maxN toks with
                 | Some m => if (match r_epoch rp with Some e => e | None => 0 end) <? m
                             then with_epoch rp (Some m) else rp
                 | None => rp
                 end in
      after_quorum rid rp1 k
  | PAcquire a =>
      let toks := flat_map (fun n => match dec_promote (get n) with Some t => [t] | None => [] end) all_nodes in
      if Nat.leb (c_q c) (List.length toks) && (0 <? validity (c_ttl c)) then
        let rp1 := match maxN toks with Some m => with_epoch rp (Some m) | None => rp end in
        after_quorum rid rp1 KLeader
      else
        let '(rp2, rq) := goto rid rp (PAcqRel a) all_nodes (CRelease (r_owner rp)) in (rp2, [], rq)
  | PAcqRel a =>
      if Nat.eqb (S a) (c_attempts c) || Nat.ltb (c_attempts c) (S a)
      then (idle rp, [EvLs rid 0 []], [])
      else let '(rp2, rq) := goto rid rp (PAcquire (S a)) all_nodes (promote_cmd rp) in (rp2, [], rq)
  | PLatest =>
      let rs := map (fun n => dec_latest (get n)) all_nodes in
      let ok := List.length (filter (fun r => match r with Some _ => true | None => false end) rs) in
      if Nat.ltb ok (c_q c) then ls_err rid rp 1
      else if existsb (fun r => match r with Some (Some h) => r_next rp <=? h | _ => false end) rs
           then let '(rp2, rq) := goto rid rp PEntries all_nodes (CEntries (r_next rp) (c_maxlen c)) in
                (rp2, [], rq)
           else ls_leader rid rp
  | PEntries =>
      let snaps := flat_map (fun n => match dec_entries (get n) with Some s => [s] | None => [] end) all_nodes in
      if Nat.ltb (List.length snaps) (c_q c) then ls_err rid rp 1
      else run_reconcile rid rp orc snaps (N.to_nat (c_maxlen c)) (r_next rp) []
  | PRepair snaps it h acc blk pre =>
      let got := collect (c_q c) 0 (arrived_writes orc ib) in
      match repair_decide (c_q c) pre got with
      | Some true =>
          if h =? u32max then ls_blocks rid rp (acc ++ [blk])
          else run_reconcile rid rp (orc / 2) snaps it (h + 1) (acc ++ [blk])
      | Some false => match acc with [] => ls_err rid rp 4 | _ => ls_blocks rid rp acc end
      | None => match acc with [] => ls_err rid rp 5 | _ => ls_blocks rid rp acc end
      end
  | PPublish blk =>
      let got := collect (c_q c) 0 (arrived_writes orc ib) in
      if Nat.leb (c_q c) (count_written got) then
        (* importer: publish Ok, then the local commit *)
        (idle (mkRep (r_owner rp) (r_epoch rp) (r_chain rp ++ [blk]) (r_next rp + 1) (r_ctr rp)
                     (r_phase rp) (r_tag rp) (r_inbox rp)),
         [EvPub rid blk true; EvCommit rid blk], [])
      else
        (* service.rs handle_normal_block_production: release the lease after a failed production *)
        let '(rp2, rq) := goto rid rp (PCheck KRelease) all_nodes (CCheck (r_owner rp)) in
        (rp2, [EvPub rid blk false], rq)
  | PRelAll =>
      let cnt := count_true (map (fun n => dec_check (get n)) all_nodes) in
      if Nat.leb (c_q c) cnt then (idle (with_epoch rp None), [EvRel rid true], [])
      else (idle rp, [EvRel rid false], [])
  end.

Definition start (rid : nat) (o : opk) (rp : replica) : tres :=
  match r_phase rp with
  | PIdle =>
      let '(rp2, rq) := goto rid rp (PCheck (match o with OpRound => KLeader | OpRelease => KRelease end))
                             all_nodes (CCheck (r_owner rp)) in
      (rp2, [], rq)
  | _ => (rp, [], [])
  end.

Definition apply_tres (s : sys) (rid : nat) (t : tres) : sys :=
  let '(rp, evs, rq) := t in
  mkSys (y_nodes s) (set_nth rid rp (y_reps s)) (y_pool s ++ rq) (rev evs ++ y_log s) (y_owners s).

Definition exec_req (s : sys) (i : nat) (deliver : bool) : sys :=
  match nth_error (y_pool s) i with
  | None => s
  | Some rq =>
      match nth_error (y_nodes s) (q_node rq) with
      | None => mkSys (y_nodes s) (y_reps s) (remove_nth i (y_pool s)) (y_log s) (y_owners s)
      | Some nd =>
          let '(rep, nd') := node_exec (q_cmd rq) nd in
          let reps :=
            match nth_error (y_reps s) (q_rep rq) with
            | Some rp =>
                if deliver && (r_tag rp =? q_tag rq)
                then set_nth (q_rep rq)
                       (mkRep (r_owner rp) (r_epoch rp) (r_chain rp) (r_next rp) (r_ctr rp) (r_phase rp)
                              (r_tag rp) (r_inbox rp ++ [(q_node rq, rep)])) (y_reps s)
                else y_reps s
            | None => y_reps s
            end in
          mkSys (set_nth (q_node rq) nd' (y_nodes s)) reps (remove_nth i (y_pool s))
                (EvExec (q_node rq) (q_cmd rq) rep (node_epoch nd') :: y_log s) (y_owners s)
      end
  end.

Definition step (s : sys) (a : action) : sys :=
  match a with
  | AStart r o =>
      match nth_error (y_reps s) r with
      | Some rp => apply_tres s r (start r o rp)
      | None => s
      end
  | AFinish r orc =>
      match nth_error (y_reps s) r with
      | Some rp => apply_tres s r (finish r orc rp)
      | None => s
      end
  | AExec i => exec_req s i true
  | AExecLost i => exec_req s i false
  | ADrop i => mkSys (y_nodes s) (y_reps s) (remove_nth i (y_pool s)) (y_log s) (y_owners s)
  | ATick n dt =>
      match nth_error (y_nodes s) n with
      | Some nd => mkSys (set_nth n (mkNode (n_kv nd) (n_now nd + dt) (n_trim nd)) (y_nodes s))
                         (y_reps s) (y_pool s) (y_log s) (y_owners s)
      | None => s
      end
  | AWipe n =>
      match nth_error (y_nodes s) n with
      | Some nd => mkSys (set_nth n (mkNode kv_empty (n_now nd) (n_trim nd)) (y_nodes s))
                         (y_reps s) (y_pool s) (y_log s) (y_owners s)
      | None => s
      end
  | ASetTrim n k =>
      match nth_error (y_nodes s) n with
      | Some nd => mkSys (set_nth n (mkNode (n_kv nd) (n_now nd) k) (y_nodes s))
                         (y_reps s) (y_pool s) (y_log s) (y_owners s)
      | None => s
      end
  | ACrash r =>
      match nth_error (y_reps s) r with
      | Some rp =>
          mkSys (y_nodes s)
                (set_nth r (mkRep (y_owners s) None (r_chain rp) (r_next rp) (r_ctr rp) PIdle (r_tag rp + 1) [])
                         (y_reps s))
                (y_pool s) (y_log s) (y_owners s + 1)
      | None => s
      end
  end.

Definition run (s : sys) (l : list action) : sys := fold_left step l s.

(* ------------------------------------------------------------------------------------ *)
(* scripted (sequential) runs: one adapter operation at a time, each request of the operation
   meets the next fate of its node: 0 executed and answered, 1 lost, 2 held back (stays in the
   pool, may be executed later), 3 executed but the reply is lost.  Everything is expressed
   through [step], so a scripted run IS a run of the transition system. *)

Inductive mstep :=
| MOp (r : nat) (o : opk) (fates : list (list N)) (orc : list nat)
| MTick (n : nat) (dt : N)
| MWipe (n : nat)
| MCrash (r : nat)
| MHeld (n : nat) (k : nat) (exec : bool)     (* k-th pending request addressed to node n *)
| MSetTrim (n : nat) (k : N).

Fixpoint find_req (rid : nat) (tag : N) (n : nat) (pool : list req) (i : nat) : option (nat * req) :=
  match pool with
  | [] => None
  | rq :: rest => if Nat.eqb (q_rep rq) rid && (q_tag rq =? tag) && Nat.eqb (q_node rq) n
                  then Some (i, rq) else find_req rid tag n rest (S i)
  end.

Definition log_ev (s : sys) (e : ev) : sys :=
  mkSys (y_nodes s) (y_reps s) (y_pool s) (e :: y_log s) (y_owners s).

Fixpoint pop_fate (n : nat) (fates : list (list N)) : N * list (list N) :=
  match n, fates with
  | _, [] => (0, [])
  | O, [] :: r => (0, [] :: r)
  | O, (f :: fs) :: r => (f, fs :: r)
  | S n', x :: r => let '(f, r') := pop_fate n' r in (f, x :: r')
  end.

Fixpoint deliver (rid : nat) (nodes : list nat) (fates : list (list N)) (s : sys) : sys * list (list N) :=
  match nodes with
  | [] => (s, fates)
  | n :: rest =>
      match nth_error (y_reps s) rid with
      | None => (s, fates)
      | Some rp =>
          match find_req rid (r_tag rp) n (y_pool s) 0 with
          | None => deliver rid rest fates s
          | Some (i, rq) =>
              let '(f, fates') := pop_fate n fates in
              let s' := if f =? 0 then step s (AExec i)
                        else if f =? 1 then log_ev (step s (ADrop i)) (EvSkip n (q_cmd rq) 1)
                        else if f =? 2 then log_ev s (EvSkip n (q_cmd rq) 2)
                        else step s (AExecLost i) in
              deliver rid rest fates' s'
          end
      end
  end.

Fixpoint drive (fuel : nat) (rid : nat) (fates : list (list N)) (orc : list nat) (s : sys) : sys :=
  match fuel with
  | O => s
  | S f =>
      match nth_error (y_reps s) rid with
      | None => s
      | Some rp =>
          match r_phase rp with
          | PIdle => s
          | _ =>
              let '(s1, fates1) := deliver rid all_nodes fates s in
              drive f rid fates1 (tl orc) (step s1 (AFinish rid (hd O orc)))
          end
      end
  end.

Fixpoint nth_for_node (n k : nat) (pool : list req) (i : nat) : option nat :=
  match pool with
  | [] => None
  | rq :: rest => if Nat.eqb (q_node rq) n
                  then match k with O => Some i | S k' => nth_for_node n k' rest (S i) end
                  else nth_for_node n k rest (S i)
  end.

Definition mrun1 (s : sys) (m : mstep) : sys :=
  match m with
  | MOp r o fates orc => drive 4096 r fates orc (step s (AStart r o))
  | MTick n dt => step s (ATick n dt)
  | MWipe n => step s (AWipe n)
  | MCrash r => step s (ACrash r)
  | MHeld n k ex =>
      match nth_for_node n k (y_pool s) 0 with
      | Some i => step s (if ex then AExecLost i else ADrop i)
      | None => s
      end
  | MSetTrim n k => step s (ASetTrim n k)
  end.

Definition mrun (s : sys) (l : list mstep) : sys := fold_left mrun1 l s.

End Step.

(* the fork: two replicas hold different committed blocks at one height *)
Definition fork_between (a b : replica) : bool :=
  existsb (fun p => negb (str_eqb (fst p) (snd p))) (combine (r_chain a) (r_chain b)).
Definition has_fork (s : sys) : bool :=
  existsb (fun a => existsb (fun b => fork_between a b) (y_reps s)) (y_reps s).
