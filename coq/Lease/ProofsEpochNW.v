(* Lease cluster: the per-node epoch theorem over the five scripts other than write_block and over
   sequences (fallback when the write_block lemma is not available). *)
From Coq Require Import ZifyBool ZifyN.
From FC Require Import Lease.Adapter Lease.ProofsStr Lease.ProofsRO Lease.ProofsNode.
Open Scope str_scope.
Open Scope N_scope.

Definition not_write (c : cmd) : Prop := match c with CWrite _ _ _ _ _ _ => False | _ => True end.

Lemma epoch_monotone_nw : forall c nd, not_write c -> epoch_wf nd ->
  let nd' := snd (node_exec c nd) in
  epoch_wf nd' /\ node_epoch nd <= node_epoch nd' /\ n_now nd' = n_now nd /\
  n_kv nd' stream_key = n_kv nd stream_key.
Proof.
  intros c nd NW EW. cbn zeta. destruct c; try contradiction.
  - rewrite (ro_frame (CCheck o) nd check_ro). repeat split; auto. lia.
  - destruct (promote_frame o ttl nd) as (A & B & _ & D). destruct (D EW). repeat split; auto.
  - destruct (release_frame o nd) as (A & B & _ & D). destruct (D EW). repeat split; auto.
  - rewrite (ro_frame CLatest nd latest_ro). repeat split; auto. lia.
  - rewrite (ro_frame (CEntries minh count) nd entries_ro). repeat split; auto. lia.
Qed.

Inductive nact := NCmd (c : cmd) | NAdvance (dt : N).
Definition node_act (nd : node) (a : nact) : node :=
  match a with
  | NCmd c => snd (node_exec c nd)
  | NAdvance dt => mkNode (n_kv nd) (n_now nd + dt) (n_trim nd)
  end.
Definition node_run (nd : node) (l : list nact) : node := fold_left node_act l nd.
Definition nact_nw (a : nact) : Prop := match a with NCmd c => not_write c | _ => True end.

Lemma advance_epoch : forall nd dt, epoch_wf nd ->
  epoch_wf (mkNode (n_kv nd) (n_now nd + dt) (n_trim nd)) /\
  node_epoch (mkNode (n_kv nd) (n_now nd + dt) (n_trim nd)) = node_epoch nd.
Proof.
  intros nd dt EW. unfold epoch_wf, node_epoch, live in *. cbn [n_kv n_now].
  destruct (n_kv nd epoch_key) as [[[v|s] [t|]]|]; try contradiction; split; auto.
Qed.

Lemma epoch_monotone_seq_nw : forall cs nd, Forall nact_nw cs -> epoch_wf nd ->
  epoch_wf (node_run nd cs) /\ node_epoch nd <= node_epoch (node_run nd cs).
Proof.
  induction cs as [|a cs IH]; intros nd F EW; cbn; [split; [assumption|lia]|].
  inversion F; subst.
  assert (H : epoch_wf (node_act nd a) /\ node_epoch nd <= node_epoch (node_act nd a)).
  { destruct a; cbn.
    - destruct (epoch_monotone_nw c nd H1 EW) as (A & B & _). split; assumption.
    - destruct (advance_epoch nd dt EW) as [A B]. split; [assumption|]. rewrite B. lia. }
  destruct H as [A B]. destruct (IH _ H2 A) as [C D]. split; [assumption|]. unfold node_run in D. lia.
Qed.
