(* Lease cluster: read_stream_entries.lua as translated -- every decoded item of its reply is an
   entry of the node's stream (in stream order, each entry at most once). *)
From Coq Require Import ZifyBool ZifyN.
From FC Require Import Lease.Adapter Lease.ProofsStr Lease.ProofsRO Lease.ProofsNode Lease.ProofsWrite.
Open Scope str_scope.
Open Scope N_scope.

Definition re_loop : stmt :=
  match read_stream_entries_body with
  | SSeq _ (SSeq _ (SSeq _ (SSeq _ (SSeq _ (SSeq _ (SSeq l _)))))) => l
  | _ => SSkip
  end.
Definition re_loop_body : stmt := match re_loop with SForIpairs _ _ _ b => b | _ => SSkip end.
Lemma re_loop_shape : re_loop = SForIpairs 4 5 (EVar 2) re_loop_body.
Proof. reflexivity. Qed.

Definition entry_ep (x : entry) : N :=
  match e_fields x with
  | _ :: _ :: _ :: _ :: _ :: es :: _ => match tonum es with Some n => n | None => 0 end
  | _ => 0
  end.
Definition item_val (x : entry) : val :=
  VTab [VNum (Z.of_N (entry_h x)); VNum (Z.of_N (entry_ep x)); VStr (entry_d x);
        VStr (id_str (e_ms x) (e_seq x))].

Fixpoint rd (m c : N) (es : list entry) (acc : list val) : list val :=
  match es with
  | [] => acc
  | x :: r =>
      if m <=? entry_h x then
        if (Z.of_nat (List.length (acc ++ [item_val x])) >=? Z.of_N c)%Z then acc ++ [item_val x]
        else rd m c r (acc ++ [item_val x])
      else rd m c r acc
  end.

Ltac symr := cbn -[dec tonum N.add N.sub N.leb N.ltb N.eqb N.min N.div N.modulo N.mul Z.of_N N.of_nat
                   Z.geb app skipn N.to_nat live put del node_epoch id_str].

Lemma zgeb_of_N : forall a b, (Z.of_N a >=? Z.of_N b)%Z = (b <=? a).
Proof. intros. rewrite Z.geb_leb. destruct (N.leb_spec b a); lia. Qed.

Lemma re_scan : forall cx m c es, Forall wf_entry es ->
  forall idx acc v2 v4 v5 v6 v7 v8 v9 v10 v11 nd,
  exists en',
    loop (fun i v en' nd' => exec_stmt cx re_loop_body (env_set 5 v (env_set 4 i en')) nd')
         (take_until_nil (map reply_to_val (map entry_reply es))) idx
         [VNum (Z.of_N m); VNum (Z.of_N c); v2; VTab acc; v4; v5; v6; v7; v8; v9; v10; v11] nd
    = (CNorm, en', nd) /\ env_get 3 en' = VTab (rd m c es acc).
Proof.
  intros cx m c es W. induction W as [|x r Hx Hr IH]; intros.
  - cbn. eexists. split; reflexivity.
  - destruct Hx as (h & dd & ep & t & Hf).
    cbn [map entry_reply reply_to_val take_until_nil loop].
    assert (Eh : entry_h x = h) by (unfold entry_h; rewrite Hf; cbn -[dec tonum]; rewrite tonum_dec; reflexivity).
    assert (Ee : entry_ep x = ep) by (unfold entry_ep; rewrite Hf; cbn -[dec tonum]; rewrite tonum_dec; reflexivity).
    assert (Ed : entry_d x = dd) by (unfold entry_d; rewrite Hf; reflexivity).
    cbn [rd]. unfold item_val. rewrite Eh, Ee, Ed.
    rewrite Hf. unfold wf_fields.
    symr. repeat (progress (rewrite ?tonum_dec; symr)). rewrite zgeb_of_N.
    destruct (m <=? h) eqn:E1; symr.
    + destruct (Z.of_nat (List.length (acc ++ [VTab [VNum (Z.of_N h); VNum (Z.of_N ep); VStr dd; VStr (id_str (e_ms x) (e_seq x))]])) >=? Z.of_N c)%Z eqn:E2; symr.
      * eexists. split; reflexivity.
      * apply IH.
    + apply IH.
Qed.

Inductive sub {A} : list A -> list A -> Prop :=
| sub_nil : sub [] []
| sub_skip : forall x xs ys, sub xs ys -> sub xs (x :: ys)
| sub_keep : forall x xs ys, sub xs ys -> sub (x :: xs) (x :: ys).

Lemma sub_nil_l : forall {A} (l : list A), sub [] l.
Proof. induction l; constructor; assumption. Qed.
Lemma sub_in : forall {A} (xs ys : list A) x, sub xs ys -> In x xs -> In x ys.
Proof. induction 1; cbn; intros; auto. destruct H0; auto. Qed.
Lemma sub_map : forall {A B} (f : A -> B) xs ys, sub xs ys -> sub (map f xs) (map f ys).
Proof. induction 1; cbn; constructor; assumption. Qed.
Lemma sub_nodup : forall {A} (xs ys : list A), sub xs ys -> NoDup ys -> NoDup xs.
Proof.
  induction 1; intro N0; auto; inversion N0; subst; auto.
  constructor; auto. intro I. apply H2. eapply sub_in; eassumption.
Qed.

Definition triple (x : entry) : N * N * str := (entry_h x, entry_ep x, entry_d x).
Definition item_reply (x : entry) : reply :=
  RArr [RInt (Z.of_N (entry_h x)); RInt (Z.of_N (entry_ep x)); RBulk (entry_d x);
        RBulk (id_str (e_ms x) (e_seq x))].

Lemma rd_sub : forall m c es ys,
  exists xs, sub xs es /\ rd m c es (map item_val ys) = map item_val (ys ++ xs).
Proof.
  induction es as [|x r IH]; intros ys; cbn [rd].
  - exists []. split; [constructor|]. rewrite app_nil_r. reflexivity.
  - destruct (m <=? entry_h x).
    + replace (map item_val ys ++ [item_val x]) with (map item_val (ys ++ [x])) by (rewrite map_app; reflexivity).
      destruct (Z.of_nat (List.length (map item_val (ys ++ [x]))) >=? Z.of_N c)%Z.
      * exists [x]. split; [constructor; apply sub_nil_l | reflexivity].
      * destruct (IH (ys ++ [x])) as (xs & S & E). exists (x :: xs). split; [constructor; assumption|].
        rewrite E, <- app_assoc. reflexivity.
    + destruct (IH ys) as (xs & S & E). exists xs. split; [constructor; assumption | assumption].
Qed.

Lemma v2r_items : forall xs, val_to_reply (VTab (map item_val xs)) = RArr (map item_reply xs).
Proof.
  induction xs as [|x r IH]; [reflexivity|].
  cbn in *. inversion IH as [E]. rewrite E. reflexivity.
Qed.

Lemma dec_items : forall xs items, mapM dec_entry (map item_reply xs) = Some items -> items = map triple xs.
Proof.
  induction xs as [|x r IH]; cbn [map mapM]; intros items H; [inversion H; reflexivity|].
  unfold item_reply at 1 in H. cbn [dec_entry] in H. rewrite !N2Z.id in H.
  destruct ((0 <=? Z.of_N (entry_h x))%Z && (entry_h x <=? u32max) && (0 <=? Z.of_N (entry_ep x))%Z && (entry_ep x <=? u64max)); [|discriminate].
  destruct (mapM dec_entry (map item_reply r)) as [rest|] eqn:E; [|discriminate].
  inversion H; subst. rewrite (IH rest eq_refl). reflexivity.
Qed.

Definition re_prefix : list stmt :=
  match read_stream_entries_body with
  | SSeq a (SSeq b (SSeq c (SSeq d (SSeq e (SSeq f _))))) => [a; b; c; d; e; f]
  | _ => []
  end.
Definition re_ret : stmt :=
  match read_stream_entries_body with
  | SSeq _ (SSeq _ (SSeq _ (SSeq _ (SSeq _ (SSeq _ (SSeq _ r)))))) => r
  | _ => SSkip
  end.
Lemma re_shape : read_stream_entries_body = fold_right SSeq (SSeq re_loop re_ret) re_prefix.
Proof. reflexivity. Qed.

Lemma re_loop_exec : forall cx m c es, Forall wf_entry es ->
  forall v4 v5 v6 v7 v8 v9 v10 v11 nd,
  exists en',
    exec_stmt cx re_loop
      [VNum (Z.of_N m); VNum (Z.of_N c); VTab (map reply_to_val (map entry_reply es)); VTab [];
       v4; v5; v6; v7; v8; v9; v10; v11] nd = (CNorm, en', nd) /\
    env_get 3 en' = VTab (rd m c es []).
Proof.
  intros. rewrite re_loop_shape. cbn [exec_stmt eval_expr env_get nth].
  apply (re_scan cx m c es H).
Qed.

Lemma entries_sound : forall m c nd items, stream_wf nd ->
  dec_entries (Some (fst (node_exec (CEntries m c) nd))) = Some items ->
  exists xs, sub xs (node_stream nd) /\ items = map triple xs.
Proof.
  intros m c nd items SW. unfold node_exec, run_script.
  change (sc_body (cmd_script (CEntries m c))) with read_stream_entries_body.
  change (sc_slots (cmd_script (CEntries m c))) with 12%nat.
  change (cmd_keys (CEntries m c)) with [stream_key].
  change (cmd_argv (CEntries m c)) with [dec m; dec c].
  rewrite re_shape, exec_seqs.
  assert (HS : (live nd stream_key = None /\ node_stream nd = []) \/
               exists s1, live nd stream_key = Some (mkK (DStream s1) None) /\
                          node_stream nd = s_entries s1 /\ Forall wf_entry (s_entries s1)).
  { unfold stream_wf in SW. unfold node_stream, live.
    destruct (n_kv nd stream_key) as [[[v|s] [t|]]|]; try contradiction; cbn; eauto. }
  destruct HS as [[Hlive Ees] | (s1 & Hlive & Ees & Wes)].
  all: unfold re_prefix.
  all: cbn -[dec tonum N.add N.sub N.leb N.ltb N.eqb Z.of_N live put del re_loop re_ret].
  all: repeat (first [ progress (unfold stream_of; rewrite ?tonum_dec, ?Hlive;
                 cbn -[dec tonum N.add N.sub N.leb N.ltb N.eqb Z.of_N live put del re_loop re_ret]) | dmatch2 ]).
  all: try (intro H; inversion H; exists []; split; [apply sub_nil_l | reflexivity]).
  all: match goal with
    | |- context [exec_stmt ?cx re_loop [?a0; ?a1; VTab ?tb; ?a3; ?a4; ?a5; ?a6; ?a7; ?a8; ?a9; ?a10; ?a11] ?nd0] =>
        let l := lazymatch tb with
                 | map reply_to_val (map entry_reply ?l) => l
                 | _ => constr:(@nil entry)
                 end in
        assert (WL : Forall wf_entry l) by (first [ apply Forall_nil | assumption ]);
        destruct (re_loop_exec cx m c l WL a4 a5 a6 a7 a8 a9 a10 a11 nd0) as (en' & Hl & H3);
        assert (Hl2 : exec_stmt cx re_loop [a0; a1; VTab tb; a3; a4; a5; a6; a7; a8; a9; a10; a11] nd0 = (CNorm, en', nd0)) by exact Hl;
        rewrite Hl2; clear Hl Hl2;
        change re_ret with (SReturn (EVar 3)); cbn [exec_stmt eval_expr fst snd]; rewrite H3;
        destruct (rd_sub m c l []) as (xs & S & E); cbn [map app] in E; rewrite E, v2r_items;
        intro H; apply dec_items in H; exists xs; split; [rewrite Ees; assumption | assumption]
    end.
Qed.
