(* Lease cluster: the system-level invariant.  Hypotheses of the final theorem (no_fork_sorted):
   every node's stream is sorted by height in every visited state, no node loses data, the
   approximate XTRIM never evicts (trim choice 0), and two quorums intersect (n < 2q). *)
From Coq Require Import ZifyBool ZifyN ZifyNat Permutation.
From FC Require Import Lease.System Lease.ProofsStr Lease.ProofsRO Lease.ProofsNode Lease.ProofsWrite
  Lease.Proofs25 Lease.ProofsEpoch Lease.ProofsRead Lease.ProofsVote.
Open Scope str_scope.
Open Scope N_scope.

(* ------------------------------------------------------------------------------------ *)
(* block payloads parse back to their height *)

Lemma until_dot_uint : forall d r, until_dot (str_of_uint d +++ SCons "." r) = str_of_uint d.
Proof. induction d; intros; cbn; try rewrite IHd; reflexivity. Qed.

Lemma blk_height_data : forall h v, blk_height (data_str h v) = Some h.
Proof.
  intros. unfold data_str, blk_height. cbn [sapp].
  change (Ascii.eqb "b" "b") with true. cbn iota.
  unfold dec at 1. rewrite until_dot_uint. apply tonum_dec.
Qed.

(* ------------------------------------------------------------------------------------ *)
(* nodes *)

Definition holds (nd : node) (h : N) (b : str) : Prop :=
  exists x, In x (node_stream nd) /\ entry_h x = h /\ entry_d x = b.
Definition entry_ok (x : entry) : Prop := blk_height (entry_d x) = Some (entry_h x).
Definition node_good (nd : node) : Prop :=
  node_wf nd /\ n_trim nd = 0 /\ NoDup (heights nd) /\ Forall entry_ok (node_stream nd).
Definition cmd_ok (c : cmd) : Prop :=
  match c with CWrite _ _ h d _ _ => blk_height d = Some h | _ => True end.

Lemma nodup_map_inj : forall {A B} (f : A -> B) l x y,
  NoDup (map f l) -> In x l -> In y l -> f x = f y -> x = y.
Proof.
  induction l as [|a l IH]; cbn; intros x y ND Ix Iy E; [contradiction|].
  inversion ND; subst. destruct Ix as [->|Ix], Iy as [->|Iy]; auto.
  - exfalso. apply H1. rewrite E. apply in_map. assumption.
  - exfalso. apply H1. rewrite <- E. apply in_map. assumption.
Qed.

Lemma holds_unique : forall nd h b b', NoDup (heights nd) -> holds nd h b -> holds nd h b' -> b = b'.
Proof.
  intros nd h b b' ND (x & Ix & Hx & Dx) (y & Iy & Hy & Dy). unfold heights in ND.
  assert (x = y) by (eapply nodup_map_inj; eauto; congruence).
  subst. congruence.
Qed.

Lemma holds_height : forall nd h b, holds nd h b -> In h (heights nd).
Proof. intros nd h b (x & I & H & _). unfold heights. rewrite <- H. apply in_map. assumption. Qed.

Lemma holds_ok : forall nd h b, node_good nd -> holds nd h b -> blk_height b = Some h.
Proof.
  intros nd h b (_ & _ & _ & F) (x & I & H & D). rewrite Forall_forall in F. specialize (F x I).
  unfold entry_ok in F. congruence.
Qed.

Lemma entry_d_new : forall ms sq p d e t, entry_d (mkEntry ms sq (wf_fields p d e t)) = d.
Proof. reflexivity. Qed.

Lemma trim_same : forall c nd, node_wf nd -> n_trim (snd (node_exec c nd)) = n_trim nd.
Proof.
  intros c nd [EW SW]. destruct c as [o|o ttl|o|ep o h d ttl ml| |m cn].
  - rewrite (ro_frame (CCheck o) nd check_ro). reflexivity.
  - destruct (promote_frame o ttl nd) as (_ & _ & C & _). assumption.
  - destruct (release_frame o nd) as (_ & _ & C & _). assumption.
  - destruct (write_exec ep o h d ttl ml nd EW SW) as (_ & B & _). assumption.
  - rewrite (ro_frame CLatest nd latest_ro). reflexivity.
  - rewrite (ro_frame (CEntries m cn) nd entries_ro). reflexivity.
Qed.

Lemma good_same_stream : forall nd nd', node_good nd -> node_wf nd' -> n_trim nd' = n_trim nd ->
  node_stream nd' = node_stream nd ->
  node_good nd' /\ (forall h b, holds nd h b -> holds nd' h b).
Proof.
  intros nd nd' (WF & TR & ND & EO) WF' T E. unfold node_good, heights, holds in *. rewrite E.
  repeat split; try apply WF'; try congruence; auto.
Qed.

(* one script invocation on a good node whose stream is sorted *)
Lemma node_step : forall c nd, node_good nd -> sorted (heights nd) -> cmd_ok c ->
  let nd' := snd (node_exec c nd) in
  node_good nd' /\ (forall h b, holds nd h b -> holds nd' h b).
Proof.
  intros c nd (WF & TR & ND & EO) S CO. cbn zeta.
  destruct (step_all c nd WF) as (WF' & _ & _ & ST).
  pose proof (trim_same c nd WF) as TR'.
  destruct c as [o|o ttl|o|epoch o h data ttl maxlen| |m cn];
    try (apply good_same_stream; [exact (conj WF (conj TR (conj ND EO))) | assumption | assumption | assumption]).
  cbn in CO.
  destruct (write_only_append epoch o h data ttl maxlen nd WF) as [A B].
  pose proof (heights_unique_step epoch o h data ttl maxlen nd WF S ND) as ND'.
  destruct (dec_write (Some (fst (node_exec (CWrite epoch o h data ttl maxlen) nd)))) eqn:D.
  - destruct (B eq_refl) as (_ & ms & sq & t & k & Hs & Hk). rewrite (Hk TR) in Hs. cbn [skipn] in Hs.
    split.
    + refine (conj WF' (conj _ (conj ND' _))); [congruence|].
      rewrite Hs. apply Forall_app. split; [assumption|]. constructor; [|constructor].
      unfold entry_ok. rewrite entry_d_new, entry_h_new. assumption.
    + intros h0 b (x & I & Hx). exists x. split; [rewrite Hs; apply in_or_app; left; assumption | assumption].
  - apply good_same_stream; [exact (conj WF (conj TR (conj ND EO))) | assumption | assumption | apply A; discriminate].
  - apply good_same_stream; [exact (conj WF (conj TR (conj ND EO))) | assumption | assumption | apply A; discriminate].
  - apply good_same_stream; [exact (conj WF (conj TR (conj ND EO))) | assumption | assumption | apply A; discriminate].
Qed.

(* a successful write: the block is there afterwards, and the height was not there before *)
Lemma write_written : forall e o p d ttl ml nd, node_good nd -> sorted (heights nd) ->
  dec_write (Some (fst (node_exec (CWrite e o p d ttl ml) nd))) = WWritten ->
  holds (snd (node_exec (CWrite e o p d ttl ml) nd)) p d /\ ~ In p (heights nd).
Proof.
  intros e o p d ttl ml nd (WF & TR & ND & EO) S W.
  destruct (write_only_append e o p d ttl ml nd WF) as [_ B].
  destruct (B W) as (Sc & ms & sq & t & k & Hs & Hk). rewrite (Hk TR) in Hs. cbn [skipn] in Hs.
  split.
  - exists (mkEntry ms sq (wf_fields p d e t)). split; [rewrite Hs; apply in_or_app; right; left; reflexivity|].
    split; [apply entry_h_new | apply entry_d_new].
  - intro I. pose proof (scan_sorted_finds p (heights nd) S I). congruence.
Qed.

Lemma entries_holds : forall m cn nd items, node_good nd ->
  dec_entries (Some (fst (node_exec (CEntries m cn) nd))) = Some items ->
  (forall h e d, In (h, e, d) items -> holds nd h d) /\ NoDup (map hgt items).
Proof.
  intros m cn nd items ((EW & SW) & _ & ND & _) H.
  destruct (entries_sound m cn nd items SW H) as (xs & S & ->). split.
  - intros h e d I. apply in_map_iff in I. destruct I as (x & E & I). inversion E; subst.
    exists x. split; [eapply sub_in; eassumption | split; reflexivity].
  - replace (map hgt (map triple xs)) with (map entry_h xs) by (rewrite map_map; reflexivity).
    eapply sub_nodup; [apply sub_map; eassumption | exact ND].
Qed.
