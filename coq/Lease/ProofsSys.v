(* Lease cluster: the system-level invariant.  Hypotheses of the final theorem (no_fork_sorted):
   every node's stream is sorted by height in every visited state, no node loses data, the
   approximate XTRIM never evicts (trim choice 0), and two quorums intersect (n < 2q). *)
From Coq Require Import ZifyBool ZifyN ZifyNat Permutation.
From FC Require Import Lease.System Lease.ProofsStr Lease.ProofsRO Lease.ProofsNode Lease.ProofsWrite
  Lease.Proofs25 Lease.ProofsEpoch Lease.ProofsRead Lease.ProofsVote.
Open Scope str_scope.
Open Scope N_scope.

(* ------------------------------------------------------------------------------------ *)
(* block payloads parse back to their height *)

Lemma until_dot_uint : forall d r, until_dot (str_of_uint d +++ SCons "." r) = str_of_uint d.
Proof. induction d; intros; cbn; try rewrite IHd; reflexivity. Qed.

Lemma blk_height_data : forall h v, blk_height (data_str h v) = Some h.
Proof.
  intros. unfold data_str, blk_height. cbn [sapp].
  change (Ascii.eqb "b" "b") with true. cbn iota.
  unfold dec at 1. rewrite until_dot_uint. apply tonum_dec.
Qed.

(* ------------------------------------------------------------------------------------ *)
(* nodes *)

Definition holds (nd : node) (h : N) (b : str) : Prop :=
  exists x, In x (node_stream nd) /\ entry_h x = h /\ entry_d x = b.
Definition entry_ok (x : entry) : Prop := blk_height (entry_d x) = Some (entry_h x).
Definition node_good (nd : node) : Prop :=
  node_wf nd /\ n_trim nd = 0 /\ NoDup (heights nd) /\ Forall entry_ok (node_stream nd).
Definition cmd_ok (c : cmd) : Prop :=
  match c with CWrite _ _ h d _ _ => blk_height d = Some h | _ => True end.

Lemma nodup_map_inj : forall {A B} (f : A -> B) l x y,
  NoDup (map f l) -> In x l -> In y l -> f x = f y -> x = y.
Proof.
  induction l as [|a l IH]; cbn; intros x y ND Ix Iy E; [contradiction|].
  inversion ND; subst. destruct Ix as [->|Ix], Iy as [->|Iy]; auto.
  - exfalso. apply H1. rewrite E. apply in_map. assumption.
  - exfalso. apply H1. rewrite <- E. apply in_map. assumption.
Qed.

Lemma holds_unique : forall nd h b b', NoDup (heights nd) -> holds nd h b -> holds nd h b' -> b = b'.
Proof.
  intros nd h b b' ND (x & Ix & Hx & Dx) (y & Iy & Hy & Dy). unfold heights in ND.
  assert (x = y) by (eapply nodup_map_inj; eauto; congruence).
  subst. congruence.
Qed.

Lemma holds_height : forall nd h b, holds nd h b -> In h (heights nd).
Proof. intros nd h b (x & I & H & _). unfold heights. rewrite <- H. apply in_map. assumption. Qed.

Lemma holds_ok : forall nd h b, node_good nd -> holds nd h b -> blk_height b = Some h.
Proof.
  intros nd h b (_ & _ & _ & F) (x & I & H & D). rewrite Forall_forall in F. specialize (F x I).
  unfold entry_ok in F. congruence.
Qed.

Lemma entry_d_new : forall ms sq p d e t, entry_d (mkEntry ms sq (wf_fields p d e t)) = d.
Proof. reflexivity. Qed.

Lemma trim_same : forall c nd, node_wf nd -> n_trim (snd (node_exec c nd)) = n_trim nd.
Proof.
  intros c nd [EW SW]. destruct c as [o|o ttl|o|ep o h d ttl ml| |m cn].
  - rewrite (ro_frame (CCheck o) nd check_ro). reflexivity.
  - destruct (promote_frame o ttl nd) as (_ & _ & C & _). assumption.
  - destruct (release_frame o nd) as (_ & _ & C & _). assumption.
  - destruct (write_exec ep o h d ttl ml nd EW SW) as (_ & B & _). assumption.
  - rewrite (ro_frame CLatest nd latest_ro). reflexivity.
  - rewrite (ro_frame (CEntries m cn) nd entries_ro). reflexivity.
Qed.

Lemma good_same_stream : forall nd nd', node_good nd -> node_wf nd' -> n_trim nd' = n_trim nd ->
  node_stream nd' = node_stream nd ->
  node_good nd' /\ (forall h b, holds nd h b -> holds nd' h b).
Proof.
  intros nd nd' (WF & TR & ND & EO) WF' T E. unfold node_good, heights, holds in *. rewrite E.
  repeat split; try apply WF'; try congruence; auto.
Qed.

(* one script invocation on a good node whose stream is sorted *)
Lemma node_step : forall c nd, node_good nd -> sorted (heights nd) -> cmd_ok c ->
  let nd' := snd (node_exec c nd) in
  node_good nd' /\ (forall h b, holds nd h b -> holds nd' h b).
Proof.
  intros c nd (WF & TR & ND & EO) S CO. cbn zeta.
  destruct (step_all c nd WF) as (WF' & _ & _ & ST).
  pose proof (trim_same c nd WF) as TR'.
  destruct c as [o|o ttl|o|epoch o h data ttl maxlen| |m cn];
    try (apply good_same_stream; [exact (conj WF (conj TR (conj ND EO))) | assumption | assumption | assumption]).
  cbn in CO.
  destruct (write_only_append epoch o h data ttl maxlen nd WF) as [A B].
  pose proof (heights_unique_step epoch o h data ttl maxlen nd WF S ND) as ND'.
  destruct (dec_write (Some (fst (node_exec (CWrite epoch o h data ttl maxlen) nd)))) eqn:D.
  - destruct (B eq_refl) as (_ & ms & sq & t & k & Hs & Hk). rewrite (Hk TR) in Hs. cbn [skipn] in Hs.
    split.
    + refine (conj WF' (conj _ (conj ND' _))); [congruence|].
      rewrite Hs. apply Forall_app. split; [assumption|]. constructor; [|constructor].
      unfold entry_ok. rewrite entry_d_new, entry_h_new. assumption.
    + intros h0 b (x & I & Hx). exists x. split; [rewrite Hs; apply in_or_app; left; assumption | assumption].
  - apply good_same_stream; [exact (conj WF (conj TR (conj ND EO))) | assumption | assumption | apply A; discriminate].
  - apply good_same_stream; [exact (conj WF (conj TR (conj ND EO))) | assumption | assumption | apply A; discriminate].
  - apply good_same_stream; [exact (conj WF (conj TR (conj ND EO))) | assumption | assumption | apply A; discriminate].
Qed.

(* a successful write: the block is there afterwards, and the height was not there before *)
Lemma write_written : forall e o p d ttl ml nd, node_good nd -> sorted (heights nd) ->
  dec_write (Some (fst (node_exec (CWrite e o p d ttl ml) nd))) = WWritten ->
  holds (snd (node_exec (CWrite e o p d ttl ml) nd)) p d /\ ~ In p (heights nd).
Proof.
  intros e o p d ttl ml nd (WF & TR & ND & EO) S W.
  destruct (write_only_append e o p d ttl ml nd WF) as [_ B].
  destruct (B W) as (Sc & ms & sq & t & k & Hs & Hk). rewrite (Hk TR) in Hs. cbn [skipn] in Hs.
  split.
  - exists (mkEntry ms sq (wf_fields p d e t)). split; [rewrite Hs; apply in_or_app; right; left; reflexivity|].
    split; [apply entry_h_new | apply entry_d_new].
  - intro I. pose proof (scan_sorted_finds p (heights nd) S I). congruence.
Qed.

Lemma entries_holds : forall m cn nd items, node_good nd ->
  dec_entries (Some (fst (node_exec (CEntries m cn) nd))) = Some items ->
  (forall h e d, In (h, e, d) items -> holds nd h d) /\ NoDup (map hgt items).
Proof.
  intros m cn nd items ((EW & SW) & _ & ND & _) H.
  destruct (entries_sound m cn nd items SW H) as (xs & S & ->). split.
  - intros h e d I. apply in_map_iff in I. destruct I as (x & E & I). inversion E; subst.
    exists x. split; [eapply sub_in; eassumption | split; reflexivity].
  - replace (map hgt (map triple xs)) with (map entry_h xs) by (rewrite map_map; reflexivity).
    eapply sub_nodup; [apply sub_map; eassumption | exact ND].
Qed.

(* ------------------------------------------------------------------------------------ *)
(* list facts *)

Lemma Forall2_combine_in : forall {A B} (P : A -> B -> Prop) l1 l2 a b,
  Forall2 P l1 l2 -> In (a, b) (combine l1 l2) -> P a b.
Proof.
  induction 1; cbn; intros I; [contradiction|]. destruct I as [I|I]; [inversion I; subst; assumption | auto].
Qed.

Lemma nodup_fst_filter_combine : forall {A B} (f : A * B -> bool) (l1 : list A) (l2 : list B),
  NoDup l1 -> NoDup (map fst (filter f (combine l1 l2))).
Proof.
  induction l1 as [|a l1 IH]; intros l2 ND; cbn; [constructor|].
  destruct l2 as [|b l2]; cbn; [constructor|]. inversion ND; subst.
  destruct (f (a, b)); cbn; [|apply IH; assumption].
  constructor; [|apply IH; assumption].
  intro I. apply H1. apply in_map_iff in I. destruct I as ([a' b'] & E & I). cbn in E. subst.
  apply filter_In in I. destruct I as [I _]. eapply in_combine_l. eassumption.
Qed.

Lemma filter_combine_length : forall {A B} (f : B -> bool) (l1 : list A) (l2 : list B),
  List.length l1 = List.length l2 ->
  List.length (filter (fun p => f (snd p)) (combine l1 l2)) = List.length (filter f l2).
Proof.
  induction l1 as [|a l1 IH]; destruct l2 as [|b l2]; cbn; intros E; try discriminate; [reflexivity|].
  destruct (f b); cbn; rewrite IH by congruence; reflexivity.
Qed.

Section Sys.
Variable c : cfg.
Hypothesis Hq : (c_n c < 2 * c_q c)%nat.

Definition node_at (nodes : list node) (n : nat) (h : N) (b : str) : Prop :=
  exists nd, nth_error nodes n = Some nd /\ holds nd h b.
Definition quorum_holds (nodes : list node) (h : N) (b : str) : Prop :=
  exists ns, NoDup ns /\ (c_q c <= List.length ns)%nat /\ forall n, In n ns -> node_at nodes n h b.
Definition snap_ok (nodes : list node) (n : nat) (snap : list (N * N * str)) : Prop :=
  (forall h e d, In (h, e, d) snap -> node_at nodes n h d) /\ NoDup (map hgt snap).
Definition snap_hash (snap : list (N * N * str)) (h : N) : bool := existsb (fun x => hgt x =? h) snap.
Definition writes_ok (nodes : list node) (ib : list (nat * reply)) (h : N) (b : str) : Prop :=
  forall n r, In (n, r) ib -> dec_write (Some r) = WWritten -> node_at nodes n h b.
Definition reads_ok (nodes : list node) (ib : list (nat * reply)) : Prop :=
  forall n r items, In (n, r) ib -> dec_entries (Some r) = Some items -> snap_ok nodes n items.
Definition acc_ok (nodes : list node) (acc : list str) : Prop :=
  forall b, In b acc -> exists h, quorum_holds nodes h b.
Definition snaps_ok (nodes : list node) (ns : list nat) (snaps : list (list (N * N * str))) : Prop :=
  NoDup ns /\ Forall2 (snap_ok nodes) ns snaps.
Definition pre_ok (nodes : list node) (ns : list nat) (snaps : list (list (N * N * str)))
           (h : N) (blk : str) (pre : nat) : Prop :=
  exists ps, NoDup ps /\ (pre <= List.length ps)%nat /\
    forall n, In n ps -> node_at nodes n h blk /\
                         exists snap, In (n, snap) (combine ns snaps) /\ snap_hash snap h = true.

Definition phase_ok (nodes : list node) (rp : replica) : Prop :=
  match r_phase rp with
  | PPublish blk => writes_ok nodes (r_inbox rp) (r_next rp) blk
  | PEntries => reads_ok nodes (r_inbox rp)
  | PRepair snaps it h acc blk pre =>
      writes_ok nodes (r_inbox rp) h blk /\ acc_ok nodes acc /\
      exists ns, snaps_ok nodes ns snaps /\ pre_ok nodes ns snaps h blk pre /\
        (forall n r snap, In (n, r) (r_inbox rp) -> dec_write (Some r) = WWritten ->
                          In (n, snap) (combine ns snaps) -> snap_hash snap h = false)
  | _ => True
  end.
Definition chain_ok (nodes : list node) (rp : replica) : Prop :=
  (forall i b, nth_error (r_chain rp) i = Some b -> quorum_holds nodes (N.of_nat i + 1) b) /\
  r_next rp = N.of_nat (List.length (r_chain rp)) + 1.
Definition rep_ok (nodes : list node) (rp : replica) : Prop :=
  chain_ok nodes rp /\ phase_ok nodes rp /\ NoDup (map fst (r_inbox rp)).

(* monotonicity: node streams only grow *)
Definition ext (nodes nodes' : list node) : Prop :=
  forall n h b, node_at nodes n h b -> node_at nodes' n h b.

Lemma quorum_mono : forall nodes nodes' h b, ext nodes nodes' -> quorum_holds nodes h b -> quorum_holds nodes' h b.
Proof. intros nodes nodes' h b E (ns & A & B & C). exists ns. repeat split; auto. Qed.
Lemma snap_ok_mono : forall nodes nodes' n s, ext nodes nodes' -> snap_ok nodes n s -> snap_ok nodes' n s.
Proof. intros nodes nodes' n s E [A B]. split; [intros; apply E; eapply A; eassumption | assumption]. Qed.
Lemma acc_ok_mono : forall nodes nodes' acc, ext nodes nodes' -> acc_ok nodes acc -> acc_ok nodes' acc.
Proof. intros nodes nodes' acc E A b I. destruct (A b I) as [h Q]. exists h. eapply quorum_mono; eassumption. Qed.
Lemma snaps_ok_mono : forall nodes nodes' ns snaps, ext nodes nodes' -> snaps_ok nodes ns snaps -> snaps_ok nodes' ns snaps.
Proof.
  intros nodes nodes' ns snaps E [A B]. split; [assumption|].
  induction B; constructor; [eapply snap_ok_mono; eassumption|].
  apply IHB. inversion A; assumption.
Qed.
Lemma pre_ok_mono : forall nodes nodes' ns snaps h blk pre, ext nodes nodes' ->
  pre_ok nodes ns snaps h blk pre -> pre_ok nodes' ns snaps h blk pre.
Proof.
  intros nodes nodes' ns snaps h blk pre E (ps & A & B & C). exists ps. repeat split; auto.
  - apply E. apply (C n H).
  - apply (C n H).
Qed.
Lemma writes_ok_mono : forall nodes nodes' ib h b, ext nodes nodes' -> writes_ok nodes ib h b -> writes_ok nodes' ib h b.
Proof. intros nodes nodes' ib h b E W n r I D. apply E. eapply W; eassumption. Qed.
Lemma reads_ok_mono : forall nodes nodes' ib, ext nodes nodes' -> reads_ok nodes ib -> reads_ok nodes' ib.
Proof. intros nodes nodes' ib E R n r items I D. eapply snap_ok_mono; [eassumption|]. eapply R; eassumption. Qed.

Lemma phase_ok_mono : forall nodes nodes' rp, ext nodes nodes' -> phase_ok nodes rp -> phase_ok nodes' rp.
Proof.
  intros nodes nodes' rp E P. unfold phase_ok in *. destruct (r_phase rp); auto.
  - eapply reads_ok_mono; eassumption.
  - destruct P as (A & B & ns & C & D & F). split; [eapply writes_ok_mono; eassumption|].
    split; [eapply acc_ok_mono; eassumption|]. exists ns.
    split; [eapply snaps_ok_mono; eassumption|]. split; [eapply pre_ok_mono; eassumption | assumption].
  - eapply writes_ok_mono; eassumption.
Qed.
Lemma chain_ok_mono : forall nodes nodes' rp, ext nodes nodes' -> chain_ok nodes rp -> chain_ok nodes' rp.
Proof. intros nodes nodes' rp E [A B]. split; [intros; eapply quorum_mono; [eassumption|eapply A; eassumption] | assumption]. Qed.
Lemma rep_ok_mono : forall nodes nodes' rp, ext nodes nodes' -> rep_ok nodes rp -> rep_ok nodes' rp.
Proof.
  intros nodes nodes' rp E (A & B & C). split; [eapply chain_ok_mono; eassumption|].
  split; [eapply phase_ok_mono; eassumption | assumption].
Qed.

(* the winner of the vote at height h: as many distinct nodes hold it as it has votes *)
Lemma winner_nodes : forall nodes ns snaps orc h cnt b,
  snaps_ok nodes ns snaps -> winner orc (tally h snaps) = Some (cnt, b) ->
  (1 <= cnt)%nat /\ pre_ok nodes ns snaps h b cnt.
Proof.
  intros nodes ns snaps orc h cnt b [ND F] W.
  destruct (winner_in _ _ _ _ W) as [me I].
  assert (FN : Forall (fun snap => NoDup (map hgt snap)) snaps).
  { clear -F. induction F; constructor; [apply H | assumption]. }
  pose proof (tally_bound h snaps b me cnt FN I) as Bd.
  split; [eapply tally_pos; eassumption|].
  exists (map fst (filter (fun p => snap_has (snd p) h b) (combine ns snaps))).
  split; [apply nodup_fst_filter_combine; assumption|].
  split.
  - rewrite map_length, (filter_combine_length (fun s => snap_has s h b)).
    + exact Bd.
    + clear -F. induction F; cbn; congruence.
  - intros n In0. apply in_map_iff in In0. destruct In0 as ([n' snap] & E & I0). cbn in E. subst n'.
    apply filter_In in I0. destruct I0 as [I0 S]. cbn in S.
    pose proof (Forall2_combine_in _ _ _ _ _ F I0) as [SA _].
    apply snap_has_in in S. destruct S as [e Ie]. split; [eapply SA; eassumption|].
    exists snap. split; [assumption|]. unfold snap_hash. apply existsb_exists.
    exists (h, e, b). split; [assumption|]. cbn. apply N.eqb_refl.
Qed.

Lemma pre_quorum : forall nodes ns snaps h b cnt,
  pre_ok nodes ns snaps h b cnt -> (c_q c <= cnt)%nat -> quorum_holds nodes h b.
Proof.
  intros nodes ns snaps h b cnt (ps & A & B & C) Q. exists ps. split; [assumption|].
  split; [lia|]. intros n I. apply (C n I).
Qed.

Definition rres_ok (nodes : list node) (ns : list nat) (snaps : list (list (N * N * str))) (r : rres) : Prop :=
  match r with
  | RDone acc' => acc_ok nodes acc'
  | RErrC _ => True
  | RNeed it h' acc' blk pre => acc_ok nodes acc' /\ (1 <= pre)%nat /\ pre_ok nodes ns snaps h' blk pre
  end.

Lemma acc_ok_snoc : forall nodes acc b h, acc_ok nodes acc -> quorum_holds nodes h b -> acc_ok nodes (acc ++ [b]).
Proof.
  intros nodes acc b h A Q b' I. apply in_app_or in I. destruct I as [I|[<-|[]]]; [apply A; assumption|].
  exists h. assumption.
Qed.

Lemma reconcile_sound : forall nodes ns snaps orc, snaps_ok nodes ns snaps ->
  forall iter h acc, acc_ok nodes acc ->
  rres_ok nodes ns snaps (reconcile (c_q c) orc snaps iter h acc).
Proof.
  intros nodes ns snaps orc SO. induction iter as [|it IH]; intros h acc A; cbn [reconcile]; [exact A|].
  destruct (Nat.eqb (nodes_with_height h snaps) 0); [destruct acc; [exact Logic.I | exact A]|].
  destruct (winner orc (tally h snaps)) as [[cnt b]|] eqn:W; [|destruct acc; [exact Logic.I | exact A]].
  destruct (winner_nodes nodes ns snaps orc h cnt b SO W) as [P1 P].
  destruct (Nat.leb (c_q c) cnt) eqn:Q.
  - apply Nat.leb_le in Q. pose proof (pre_quorum _ _ _ _ _ _ P Q) as QH.
    destruct (h =? u32max); [cbn; eapply acc_ok_snoc; eassumption|].
    apply IH. eapply acc_ok_snoc; eassumption.
  - cbn. auto.
Qed.
End Sys.
