From FC Require Import Lease.Model.
Require Extraction.
Require Import ExtrOcamlBasic.
Extraction "lease_model.ml" main_T.
