(* Lease cluster (C25): T codecs, the decidable checkers evaluated on the implementation's
   observation, and the entry point main_T.  Executable definitions only.

   Request (25 input observed).
   input kind 0  (0 (cmd ...))                      script-level run on ONE node
     cmd: (0 o) check  (1 o ttl) promote  (2 o) release  (3 epoch o h v ttl maxlen) write
          (4) read latest  (5 minh count) read entries  (6 dt) clock  (7 k) trim choice  (8) data loss
     observation: ((reply epoch owner) per cmd ...) (stream entries)
   input kind 1  (1 (nodes replicas budget ttl maxlen attempts) (step ...))   real adapters
     step: (0 r fates) one PoA production round   (1 r fates) release
           (2 n dt) clock of node n   (3 n) node n loses its data   (4 r) replica restart
           (5 n k) the k-th held request of node n executes   (6 n k) ... is dropped
           (7 n k) trim choice of node n
     observation: ((step-observation ...) ((chain per replica) (stream per node)))  *)
From FC Require Export Lease.System.
Open Scope str_scope.
Open Scope N_scope.

Definition tNat (n : nat) : T := tN (N.of_nat n).
Definition getNat (t : T) : option nat := option_map N.to_nat (getN t).

Definition tStr (s : str) : T := L (map (fun c => tN (N_of_ascii c)) (str_chars s)).
Definition getStr (t : T) : option str :=
  match getListN t with
  | Some l => Some (str_of_chars (map ascii_of_N l))
  | None => None
  end.

Fixpoint tReply (r : reply) : T :=
  match r with
  | RNil => L [I 0%Z]
  | RInt z => L [I 1%Z; I z]
  | RBulk s => L [I 2%Z; tStr s]
  | RStatus s => L [I 3%Z; tStr s]
  | RErr s => L [I 4%Z; tStr s]
  | RArr l => L (I 5%Z :: map tReply l)
  | RFail => L [I 6%Z]
  end.

Definition cmd_code (c : cmd) : N :=
  match c with
  | CCheck _ => 0 | CPromote _ _ => 1 | CRelease _ => 2 | CWrite _ _ _ _ _ _ => 3
  | CLatest => 4 | CEntries _ _ => 5
  end.
Definition tCmd (c : cmd) : T :=
  L [tN (cmd_code c); L (map tStr (cmd_keys c)); L (map tStr (cmd_argv c))].

Definition tEntry (e : entry) : T := L [tN (e_ms e); tN (e_seq e); L (map tStr (e_fields e))].

Definition tNodeEv (e : ev) : option (nat * T) :=
  match e with
  | EvExec n c r ep => Some (n, L [I 0%Z; tCmd c; tReply r; tN ep])
  | EvSkip n c f => Some (n, L [I 1%Z; tCmd c; tN f])
  | _ => None
  end.
Definition tDecision (e : ev) : option T :=
  match e with
  | EvLs _ code blks => Some (L [I 0%Z; tN code; L (map tStr blks)])
  | EvPub _ b ok => Some (L [I 1%Z; tStr b; tB ok])
  | EvRel _ ok => Some (L [I 2%Z; tB ok])
  | EvCommit _ b => Some (L [I 3%Z; tStr b])
  | _ => None
  end.

(* events of one step (oldest first) -> ((node 0 events) (node 1 events) ...) (decisions) *)
Definition tStepObs (n : nat) (evs : list ev) : T :=
  L [L (map (fun k => L (flat_map (fun e => match tNodeEv e with
                                            | Some (m, t) => if Nat.eqb m k then [t] else []
                                            | None => []
                                            end) evs)) (seq 0 n));
     L (flat_map (fun e => match tDecision e with Some t => [t] | None => [] end) evs)].

Definition tFinal (s : sys) : T :=
  L [L (map (fun rp => L (map tStr (r_chain rp))) (y_reps s));
     L (map (fun nd => L (map tEntry (node_stream nd))) (y_nodes s))].

(* ------------------------------------------------------------------------------------ *)
(* decoding of the inputs *)

Definition T_fates (t : T) : option (list (list N)) :=
  match getL t with Some l => mapM getListN l | None => None end.

Definition T_mstep (orc : list nat) (t : T) : option mstep :=
  match t with
  | L [I 0%Z; r; f] => match getNat r, T_fates f with
                       | Some r, Some f => Some (MOp r OpRound f orc) | _, _ => None end
  | L [I 1%Z; r; f] => match getNat r, T_fates f with
                       | Some r, Some f => Some (MOp r OpRelease f orc) | _, _ => None end
  | L [I 2%Z; n; dt] => match getNat n, getN dt with
                        | Some n, Some dt => Some (MTick n dt) | _, _ => None end
  | L [I 3%Z; n] => match getNat n with Some n => Some (MWipe n) | None => None end
  | L [I 4%Z; r] => match getNat r with Some r => Some (MCrash r) | None => None end
  | L [I 5%Z; n; k] => match getNat n, getNat k with
                       | Some n, Some k => Some (MHeld n k true) | _, _ => None end
  | L [I 6%Z; n; k] => match getNat n, getNat k with
                       | Some n, Some k => Some (MHeld n k false) | _, _ => None end
  | L [I 7%Z; n; k] => match getNat n, getN k with
                       | Some n, Some k => Some (MSetTrim n k) | _, _ => None end
  | _ => None
  end.

(* the nondeterminism of an operation (arrival order of write replies, iteration order of a hash
   map on an epoch tie) is resolved by an oracle; the candidates tried against the observation *)
Definition orc_candidates : list (list nat) :=
  [] :: flat_map (fun p => map (fun v => (repeat O p ++ [v])%list) [1; 2; 3]%nat) (seq 0 14).

Definition step_events (before after : sys) : list ev :=
  rev (firstn (List.length (y_log after) - List.length (y_log before)) (y_log after)).

Definition run_step_with (c : cfg) (s : sys) (t : T) (orc : list nat) : option (sys * T) :=
  match T_mstep orc t with
  | Some m => let s' := mrun1 c s m in Some (s', tStepObs (c_n c) (step_events s s'))
  | None => None
  end.

Fixpoint first_match (c : cfg) (s : sys) (t : T) (want : T) (cands : list (list nat)) : option (sys * T) :=
  match cands with
  | [] => None
  | o :: r => match run_step_with c s t o with
              | Some (s', out) => if T_eqb out want then Some (s', out) else first_match c s t want r
              | None => None
              end
  end.

Fixpoint run_steps (c : cfg) (s : sys) (steps : list T) (observed : list T) : option (sys * list T) :=
  match steps with
  | [] => Some (s, [])
  | t :: rest =>
      let want := hd (L []) observed in
      let pick := match t with
                  | L (I 0%Z :: _) | L (I 1%Z :: _) =>
                      match first_match c s t want orc_candidates with
                      | Some r => Some r
                      | None => run_step_with c s t []
                      end
                  | _ => run_step_with c s t []
                  end in
      match pick with
      | Some (s', out) => match run_steps c s' rest (tl observed) with
                          | Some (sf, outs) => Some (sf, out :: outs)
                          | None => None
                          end
      | None => None
      end
  end.

(* kind 0: typed commands on one node *)
Inductive ncmd := NScript (c : cmd) | NTick (dt : N) | NTrim (k : N) | NWipe.
Definition T_ncmd (t : T) : option ncmd :=
  match t with
  | L [I 0%Z; o] => option_map (fun o => NScript (CCheck o)) (getN o)
  | L [I 1%Z; o; ttl] => match getN o, getN ttl with
                         | Some o, Some ttl => Some (NScript (CPromote o ttl)) | _, _ => None end
  | L [I 2%Z; o] => option_map (fun o => NScript (CRelease o)) (getN o)
  | L [I 3%Z; e; o; h; v; ttl; ml] =>
      match getN e, getN o, getN h, getN v, getN ttl, getN ml with
      | Some e, Some o, Some h, Some v, Some ttl, Some ml =>
          Some (NScript (CWrite e o h (data_str h v) ttl ml))
      | _, _, _, _, _, _ => None
      end
  | L [I 4%Z] => Some (NScript CLatest)
  | L [I 5%Z; m; c] => match getN m, getN c with
                       | Some m, Some c => Some (NScript (CEntries m c)) | _, _ => None end
  | L [I 6%Z; dt] => option_map NTick (getN dt)
  | L [I 7%Z; k] => option_map NTrim (getN k)
  | L [I 8%Z] => Some NWipe
  | _ => None
  end.

Definition nstep (nd : node) (c : ncmd) : reply * node :=
  match c with
  | NScript c => node_exec c nd
  | NTick dt => (RNil, mkNode (n_kv nd) (n_now nd + dt) (n_trim nd))
  | NTrim k => (RNil, mkNode (n_kv nd) (n_now nd) k)
  | NWipe => (RNil, mkNode kv_empty (n_now nd) (n_trim nd))
  end.

Fixpoint nrun (nd : node) (cs : list ncmd) : list (reply * node) :=
  match cs with
  | [] => []
  | c :: r => let '(rep, nd') := nstep nd c in (rep, nd') :: nrun nd' r
  end.

Definition tOwner (nd : node) : T :=
  match node_owner nd with Some o => tStr o | None => L [] end.
Definition tNodeObs (l : list (reply * node)) : T :=
  L [L (map (fun x => L [tReply (fst x); tN (node_epoch (snd x)); tOwner (snd x)]) l);
     L (map tEntry (node_stream (match last l (RNil, empty_node) with (_, nd) => nd end)))].

(* ------------------------------------------------------------------------------------ *)
(* Pcheck, kind 1: evaluated on the observation of the real adapters *)

(* a stream entry as (height, data); fields = height h data d epoch e timestamp t *)
Definition entry_hd (fields : list str) : option (N * str) :=
  match fields with
  | _ :: h :: _ :: d :: _ => match tonum h with Some h => Some (h, d) | None => None end
  | _ => None
  end.

Record obs1 := mkObs1 {
  o_chains : list (list str);
  o_streams : list (list (N * str));           (* per node, stream order *)
  o_pubs : list str;                           (* blocks for which publish returned Ok *)
  o_epochs : list (list (list N))                 (* per step, per node: epochs after each execution *)
}.

Definition T_stream_entry (t : T) : option (N * str) :=
  match t with
  | L [_; _; L fs] => match mapM getStr fs with Some fs => entry_hd fs | None => None end
  | _ => None
  end.
Definition T_node_epochs (t : T) : option (list N) :=
  match getL t with
  | Some evs => Some (flat_map (fun e => match e with
                                         | L [I 0%Z; _; _; ep] => match getN ep with Some x => [x] | None => [] end
                                         | _ => []
                                         end) evs)
  | None => None
  end.
Definition T_step_pubs (t : T) : list str :=
  match t with
  | L [_; L ds] => flat_map (fun d => match d with
                                      | L [I 1%Z; b; I 1%Z] => match getStr b with Some b => [b] | None => [] end
                                      | _ => []
                                      end) ds
  | _ => []
  end.
Definition T_step_epochs (t : T) : option (list (list N)) :=
  match t with
  | L [L ns; _] => mapM T_node_epochs ns
  | _ => None
  end.
Definition T_obs1 (t : T) : option obs1 :=
  match t with
  | L [L steps; L [L chains; L streams]] =>
      match mapM (fun c => match getL c with Some l => mapM getStr l | None => None end) chains,
            mapM (fun s => match getL s with Some l => mapM T_stream_entry l | None => None end) streams,
            mapM T_step_epochs steps with
      | Some ch, Some st, Some ep => Some (mkObs1 ch st (flat_map T_step_pubs steps) ep)
      | _, _, _ => None
      end
  | _ => None
  end.

Definition pair_eqb (a b : N * str) : bool := (fst a =? fst b) && str_eqb (snd a) (snd b).

(* (1) no two replicas committed different blocks at one height *)
Definition chains_agree (a b : list str) : bool :=
  forallb (fun p => str_eqb (fst p) (snd p)) (combine a b).
Definition chains_okb (chains : list (list str)) : bool :=
  forallb (fun a => forallb (fun b => chains_agree a b) chains) chains.

(* (2) no two publishes returned Ok for different blocks of one height *)
Definition same_height (a b : str) : bool :=
  match blk_height a, blk_height b with
  | Some x, Some y => x =? y
  | _, _ => false
  end.
Definition pubs_okb (pubs : list str) : bool :=
  forallb (fun a => forallb (fun b => negb (same_height a b) || str_eqb a b) pubs) pubs.

(* (3) at most one block per height is present on a quorum of nodes *)
Definition on_nodes (p : N * str) (streams : list (list (N * str))) : nat :=
  List.length (filter (fun s => existsb (pair_eqb p) s) streams).
Definition quorum_okb (q : nat) (streams : list (list (N * str))) : bool :=
  let all := concat streams in
  forallb (fun a => forallb (fun b =>
     negb ((fst a =? fst b) && Nat.leb q (on_nodes a streams) && Nat.leb q (on_nodes b streams))
     || str_eqb (snd a) (snd b)) all) all.

(* (4) the fencing epoch of a node never decreases, except across a loss of its data *)
Fixpoint mono_from (last : N) (l : list N) : option N :=
  match l with
  | [] => Some last
  | x :: r => if last <=? x then mono_from x r else None
  end.
Fixpoint epochs_step (lasts : list N) (per_node : list (list N)) : option (list N) :=
  match lasts, per_node with
  | [], _ => Some []
  | l :: lr, [] => Some (l :: lr)
  | l :: lr, e :: er => match mono_from l e, epochs_step lr er with
                        | Some x, Some xs => Some (x :: xs)
                        | _, _ => None
                        end
  end.
Fixpoint epochs_okb (lasts : list N) (wipes : list (option nat)) (steps : list (list (list N))) : bool :=
  match steps with
  | [] => true
  | st :: rest =>
      let lasts1 := match hd None wipes with Some n => set_nth n 0 lasts | None => lasts end in
      match epochs_step lasts1 st with
      | Some lasts2 => epochs_okb lasts2 (tl wipes) rest
      | None => false
      end
  end.

Fixpoint sortedb (l : list N) : bool :=
  match l with
  | [] => true
  | x :: r => match r with [] => true | y :: _ => (x <=? y) && sortedb r end
  end.
Definition streams_sortedb (streams : list (list (N * str))) : bool :=
  forallb (fun s => sortedb (map fst s)) streams.

Definition step_wipe (t : T) : option nat :=
  match t with L [I 3%Z; n] => getNat n | _ => None end.

(* failure classes: 0 generic, 2 = fork while some node's stream is not sorted by height,
   3 = the epoch decreased *)
Definition lease_pcode (q nodes : nat) (wipes : list (option nat)) (o : obs1) : N :=
  if negb (epochs_okb (repeat 0 nodes) wipes (o_epochs o)) then 3
  else if chains_okb (o_chains o) && pubs_okb (o_pubs o) && quorum_okb q (o_streams o) then 1
  else if negb (streams_sortedb (o_streams o)) then 2 else 0.

(* Pcheck, kind 0: per node *)
Fixpoint node_epochs_okb (last : N) (cs : list ncmd) (obs : list T) : bool :=
  match cs, obs with
  | [], _ => true
  | _ :: _, [] => false
  | c :: cr, L [_; ep; _] :: orr =>
      match getN ep with
      | Some e => match c with
                  | NWipe => node_epochs_okb e cr orr
                  | _ => (last <=? e) && node_epochs_okb e cr orr
                  end
      | None => false
      end
  | _ :: _, _ :: _ => false
  end.
(* a successful write: the lock is held by the caller before and after, epoch argument >= node epoch *)
Fixpoint node_writes_okb (prev_owner : T) (prev_ep : N) (cs : list ncmd) (obs : list T) : bool :=
  match cs, obs with
  | [], _ => true
  | _ :: _, [] => false
  | c :: cr, L [rep; ep; ow] :: orr =>
      match getN ep with
      | Some e =>
          (match c, rep with
           | NScript (CWrite we wo _ _ _ _), L [I 2%Z; _] =>
               T_eqb prev_owner (tStr (owner_str wo)) && (prev_ep <=? we) && (e =? we)
           | _, _ => true
           end) && node_writes_okb ow e cr orr
      | None => false
      end
  | _ :: _, _ :: _ => false
  end.

(* ------------------------------------------------------------------------------------ *)

(* kind 2 (offline witness search only, translators/lease_search.py): run a schedule with the
   default oracle and report whether two replicas hold different blocks at one height *)
Fixpoint run_plain (c : cfg) (s : sys) (steps : list T) : option sys :=
  match steps with
  | [] => Some s
  | t :: rest => match run_step_with c s t [] with
                 | Some (s', _) => run_plain c s' rest
                 | None => None
                 end
  end.

Definition main25 (input observed : T) : T :=
  match input with
  | L [I 2%Z; L [n; reps; budget; ttl; maxlen; attempts]; L steps] =>
      match getNat n, getNat reps, getNat budget, getN ttl, getN maxlen, getNat attempts with
      | Some n, Some reps, Some budget, Some ttl, Some maxlen, Some attempts =>
          let c := mkCfg n (calculate_quorum n budget) ttl maxlen attempts in
          match run_plain c (init_sys c reps) steps with
          | Some sf => L [L [tB (has_fork sf); tFinal sf]; tN 1]
          | None => tErr 3
          end
      | _, _, _, _, _, _ => tErr 2
      end
  | L [I 0%Z; L cmds] =>
      match mapM T_ncmd cmds with
      | Some cs =>
          let model := tNodeObs (nrun empty_node cs) in
          let pc := match observed with
                    | L [L obs; _] => node_epochs_okb 0 cs obs && node_writes_okb (L []) 0 cs obs
                    | _ => false
                    end in
          L [model; tB pc]
      | None => tErr 2
      end
  | L [I 1%Z; L [n; reps; budget; ttl; maxlen; attempts]; L steps] =>
      match getNat n, getNat reps, getNat budget, getN ttl, getN maxlen, getNat attempts with
      | Some n, Some reps, Some budget, Some ttl, Some maxlen, Some attempts =>
          let c := mkCfg n (calculate_quorum n budget) ttl maxlen attempts in
          let obs_steps := match observed with L [L st; _] => st | _ => [] end in
          match run_steps c (init_sys c reps) steps obs_steps with
          | Some (sf, outs) =>
              let model := L [L outs; tFinal sf] in
              let wiped := nodup Nat.eq_dec (flat_map (fun t => match step_wipe t with Some k => [k] | None => [] end) steps) in
              let pc := match T_obs1 observed with
                        | Some o =>
                            (* more nodes lost their data than the disruption budget allows:
                               outside the hypothesis of C25, only the epochs are checked *)
                            if Nat.ltb budget (List.length wiped)
                            then (if epochs_okb (repeat 0 n) (map step_wipe steps) (o_epochs o) then 1 else 3)
                            else lease_pcode (c_q c) n (map step_wipe steps) o
                        | None => 0
                        end in
              L [model; tN pc]
          | None => tErr 3
          end
      | _, _, _, _, _, _ => tErr 2
      end
  | _ => tErr 1
  end.

Definition main_T (req : T) : T :=
  match req with
  | L [I 25%Z; input; observed] => main25 input observed
  | _ => tErr 0
  end.
