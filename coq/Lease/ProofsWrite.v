(* Lease cluster: write_block.lua as translated -- what a node does on one invocation. *)
From Coq Require Import ZifyBool ZifyN.
From FC Require Import Lease.Adapter Lease.ProofsStr Lease.ProofsRO Lease.ProofsNode.
Open Scope str_scope.
Open Scope N_scope.

Ltac inner2 x :=
  lazymatch x with
  | context [match ?y with _ => _ end] => inner2 y
  | context [if ?y then _ else _] => inner2 y
  | context [exec_stmt] => fail
  | _ => destruct x eqn:?
  end.
Ltac dmatch2 :=
  match goal with
  | |- context [match ?x with _ => _ end] => inner2 x
  | |- context [if ?x then _ else _] => inner2 x
  end.

Ltac sym2 := cbn -[dec tonum N.add N.sub N.leb N.ltb N.eqb N.min N.div N.modulo N.mul Z.of_N N.of_nat
                  skipn N.to_nat live put del node_epoch epoch_wf frame wb_loop wb_suffix env_set env_get].
Ltac sym1 := cbn -[dec tonum N.add N.sub N.leb N.ltb N.eqb N.min N.div N.modulo N.mul Z.of_N N.of_nat
                  skipn N.to_nat live put del node_epoch epoch_wf frame wb_loop wb_suffix].

Lemma n_now_put : forall X k e, n_now (put X k e) = n_now X. Proof. reflexivity. Qed.
Lemma n_now_del : forall X k, n_now (del X k) = n_now X. Proof. reflexivity. Qed.
Lemma n_trim_put : forall X k e, n_trim (put X k e) = n_trim X. Proof. reflexivity. Qed.
Lemma n_trim_del : forall X k, n_trim (del X k) = n_trim X. Proof. reflexivity. Qed.
#[local] Hint Rewrite ns_put_lease ns_del_lease ns_put_epoch ns_put_stream ne_put_lease ne_del_lease
  ne_put_stream ne_put_epoch n_now_put n_now_del n_trim_put n_trim_del : nodeproj.

Ltac wf_goal :=
  repeat first [ apply sw_put_lease | apply sw_del_lease | apply sw_put_epoch | apply sw_put_stream
               | apply ew_put_lease | apply ew_del_lease | apply ew_put_stream | apply ew_put_epoch
               | assumption ].

Definition write_post (e o p : N) (d : str) (nd : node) (r : reply) (nd' : node) : Prop :=
  n_now nd' = n_now nd /\ n_trim nd' = n_trim nd /\ stream_wf nd' /\ epoch_wf nd' /\
  node_epoch nd <= node_epoch nd' /\
  match dec_write (Some r) with
  | WWritten =>
      node_owner nd = Some (owner_str o) /\ node_epoch nd <= e /\ node_epoch nd' = e /\
      scan p (rev (map entry_h (node_stream nd))) = false /\
      exists ms sq t k,
        node_stream nd' = skipn k (node_stream nd ++ [mkEntry ms sq (wf_fields p d e t)]) /\
        (n_trim nd = 0 -> k = 0%nat)
  | _ => node_stream nd' = node_stream nd
  end.

Lemma write_exec : forall e o p d ttl ml nd, stream_wf nd -> epoch_wf nd ->
  exists r nd', node_exec (CWrite e o p d ttl ml) nd = (r, nd') /\ write_post e o p d nd r nd'.
Proof.
  intros e o p d ttl ml nd SW EW. unfold node_exec, run_script.
  change (sc_body (cmd_script (CWrite e o p d ttl ml))) with write_block_body.
  rewrite wb_shape.
  change (cmd_keys (CWrite e o p d ttl ml)) with [stream_key; epoch_key; lease_key].
  change (cmd_argv (CWrite e o p d ttl ml)) with [dec e; owner_str o; dec p; d; dec ttl; dec ml].
  assert (HS : (live nd stream_key = None /\ node_stream nd = []) \/
               exists s1, live nd stream_key = Some (mkK (DStream s1) None) /\
                          node_stream nd = s_entries s1 /\ Forall wf_entry (s_entries s1)).
  { unfold stream_wf in SW. unfold node_stream, live.
    destruct (n_kv nd stream_key) as [[[v|s] [t|]]|]; try contradiction; cbn; eauto. }
  assert (HE : (live nd epoch_key = None /\ node_epoch nd = 0) \/
               exists v, live nd epoch_key = Some (mkK (DStr v) None) /\
                         node_epoch nd = match tonum v with Some n => n | None => 0 end).
  { unfold epoch_wf in EW. unfold node_epoch, live.
    destruct (n_kv nd epoch_key) as [[[v|s] [t|]]|]; try contradiction; cbn; eauto. }
  destruct HS as [[Hlive Ees] | (s1 & Hlive & Ees & Wes)];
  destruct HE as [[Hle Eep] | (ev & Hle & Eep)].
  all: unfold wb_prefix; sym1.
  all: repeat (first [ progress (unfold stream_of; rewrite ?live_put, ?tonum_dec, ?Hlive, ?Hle, ?tonum_zero; sym1) | dmatch2 ]).
  all: try match goal with
    | |- context [exec_stmt ?cx wb_loop [?a0; ?a1; ?a2; VTab ?tb; ?a4; ?a5; ?a6; ?a7; ?a8; ?a9; ?a10] ?nd0] =>
        let l := lazymatch tb with
                 | map reply_to_val (map entry_reply ?l) => l
                 | _ => constr:(@nil entry)
                 end in
        let Hl := fresh "Hl" in let en' := fresh "en'" in
        assert (WL : Forall wf_entry l)
          by (first [ apply Forall_nil | apply Forall_rev; assumption ]);
        destruct (wb_loop_exec e o p d ttl ml l WL a0 a1 a5 a6 a7 a8 a9 a10 nd0) as [en' Hl];
        assert (Hl2 : exec_stmt cx wb_loop [a0; a1; a2; VTab tb; a4; a5; a6; a7; a8; a9; a10] nd0
                      = ((if scan p (map entry_h l) then CRet (VErrT (exists_msg p)) else CNorm), en', nd0)) by exact Hl;
        rewrite Hl2; clear Hl Hl2;
        destruct (scan p (map entry_h l)) eqn:Hscan
    end.
  all: unfold wb_suffix; sym2.
  all: repeat (first [ progress (unfold stream_of; rewrite ?live_put, ?tonum_dec, ?Hlive, ?Hle, ?env_get_set_same; sym2) | dmatch2 ]).
  all: eexists; eexists; (split; [reflexivity|]).
  all: unfold write_post, exists_msg.
  Time all: cbn -[dec tonum N.add N.sub N.leb N.ltb N.eqb N.min N.div N.modulo N.mul Z.of_N N.of_nat
                  skipn N.to_nat live put del node_epoch epoch_wf stream_wf node_stream node_owner scan].
  Time all: repeat match goal with H : tonum ?v = _, E : node_epoch _ = match tonum ?v with Some _ => _ | None => _ end |- _ => rewrite H in E end.
  Time all: try match goal with H : negb (str_eqb ?a ?b) = false |- _ =>
         apply negb_false_iff in H; apply str_eqb_eq in H; subst a end.
  Time all: rewrite ?Z.gtb_ltb in *.
  Time all: (split; [reflexivity|]).
  Time all: (split; [reflexivity|]).
  Time all: (split; [wf_goal; try (apply Forall_skipn; try (apply Forall_app; split; [assumption|]);
                       repeat constructor; apply wf_new) |]).
  Time all: (split; [wf_goal|]).
  Time all: autorewrite with nodeproj.
  Time all: (split; [timeout 10 lia|]).
  Time all: try (timeout 10 reflexivity).
  all: idtac "leaf". Show.
Abort.
