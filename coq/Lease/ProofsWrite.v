(* Lease cluster: write_block.lua as translated, in three pieces: the eight statements before the
   scan (identity check, fencing check, self-heal of the epoch, XREVRANGE), the scan loop
   (ProofsNode.wb_loop_exec) and the four statements after it (XADD, XTRIM, PEXPIRE, return). *)
From Coq Require Import ZifyBool ZifyN.
From FC Require Import Lease.Adapter Lease.ProofsStr Lease.ProofsRO Lease.ProofsNode.
Open Scope str_scope.
Open Scope N_scope.

Ltac inner2 x :=
  lazymatch x with
  | context [match ?y with _ => _ end] => inner2 y
  | context [if ?y then _ else _] => inner2 y
  | context [exec_stmt] => fail
  | _ => destruct x eqn:?
  end.
Ltac dmatch2 :=
  match goal with
  | |- context [match ?x with _ => _ end] => inner2 x
  | |- context [if ?x then _ else _] => inner2 x
  end.

Ltac sym1 := cbn -[dec tonum N.add N.sub N.leb N.ltb N.eqb N.min N.div N.modulo N.mul Z.of_N N.of_nat
                  skipn N.to_nat live put del node_epoch epoch_wf frame wb_loop wb_suffix node_stream].

Definition wb_pre : stmt := fold_right SSeq SSkip wb_prefix.

Lemma exec_seqs : forall cx l R en nd,
  exec_stmt cx (fold_right SSeq R l) en nd =
  match exec_stmt cx (fold_right SSeq SSkip l) en nd with
  | (CNorm, en1, nd1) => exec_stmt cx R en1 nd1
  | r => r
  end.
Proof.
  induction l as [|a l IH]; intros; cbn [fold_right exec_stmt]; [reflexivity|].
  destruct (exec_stmt cx a en nd) as [[c e1] n1]. destruct c; auto.
Qed.

Definition wb_cx (e o p : N) (d : str) (ttl ml : N) : ctx :=
  mkCtx [stream_key; epoch_key; lease_key] [dec e; owner_str o; dec p; d; dec ttl; dec ml].

Definition pre_env (o p : N) (nd : node) : env :=
  [VNum (Z.of_N (node_epoch nd)); VStr (owner_str o); VNum (Z.of_N p);
   VTab (map reply_to_val (map entry_reply (rev (node_stream nd)))); VBool false;
   VNil; VNil; VNil; VNil; VNil; VNil].

(* the node after the prefix: untouched, or the epoch raised to the caller's *)
Definition healed (e : N) (nd nd' : node) : Prop :=
  nd' = nd \/
  (node_epoch nd < e /\ nd' = put nd epoch_key (mkK (DStr (dec e)) None)).

Lemma wb_pre_exec : forall e o p d ttl ml nd, epoch_wf nd ->
  let '(c, en, nd') := exec_stmt (wb_cx e o p d ttl ml) wb_pre (repeat VNil 11) nd in
  healed e nd nd' /\
  (c = CNorm -> node_owner nd = Some (owner_str o) /\ node_epoch nd <= e /\ node_epoch nd' = e /\
                en = pre_env o p nd) /\
  (forall v, c = CRet v -> exists m, v = VErrT m) /\ c <> CBrk.
Proof.
  intros e o p d ttl ml nd EW.
  assert (HE : (live nd epoch_key = None /\ node_epoch nd = 0) \/
               exists v, live nd epoch_key = Some (mkK (DStr v) None) /\
                         node_epoch nd = match tonum v with Some n => n | None => 0 end).
  { unfold epoch_wf in EW. unfold node_epoch, live.
    destruct (n_kv nd epoch_key) as [[[v|s] [t|]]|]; try contradiction; cbn; eauto. }
  unfold pre_env, node_stream, node_owner.
  destruct HE as [[Hle Eep] | (ev & Hle & Eep)].
  all: unfold wb_cx, wb_pre, wb_prefix; sym1.
  all: repeat (first [ progress (unfold stream_of; rewrite ?live_put, ?tonum_dec, ?Hle, ?tonum_zero; sym1) | dmatch2 ]).
  all: repeat match goal with H : tonum ?v = _, E : node_epoch _ = match tonum ?v with Some _ => _ | None => _ end |- _ => rewrite H in E end.
  all: rewrite ?Z.gtb_ltb in *.
  all: try match goal with H : negb (str_eqb ?a ?b) = false |- _ =>
         apply negb_false_iff in H; apply str_eqb_eq in H; subst a end.
  all: (split; [ first [ left; reflexivity | right; split; [timeout 20 lia | reflexivity] ] | ]).
  all: (split; [ intro Hc; try discriminate Hc | ]).
  all: try (split; [ intros v Hv; try discriminate Hv; inversion Hv; eexists; reflexivity | discriminate ]).
  all: rewrite ?ne_put_epoch, ?Eep.
  all: try (split; [reflexivity|]).
  all: try (split; [timeout 20 lia|]).
  all: try (split; [timeout 20 lia|]).
  all: try reflexivity.
Qed.

Ltac sym2 := cbn -[dec tonum N.add N.sub N.leb N.ltb N.eqb N.min N.div N.modulo N.mul Z.of_N N.of_nat
                  skipn N.to_nat live put del node_epoch epoch_wf frame wb_loop wb_suffix env_set env_get].

Lemma n_now_put : forall X k e, n_now (put X k e) = n_now X. Proof. reflexivity. Qed.
Lemma n_now_del : forall X k, n_now (del X k) = n_now X. Proof. reflexivity. Qed.
Lemma n_trim_put : forall X k e, n_trim (put X k e) = n_trim X. Proof. reflexivity. Qed.
Lemma n_trim_del : forall X k, n_trim (del X k) = n_trim X. Proof. reflexivity. Qed.
#[export] Hint Rewrite ns_put_lease ns_del_lease ns_put_epoch ns_put_stream ne_put_lease ne_del_lease
  ne_put_stream ne_put_epoch n_now_put n_now_del n_trim_put n_trim_del : nodeproj.

(* the stream key holds a stream without expiry, or nothing *)
Definition stream_ok (nd : node) : Prop :=
  match n_kv nd stream_key with
  | None => True
  | Some (mkK (DStream _) None) => True
  | _ => False
  end.

Lemma wb_suffix_exec : forall e o p d ttl ml en nd ow ex,
  live nd lease_key = Some (mkK (DStr ow) ex) -> stream_ok nd ->
  exists id en' nd' ms sq k,
    exec_stmt (wb_cx e o p d ttl ml) wb_suffix en nd = (CRet (VStr id), en', nd') /\
    node_stream nd' = skipn k (node_stream nd ++ [mkEntry ms sq (wf_fields p d e (n_now nd / 1000))]) /\
    (n_trim nd = 0 -> k = 0%nat) /\
    n_kv nd' epoch_key = n_kv nd epoch_key /\ n_now nd' = n_now nd /\ n_trim nd' = n_trim nd /\ stream_ok nd'.
Proof.
  intros e o p d ttl ml en nd ow ex Hlock SO.
  assert (HS : (live nd stream_key = None /\ node_stream nd = []) \/
               exists s1, live nd stream_key = Some (mkK (DStream s1) None) /\ node_stream nd = s_entries s1).
  { unfold stream_ok in SO. unfold node_stream, live.
    destruct (n_kv nd stream_key) as [[[v|s] [t|]]|]; try contradiction; cbn; eauto. }
  destruct HS as [[Hlive Ees] | (s1 & Hlive & Ees)].
  all: unfold wb_cx, wb_suffix; sym2.
  all: repeat (first [ progress (unfold stream_of; rewrite ?live_put, ?live_del, ?tonum_dec, ?Hlive, ?Hlock, ?env_get_set_same; sym2) | dmatch2 ]).
  all: do 6 eexists; (split; [reflexivity|]).
  all: (split; [ autorewrite with nodeproj; cbn [s_entries]; rewrite Ees; reflexivity | ]).
  all: (split; [ intro H0; cbn [n_trim put]; rewrite H0, N.min_0_r; reflexivity | ]).
  all: (split; [reflexivity|]); (split; [reflexivity|]); (split; [reflexivity|]).
  all: unfold stream_ok, del, put, kv_del, kv_set; cbn; exact Logic.I.
Qed.

(* ------------------------------------------------------------------------------------ *)
(* composition *)

Lemma stream_wf_ok : forall nd, stream_wf nd -> stream_ok nd /\ Forall wf_entry (node_stream nd).
Proof.
  unfold stream_wf, stream_ok, node_stream, live. intros nd H.
  destruct (n_kv nd stream_key) as [[[v|s] [t|]]|]; try contradiction; cbn; auto.
Qed.
Lemma stream_ok_wf : forall nd, stream_ok nd -> Forall wf_entry (node_stream nd) -> stream_wf nd.
Proof.
  unfold stream_wf, stream_ok, node_stream, live. intros nd H F.
  destruct (n_kv nd stream_key) as [[[v|s] [t|]]|]; try contradiction; cbn in *; auto.
Qed.

Lemma healed_facts : forall e nd nd1, healed e nd nd1 -> epoch_wf nd ->
  n_now nd1 = n_now nd /\ n_trim nd1 = n_trim nd /\ epoch_wf nd1 /\ node_epoch nd <= node_epoch nd1 /\
  node_stream nd1 = node_stream nd /\ live nd1 lease_key = live nd lease_key /\
  n_kv nd1 stream_key = n_kv nd stream_key.
Proof.
  intros e nd nd1 [->|[Hlt ->]] EW.
  - repeat split; auto. lia.
  - rewrite ns_put_epoch, ne_put_epoch, live_put. repeat split; auto; try apply ew_put_epoch; try lia.
Qed.

Lemma epoch_of_kv : forall a b, n_kv a epoch_key = n_kv b epoch_key -> n_now a = n_now b ->
  node_epoch a = node_epoch b /\ (epoch_wf b -> epoch_wf a).
Proof.
  intros a b K N0. unfold node_epoch, epoch_wf, live. rewrite K, N0. split; auto.
Qed.

Lemma owner_lock : forall nd ow, node_owner nd = Some ow ->
  exists ex, live nd lease_key = Some (mkK (DStr ow) ex).
Proof.
  unfold node_owner. intros nd ow H. destruct (live nd lease_key) as [[[v|s] ex]|]; try discriminate.
  inversion H; subst. eexists. reflexivity.
Qed.

Lemma dec_write_err : forall m, dec_write (Some (RErr m)) <> WWritten.
Proof.
  intros. cbn. destruct (str_contains "HEIGHT_EXISTS:" m); [discriminate|].
  destruct (str_contains "FENCING_ERROR:" m); discriminate.
Qed.

Definition write_post (e o p : N) (d : str) (nd : node) (r : reply) (nd' : node) : Prop :=
  n_now nd' = n_now nd /\ n_trim nd' = n_trim nd /\ epoch_wf nd' /\ stream_wf nd' /\
  node_epoch nd <= node_epoch nd' /\
  match dec_write (Some r) with
  | WWritten =>
      node_owner nd = Some (owner_str o) /\ node_epoch nd <= e /\ node_epoch nd' = e /\
      scan p (rev (map entry_h (node_stream nd))) = false /\
      exists ms sq t k,
        node_stream nd' = skipn k (node_stream nd ++ [mkEntry ms sq (wf_fields p d e t)]) /\
        (n_trim nd = 0 -> k = 0%nat)
  | _ => node_stream nd' = node_stream nd
  end.

Lemma not_written_post : forall e o p d nd r nd1,
  dec_write (Some r) <> WWritten -> epoch_wf nd -> stream_wf nd -> healed e nd nd1 ->
  write_post e o p d nd r nd1.
Proof.
  intros e o p d nd r nd1 NW EW SW H.
  destruct (healed_facts e nd nd1 H EW) as (A & B & C & D & E & F & G).
  unfold write_post. repeat split; auto.
  - unfold stream_wf in *. rewrite G. assumption.
  - destruct (dec_write (Some r)); try assumption. contradiction.
Qed.

Theorem write_exec : forall e o p d ttl ml nd, epoch_wf nd -> stream_wf nd ->
  write_post e o p d nd (fst (node_exec (CWrite e o p d ttl ml) nd)) (snd (node_exec (CWrite e o p d ttl ml) nd)).
Proof.
  intros e o p d ttl ml nd EW SW. unfold node_exec, run_script.
  change (sc_body (cmd_script (CWrite e o p d ttl ml))) with write_block_body.
  change (sc_slots (cmd_script (CWrite e o p d ttl ml))) with 11%nat.
  change (mkCtx (cmd_keys (CWrite e o p d ttl ml)) (cmd_argv (CWrite e o p d ttl ml))) with (wb_cx e o p d ttl ml).
  rewrite wb_shape, exec_seqs. fold wb_pre.
  pose proof (wb_pre_exec e o p d ttl ml nd EW) as P.
  destruct (exec_stmt (wb_cx e o p d ttl ml) wb_pre (repeat VNil 11) nd) as [[c en] nd1].
  destruct P as (Hh & Hn & Hr & Hb).
  destruct (stream_wf_ok nd SW) as [SO FW].
  destruct c.
  - (* the checks passed *)
    destruct (Hn eq_refl) as (Ow & Le & Ep & En). subst en.
    destruct (healed_facts e nd nd1 Hh EW) as (A & B & C & D & E & F & G).
    cbn [exec_stmt].
    assert (WL : Forall wf_entry (rev (node_stream nd))) by (apply Forall_rev; assumption).
    destruct (wb_loop_exec e o p d ttl ml (rev (node_stream nd)) WL
                (VNum (Z.of_N (node_epoch nd))) (VStr (owner_str o)) VNil VNil VNil VNil VNil VNil nd1) as [en' Hl].
    unfold wb_cx, pre_env. rewrite Hl. fold (wb_cx e o p d ttl ml).
    destruct (scan p (map entry_h (rev (node_stream nd)))) eqn:Hscan.
    + cbn [fst snd val_to_reply]. apply not_written_post; auto. apply dec_write_err.
    + destruct (owner_lock nd (owner_str o) Ow) as [ex Hlock]. rewrite <- F in Hlock.
      assert (SO1 : stream_ok nd1) by (unfold stream_ok in *; rewrite G; assumption).
      destruct (wb_suffix_exec e o p d ttl ml en' nd1 (owner_str o) ex Hlock SO1)
        as (id & en2 & nd2 & ms & sq & k & Hx & Hs & Hk & Hkv & Hnow & Htr & SO2).
      rewrite Hx. cbn [fst snd val_to_reply dec_write].
      destruct (epoch_of_kv nd2 nd1 Hkv Hnow) as [Ee Ew].
      unfold write_post. cbn [dec_write].
      assert (FS : Forall wf_entry (node_stream nd2)).
      { rewrite Hs. apply Forall_skipn. apply Forall_app. split; [rewrite E; assumption|].
        constructor; [apply wf_new|constructor]. }
      split; [congruence|]. split; [congruence|]. split; [apply Ew; assumption|].
      split; [apply stream_ok_wf; assumption|]. split; [rewrite Ee; assumption|].
      split; [assumption|]. split; [assumption|]. split; [congruence|].
      split; [rewrite map_rev in Hscan; assumption|].
      exists ms, sq, (n_now nd1 / 1000), k. split; [rewrite Hs, E; reflexivity|].
      intro H0. apply Hk. congruence.
  - exfalso. apply Hb. reflexivity.
  - destruct (Hr v eq_refl) as [m ->]. cbn [fst snd val_to_reply].
    apply not_written_post; auto. apply dec_write_err.
  - cbn [fst snd]. apply not_written_post; auto. cbn. discriminate.
Qed.
