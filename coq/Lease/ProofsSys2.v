(* Lease cluster: every transition of a replica keeps the invariant (finish / start). *)
From Coq Require Import ZifyBool ZifyN ZifyNat Permutation.
From FC Require Import Lease.System Lease.ProofsStr Lease.ProofsNode Lease.ProofsEpoch Lease.ProofsVote Lease.ProofsSys.
Open Scope str_scope.
Open Scope N_scope.

Section Sys2.
Variable c : cfg.
Hypothesis Hq : (c_n c < 2 * c_q c)%nat.

Definition phase_cmd (ph : phase) (next : N) (cm : cmd) : Prop :=
  match ph with
  | PPublish blk => exists e o t m, cm = CWrite e o next blk t m
  | PRepair _ _ h _ blk _ => exists e o t m, cm = CWrite e o h blk t m
  | PEntries => exists m k, cm = CEntries m k
  | _ => True
  end.

Definition tres_ok (nodes : list node) (rid : nat) (rp : replica) (t : tres) : Prop :=
  let '(rp', evs, rqs) := t in
  r_tag rp' = r_tag rp + 1 /\ r_inbox rp' = [] /\ chain_ok c nodes rp' /\ phase_ok c nodes rp' /\
  exists targets cm, NoDup targets /\ rqs = map (fun n => mkReq rid (r_tag rp') n cm) targets /\
     cmd_ok cm /\ phase_cmd (r_phase rp') (r_next rp') cm.

Lemma goto_tres : forall nodes rid rp rp0 ph targets cm evs,
  r_tag rp = r_tag rp0 -> chain_ok c nodes rp -> NoDup targets -> cmd_ok cm ->
  phase_cmd ph (r_next rp) cm ->
  phase_ok c nodes (mkRep (r_owner rp) (r_epoch rp) (r_chain rp) (r_next rp) (r_ctr rp) ph (r_tag rp + 1) []) ->
  tres_ok nodes rid rp0 (let '(rp2, rq) := goto rid rp ph targets cm in (rp2, evs, rq)).
Proof.
  intros nodes rid rp rp0 ph targets cm evs T CH ND CO PC PO. unfold goto, tres_ok. cbn.
  split; [congruence|]. split; [reflexivity|]. split; [exact CH|]. split; [exact PO|].
  exists targets, cm. auto.
Qed.

Lemma idle_tres : forall nodes rid rp rp0 evs,
  r_tag rp = r_tag rp0 -> chain_ok c nodes rp -> tres_ok nodes rid rp0 (idle rp, evs, []).
Proof.
  intros nodes rid rp rp0 evs T CH. unfold idle, tres_ok. cbn.
  split; [congruence|]. split; [reflexivity|]. split; [exact CH|]. split; [exact Logic.I|].
  exists [], CLatest. repeat split; auto. constructor.
Qed.

Lemma all_nodes_nodup : NoDup (all_nodes c).
Proof. apply seq_NoDup. Qed.

Lemma q_pos : (1 <= c_q c)%nat.
Proof. lia. Qed.

Lemma quorum_node : forall nodes h b, quorum_holds c nodes h b -> exists n, node_at nodes n h b.
Proof.
  intros nodes h b (ns & _ & L & H). pose proof q_pos. destruct ns as [|n ns]; [cbn in L; lia|].
  exists n. apply H. left. reflexivity.
Qed.

Lemma node_at_ok : forall nodes n h b, Forall node_good nodes -> node_at nodes n h b -> blk_height b = Some h.
Proof.
  intros nodes n h b F (nd & E & H). rewrite Forall_forall in F.
  eapply holds_ok; [apply F; eapply nth_error_In; eassumption | assumption].
Qed.

(* service.rs: committing reconciled blocks keeps "every committed block is on a quorum at its height" *)
Lemma commit_blocks_ok : forall nodes rid bs chain next, Forall node_good nodes -> acc_ok c nodes bs ->
  (forall i b, nth_error chain i = Some b -> quorum_holds c nodes (N.of_nat i + 1) b) ->
  next = N.of_nat (List.length chain) + 1 ->
  let '(ch, nx, _) := commit_blocks rid bs chain next in
  (forall i b, nth_error ch i = Some b -> quorum_holds c nodes (N.of_nat i + 1) b) /\
  nx = N.of_nat (List.length ch) + 1.
Proof.
  intros nodes rid bs. induction bs as [|b r IH]; intros chain next G A CH NX; cbn [commit_blocks]; [auto|].
  assert (Ar : acc_ok c nodes r) by (intros b' I; apply A; right; assumption).
  destruct (blk_height b) as [h|] eqn:BH; [|apply IH; assumption].
  destruct (N.eqb_spec h next) as [E|E]; [|apply IH; assumption].
  specialize (IH (chain ++ [b]) (next + 1) G Ar).
  destruct (commit_blocks rid r (chain ++ [b]) (next + 1)) as [[ch nx] evs].
  apply IH.
  - intros i b' I. destruct (Nat.lt_ge_cases i (List.length chain)) as [L|L].
    + rewrite nth_error_app1 in I by assumption. apply CH. assumption.
    + rewrite nth_error_app2 in I by assumption.
      destruct (i - List.length chain)%nat eqn:D; cbn in I; [|destruct n; discriminate].
      inversion I; subst b'. destruct (A b (or_introl eq_refl)) as [h' Q].
      destruct (quorum_node _ _ _ Q) as [n NA]. pose proof (node_at_ok _ _ _ _ G NA) as BH'.
      assert (h' = N.of_nat i + 1) by (rewrite BH in BH'; inversion BH'; lia). subst h'. assumption.
  - rewrite app_length. cbn. lia.
Qed.

Lemma writes_ok_nil : forall nodes h b, writes_ok nodes [] h b.
Proof. intros nodes h b n r []. Qed.
Lemma reads_ok_nil : forall nodes, reads_ok nodes [].
Proof. intros nodes n r items []. Qed.

Lemma ls_leader_ok : forall nodes rid rp, chain_ok c nodes rp -> tres_ok nodes rid rp (ls_leader c rid rp).
Proof.
  intros nodes rid rp CH. unfold ls_leader. destruct (r_epoch rp) as [e|].
  - apply goto_tres; cbn; auto.
    + apply all_nodes_nodup.
    + apply blk_height_data.
    + do 4 eexists. reflexivity.
    + apply writes_ok_nil.
  - apply goto_tres; cbn; auto. apply all_nodes_nodup.
Qed.

Lemma ls_err_ok : forall nodes rid rp code, chain_ok c nodes rp -> tres_ok nodes rid rp (ls_err rid rp code).
Proof. intros. unfold ls_err. apply idle_tres; auto. Qed.

Lemma ls_blocks_ok : forall nodes rid rp bs, Forall node_good nodes -> chain_ok c nodes rp ->
  acc_ok c nodes bs -> tres_ok nodes rid rp (ls_blocks c rid rp bs).
Proof.
  intros nodes rid rp bs G CH A. unfold ls_blocks. destruct bs as [|b0 bs0]; [apply ls_leader_ok; assumption|].
  destruct CH as [C1 C2].
  pose proof (commit_blocks_ok nodes rid (b0 :: bs0) (r_chain rp) (r_next rp) G A C1 C2) as K.
  destruct (commit_blocks rid (b0 :: bs0) (r_chain rp) (r_next rp)) as [[ch nx] evs].
  apply idle_tres; [reflexivity|]. exact K.
Qed.

Lemma run_reconcile_ok : forall nodes rid rp orc ns snaps iter h acc,
  Forall node_good nodes -> chain_ok c nodes rp -> snaps_ok nodes ns snaps -> acc_ok c nodes acc ->
  tres_ok nodes rid rp (run_reconcile c rid rp orc snaps iter h acc).
Proof.
  intros nodes rid rp orc ns snaps iter h acc G CH SO A. unfold run_reconcile.
  pose proof (reconcile_sound c Hq nodes ns snaps orc SO iter h acc A) as R.
  destruct (reconcile (c_q c) orc snaps iter h acc) as [bs|code|it h' acc' blk pre]; cbn in R.
  - apply ls_blocks_ok; assumption.
  - apply ls_err_ok; assumption.
  - destruct R as (A' & P1 & P).
    destruct (r_epoch rp) as [e|].
    + apply goto_tres; cbn; auto.
      * apply all_nodes_nodup.
      * destruct P as (ps & _ & L & H). destruct ps as [|n ps]; [cbn in L; lia|].
        destruct (H n (or_introl eq_refl)) as [NA _]. eapply node_at_ok; eassumption.
      * do 4 eexists. reflexivity.
      * split; [apply writes_ok_nil|]. split; [assumption|]. exists ns. split; [assumption|].
        split; [assumption|]. intros n r snap [].
    + destruct acc'; [apply ls_err_ok | apply ls_blocks_ok]; assumption.
Qed.

Lemma after_quorum_ok : forall nodes rid rp rp0 k, r_tag rp = r_tag rp0 -> chain_ok c nodes rp ->
  tres_ok nodes rid rp0 (after_quorum c rid rp k).
Proof.
  intros. unfold after_quorum. destruct k; apply goto_tres; cbn; auto; apply all_nodes_nodup.
Qed.

Lemma inbox_get_in : forall n ib r, inbox_get n ib = Some r -> In (n, r) ib.
Proof.
  induction ib as [|[m r0] ib IH]; cbn; intros r H; [discriminate|].
  destruct (Nat.eqb_spec n m); [inversion H; subst; left; reflexivity | right; auto].
Qed.

Lemma snaps_from_inbox : forall nodes ib l, reads_ok nodes ib -> NoDup l ->
  snaps_ok nodes
    (filter (fun n => match dec_entries (inbox_get n ib) with Some _ => true | None => false end) l)
    (flat_map (fun n => match dec_entries (inbox_get n ib) with Some s => [s] | None => [] end) l).
Proof.
  intros nodes ib l R ND. split; [apply NoDup_filter; assumption|].
  clear ND. induction l as [|n l IH]; cbn; [constructor|].
  destruct (dec_entries (inbox_get n ib)) as [s|] eqn:E; cbn; [|assumption].
  constructor; [|assumption].
  destruct (inbox_get n ib) as [r|] eqn:G; [|discriminate]. eapply R; [apply inbox_get_in; eassumption | assumption].
Qed.

Lemma arrived_in : forall orc ib n w, In (n, w) (arrived_writes orc ib) ->
  exists r, In (n, r) ib /\ w = dec_write (Some r).
Proof.
  intros orc ib n w I. unfold arrived_writes in I.
  assert (J : In (n, w) (map (fun x => (fst x, dec_write (Some (snd x)))) ib)).
  { destruct (Nat.odd orc); [|assumption]. apply in_app_or in I. destruct I as [I|I]; apply filter_In in I; apply I. }
  apply in_map_iff in J. destruct J as ([n' r] & E & J). inversion E; subst. exists r. auto.
Qed.

Lemma arrived_nodup : forall orc ib, NoDup (map fst ib) -> NoDup (map fst (arrived_writes orc ib)).
Proof.
  intros orc ib ND. unfold arrived_writes.
  set (ws := map (fun x => (fst x, dec_write (Some (snd x)))) ib).
  assert (E : map fst ws = map fst ib) by (unfold ws; rewrite map_map; reflexivity).
  destruct (Nat.odd orc); [|rewrite E; assumption].
  set (f := fun x : nat * wres => match snd x with WFenced => false | _ => true end).
  assert (P : Permutation (filter f ws ++ filter (fun x => match snd x with WFenced => true | _ => false end) ws) ws).
  { rewrite (filter_ext (fun x => match snd x with WFenced => true | _ => false end) (fun x => negb (f x))).
    - apply filter_perm.
    - intros [a w]. unfold f. cbn. destruct w; reflexivity. }
  eapply Permutation_NoDup; [apply Permutation_sym; apply Permutation_map; exact P|]. rewrite E. assumption.
Qed.

Lemma written_nodes : forall nodes orc ib h b, writes_ok nodes ib h b -> NoDup (map fst ib) ->
  exists W, NoDup W /\ List.length W = count_written (collect (c_q c) 0 (arrived_writes orc ib)) /\
    forall n, In n W -> node_at nodes n h b /\ exists r, In (n, r) ib /\ dec_write (Some r) = WWritten.
Proof.
  intros nodes orc ib h b WO ND.
  set (got := collect (c_q c) 0 (arrived_writes orc ib)).
  set (isw := fun x : nat * wres => match snd x with WWritten => true | _ => false end).
  exists (map fst (filter isw got)). split; [|split].
  - assert (NG : NoDup (map fst got)) by (apply collect_nodup; apply arrived_nodup; assumption).
    clear -NG. induction got as [|[n w] g IH]; cbn in *; [constructor|]. inversion NG; subst.
    destruct (isw (n, w)); cbn; [|auto]. constructor; [|auto].
    intro I. apply H1. apply in_map_iff in I. destruct I as ([n' w'] & E & I). cbn in E. subst.
    apply filter_In in I. apply in_map_iff. exists (n, w'). split; [reflexivity|apply I].
  - rewrite map_length. reflexivity.
  - intros n I. apply in_map_iff in I. destruct I as ([n' w] & E & I). cbn in E. subst n'.
    apply filter_In in I. destruct I as [I S]. unfold isw in S. cbn in S. destruct w; try discriminate.
    apply collect_in in I. destruct (arrived_in _ _ _ _ I) as (r & Ir & Er).
    split; [eapply WO; [eassumption | congruence] | exists r; split; [assumption | congruence]].
Qed.

Lemma NoDup_app_intro : forall {A} (l1 l2 : list A),
  NoDup l1 -> NoDup l2 -> (forall x, In x l1 -> In x l2 -> False) -> NoDup (l1 ++ l2).
Proof.
  induction l1 as [|a l1 IH]; cbn; intros l2 N1 N2 D; [assumption|].
  inversion N1; subst. constructor.
  - intro I. apply in_app_or in I. destruct I as [I|I]; [contradiction | eapply D; [left; reflexivity | eassumption]].
  - apply IH; auto. intros x I1 I2. eapply D; [right; eassumption | eassumption].
Qed.

Lemma chain_ok_eq : forall nodes rp rp', r_chain rp' = r_chain rp -> r_next rp' = r_next rp ->
  chain_ok c nodes rp -> chain_ok c nodes rp'.
Proof. intros nodes rp rp' E1 E2 [A B]. unfold chain_ok. rewrite E1, E2. auto. Qed.

Lemma finish_ok : forall nodes rid orc rp, Forall node_good nodes -> rep_ok c nodes rp ->
  r_phase rp <> PIdle -> tres_ok nodes rid rp (finish c rid orc rp).
Proof.
  intros nodes rid orc rp G (CH & PH & ND) NI. unfold finish. unfold phase_ok in PH.
  destruct (r_phase rp) as [|k|k|a|a| | |snaps it h acc blk pre|blk|] eqn:EP; try contradiction.
  - (* PCheck *)
    destruct (Nat.ltb _ _).
    + destruct k; [apply goto_tres; cbn; auto; apply all_nodes_nodup|].
      apply idle_tres; [reflexivity|]. try assumption; try (eapply chain_ok_eq; [| |exact CH]; reflexivity).
    + destruct (filter _ (all_nodes c)) eqn:F; [apply after_quorum_ok; auto|].
      apply goto_tres; cbn; auto. rewrite <- F. apply NoDup_filter. apply all_nodes_nodup.
  - (* PExpand *)
    apply after_quorum_ok.
    + destruct (maxN _); [destruct (_ <? _)|]; reflexivity.
    + destruct (maxN _); [destruct (_ <? _)|]; try assumption; try (eapply chain_ok_eq; [| |exact CH]; reflexivity).
  - (* PAcquire *)
    destruct (_ && _).
    + apply after_quorum_ok.
      * destruct (maxN _); reflexivity.
      * destruct (maxN _); try assumption; try (eapply chain_ok_eq; [| |exact CH]; reflexivity).
    + apply goto_tres; cbn; auto. apply all_nodes_nodup.
  - (* PAcqRel *)
    destruct (_ || _); [apply idle_tres; auto|]. apply goto_tres; cbn; auto. apply all_nodes_nodup.
  - (* PLatest *)
    destruct (Nat.ltb _ _); [apply ls_err_ok; assumption|].
    destruct (existsb _ _); [|apply ls_leader_ok; assumption].
    apply goto_tres; cbn; auto.
    + apply all_nodes_nodup.
    + do 2 eexists. reflexivity.
    + apply reads_ok_nil.
  - (* PEntries *)
    destruct (Nat.ltb _ _); [apply ls_err_ok; assumption|].
    eapply run_reconcile_ok; try eassumption.
    + apply snaps_from_inbox; [exact PH | apply all_nodes_nodup].
    + intros b [].
  - (* PRepair *)
    destruct PH as (WO & AO & ns & SO & PO & DJ).
    destruct (written_nodes nodes orc (r_inbox rp) h blk WO ND) as (W & NW & LW & HW).
    unfold repair_decide. destruct (has_fenced _).
    + destruct acc; [apply ls_err_ok | apply ls_blocks_ok]; assumption.
    + destruct (Nat.leb (c_q c) (pre + count_written _)) eqn:Q.
      * apply Nat.leb_le in Q.
        assert (QH : quorum_holds c nodes h blk).
        { destruct PO as (ps & NP & LP & HP). exists (ps ++ W). split; [|split].
          - apply NoDup_app_intro; try assumption.
            intros n I1 I2. destruct (HP n I1) as (_ & snap & Ic & Sh).
            destruct (HW n I2) as (_ & r & Ir & Dw). rewrite (DJ n r snap Ir Dw Ic) in Sh. discriminate.
          - rewrite app_length. lia.
          - intros n I. apply in_app_or in I. destruct I as [I|I]; [apply (HP n I) | apply (HW n I)]. }
        destruct (h =? u32max).
        -- apply ls_blocks_ok; try assumption. eapply acc_ok_snoc; eassumption.
        -- eapply run_reconcile_ok; try eassumption. eapply acc_ok_snoc; eassumption.
      * destruct acc; [apply ls_err_ok | apply ls_blocks_ok]; assumption.
  - (* PPublish *)
    destruct (written_nodes nodes orc (r_inbox rp) (r_next rp) blk PH ND) as (W & NW & LW & HW).
    destruct (Nat.leb (c_q c) (count_written _)) eqn:Q.
    + apply Nat.leb_le in Q. apply idle_tres; [reflexivity|].
      destruct CH as [C1 C2]. split; cbn.
      * intros i b I. destruct (Nat.lt_ge_cases i (List.length (r_chain rp))) as [L|L].
        -- rewrite nth_error_app1 in I by assumption. apply C1. assumption.
        -- rewrite nth_error_app2 in I by assumption.
           destruct (i - List.length (r_chain rp))%nat eqn:D; cbn in I; [|destruct n; discriminate].
           inversion I; subst b. replace (N.of_nat i + 1) with (r_next rp) by lia.
           exists W. split; [assumption|]. split; [lia|]. intros n In0. apply (HW n In0).
      * rewrite app_length. cbn. lia.
    + apply goto_tres; cbn; auto. apply all_nodes_nodup.
  - (* PRelAll *)
    destruct (Nat.leb _ _); apply idle_tres; auto; try (eapply chain_ok_eq; [| |exact CH]; reflexivity).
Qed.

Lemma start_ok : forall nodes rid o rp, chain_ok c nodes rp -> r_phase rp = PIdle ->
  tres_ok nodes rid rp (start c rid o rp).
Proof.
  intros nodes rid o rp CH E. unfold start. rewrite E. apply goto_tres; cbn; auto. apply all_nodes_nodup.
Qed.
End Sys2.
