(* Lease cluster: byte strings of the Lua / Redis model.  A private inductive type (instead of
   Coq.Strings.String.string) because the extracted model is compiled together with the generic
   OCaml driver, in which the type name `string` must keep its OCaml meaning. *)
From Coq Require Export Ascii.
From Coq Require Import Decimal DecimalN.
From Coq.Strings Require Import Byte.
From FC Require Export Common.T.

Inductive str := SNil | SCons (c : ascii) (s : str).

Fixpoint str_of_bytes (l : list Byte.byte) : str :=
  match l with
  | [] => SNil
  | b :: r => SCons (ascii_of_byte b) (str_of_bytes r)
  end.
Fixpoint bytes_of_str (s : str) : list Byte.byte :=
  match s with
  | SNil => []
  | SCons c r => byte_of_ascii c :: bytes_of_str r
  end.
Declare Scope str_scope.
Delimit Scope str_scope with str.
Bind Scope str_scope with str.
String Notation str str_of_bytes bytes_of_str : str_scope.

Fixpoint sapp (a b : str) : str :=
  match a with
  | SNil => b
  | SCons c r => SCons c (sapp r b)
  end.
Infix "+++" := sapp (at level 60, right associativity) : str_scope.

Fixpoint str_eqb (a b : str) : bool :=
  match a, b with
  | SNil, SNil => true
  | SCons x r, SCons y s => Ascii.eqb x y && str_eqb r s
  | _, _ => false
  end.
Fixpoint str_prefix (p s : str) : bool :=
  match p, s with
  | SNil, _ => true
  | SCons x r, SCons y t => Ascii.eqb x y && str_prefix r t
  | SCons _ _, SNil => false
  end.
Fixpoint str_len (s : str) : nat :=
  match s with SNil => O | SCons _ r => S (str_len r) end.
Fixpoint str_chars (s : str) : list ascii :=
  match s with SNil => [] | SCons c r => c :: str_chars r end.
Fixpoint str_of_chars (l : list ascii) : str :=
  match l with [] => SNil | c :: r => SCons c (str_of_chars r) end.

(* decimal digits *)
Fixpoint str_of_uint (d : Decimal.uint) : str :=
  match d with
  | Decimal.Nil => SNil
  | Decimal.D0 d => SCons "0" (str_of_uint d)
  | Decimal.D1 d => SCons "1" (str_of_uint d)
  | Decimal.D2 d => SCons "2" (str_of_uint d)
  | Decimal.D3 d => SCons "3" (str_of_uint d)
  | Decimal.D4 d => SCons "4" (str_of_uint d)
  | Decimal.D5 d => SCons "5" (str_of_uint d)
  | Decimal.D6 d => SCons "6" (str_of_uint d)
  | Decimal.D7 d => SCons "7" (str_of_uint d)
  | Decimal.D8 d => SCons "8" (str_of_uint d)
  | Decimal.D9 d => SCons "9" (str_of_uint d)
  end.
Definition digit_of (c : ascii) : option (Decimal.uint -> Decimal.uint) :=
  if Ascii.eqb c "0" then Some Decimal.D0 else if Ascii.eqb c "1" then Some Decimal.D1
  else if Ascii.eqb c "2" then Some Decimal.D2 else if Ascii.eqb c "3" then Some Decimal.D3
  else if Ascii.eqb c "4" then Some Decimal.D4 else if Ascii.eqb c "5" then Some Decimal.D5
  else if Ascii.eqb c "6" then Some Decimal.D6 else if Ascii.eqb c "7" then Some Decimal.D7
  else if Ascii.eqb c "8" then Some Decimal.D8 else if Ascii.eqb c "9" then Some Decimal.D9
  else None.
Fixpoint uint_of_str (s : str) : option Decimal.uint :=
  match s with
  | SNil => Some Decimal.Nil
  | SCons c r => match digit_of c, uint_of_str r with
                 | Some f, Some d => Some (f d)
                 | _, _ => None
                 end
  end.

Definition dec (n : N) : str := str_of_uint (N.to_uint n).
(* only non-empty plain decimal digit strings are numeric in this model (Lua would also accept
   hex, exponents, surrounding blanks and a sign: the adapter never sends those) *)
Definition tonum (s : str) : option N :=
  match s with
  | SNil => None
  | _ => match uint_of_str s with
         | Some d => Some (N.of_uint d)
         | None => None
         end
  end.
