(* Lease cluster (C25): the list-level core of the uniqueness argument, quorum intersection,
   soundness of the checkers evaluated on implementation traces, and the counter-schedule. *)
From Coq Require Import ZifyBool ZifyN ZifyNat.
From FC Require Import Lease.Model Lease.ProofsStr Lease.ProofsRO Lease.ProofsNode.
Open Scope str_scope.
Open Scope N_scope.

(* ------------------------------------------------------------------------------------ *)
(* the early-stopping reverse scan of write_block.lua ([scan], shown in ProofsNode.wb_loop_exec to
   be what the translated loop computes) finds an existing height whenever the stream is sorted
   by height -- and can miss it otherwise *)

Inductive sorted : list N -> Prop :=
| sorted_nil : sorted []
| sorted_one : forall x, sorted [x]
| sorted_cons : forall x y r, x <= y -> sorted (y :: r) -> sorted (x :: y :: r).

(* newest-first view: non-increasing *)
Inductive desc : list N -> Prop :=
| desc_nil : desc []
| desc_cons : forall x r, (forall y, In y r -> y <= x) -> desc r -> desc (x :: r).

Lemma scan_desc : forall p hs, desc hs -> In p hs -> scan p hs = true.
Proof.
  induction hs as [|h r IH]; intros D I; [contradiction|].
  inversion D as [|x r' Hle Dr]; subst. cbn [scan].
  destruct (N.eqb_spec h p); [reflexivity|].
  destruct I as [->|I]; [contradiction|].
  specialize (Hle p I). destruct (N.ltb_spec h p); [lia|]. apply IH; assumption.
Qed.

Lemma sorted_all_le : forall x r, sorted (x :: r) -> forall y, In y r -> x <= y.
Proof.
  intros x r. revert x. induction r as [|a r IH]; intros x S y I; [contradiction|].
  inversion S; subst. destruct I as [->|I]; [assumption|].
  specialize (IH a H3 y I). lia.
Qed.

Lemma sorted_tail : forall x r, sorted (x :: r) -> sorted r.
Proof. intros. inversion H; subst; [constructor|assumption]. Qed.

Lemma desc_app_one : forall l x, desc l -> (forall y, In y l -> x <= y) -> desc (l ++ [x]).
Proof.
  induction l as [|a l IH]; intros x D H; cbn.
  - constructor; [intros ? []|constructor].
  - inversion D; subst. constructor.
    + intros y I. apply in_app_or in I. destruct I as [I|[<-|[]]]; [auto|]. apply H. left. reflexivity.
    + apply IH; [assumption|]. intros. apply H. right. assumption.
Qed.

Lemma sorted_rev_desc : forall hs, sorted hs -> desc (rev hs).
Proof.
  induction hs as [|x r IH]; intro S; cbn; [constructor|].
  apply desc_app_one.
  - apply IH. eapply sorted_tail; eassumption.
  - intros y I. apply in_rev in I. eapply sorted_all_le; eassumption.
Qed.

Lemma scan_sorted_finds : forall p hs, sorted hs -> In p hs -> scan p (rev hs) = true.
Proof.
  intros. apply scan_desc; [apply sorted_rev_desc; assumption | apply in_rev; rewrite rev_involutive; assumption].
Qed.

(* a full scan is exactly membership; the two agree on sorted streams *)
Lemma scan_miss_unsorted : scan 2 (rev [2; 1]) = false.
Proof. reflexivity. Qed.

(* ------------------------------------------------------------------------------------ *)
(* quorum intersection *)

Definition cnt (f : nat -> bool) (n : nat) : nat := List.length (filter f (seq 0 n)).

Lemma cnt_S : forall f n, cnt f (S n) = (cnt f n + (if f n then 1 else 0))%nat.
Proof.
  intros. unfold cnt. rewrite seq_S, filter_app, app_length. cbn. destruct (f n); reflexivity.
Qed.

Lemma cnt_inter : forall f g n, (cnt f n + cnt g n <= n + cnt (fun k => f k && g k) n)%nat.
Proof.
  induction n; [cbn; lia|]. rewrite !cnt_S. destruct (f n), (g n); cbn; lia.
Qed.

Lemma cnt_pos : forall f n, (0 < cnt f n)%nat -> exists k, (k < n)%nat /\ f k = true.
Proof.
  induction n; [cbn; lia|]. rewrite cnt_S. intro H.
  destruct (f n) eqn:E; [exists n; split; [lia|assumption]|].
  destruct IHn as (k & ? & ?); [lia|]. exists k. split; [lia|assumption].
Qed.

Lemma cnt_le_sub : forall f g n, (cnt (fun k => f k && g k) n <= cnt g n)%nat.
Proof. induction n; [cbn; lia|]. rewrite !cnt_S. destruct (f n), (g n); cbn; lia. Qed.

(* two sets of q nodes out of n, with more than b nodes in common whenever 2q > n + b;
   so some common node is outside any set W of at most b nodes *)
Lemma quorum_intersection : forall n q b (f g w : nat -> bool),
  (q <= cnt f n)%nat -> (q <= cnt g n)%nat -> (cnt w n <= b)%nat -> (n + b < 2 * q)%nat ->
  exists k, (k < n)%nat /\ f k = true /\ g k = true /\ w k = false.
Proof.
  intros n q b f g w Hf Hg Hw Hq.
  pose proof (cnt_inter f g n) as Hi.
  pose proof (cnt_inter (fun k => f k && g k) (fun k => negb (w k)) n) as Hj.
  assert (Hn : (cnt (fun k => negb (w k)) n + cnt w n = n)%nat).
  { clear. induction n; [reflexivity|]. rewrite !cnt_S. destruct (w n); cbn; lia. }
  destruct (cnt_pos (fun k => (f k && g k) && negb (w k)) n) as (k & Hk & Hv); [lia|].
  apply andb_true_iff in Hv. destruct Hv as [Hv1 Hv2]. apply andb_true_iff in Hv1. destruct Hv1.
  exists k. repeat split; try assumption. destruct (w k); [discriminate|reflexivity].
Qed.

(* calculate_quorum: majority + disruption budget, capped at n; when not capped two quorums
   share more than `budget` nodes *)
Lemma calculate_quorum_intersects : forall n b,
  (n / 2 + 1 + b <= n)%nat -> (n + b < 2 * calculate_quorum n b)%nat.
Proof.
  intros. unfold calculate_quorum. rewrite Nat.min_l by assumption.
  pose proof (Nat.div_mod n 2). pose proof (Nat.mod_upper_bound n 2). lia.
Qed.

(* ------------------------------------------------------------------------------------ *)
(* soundness of the checkers (Pcheck) used on implementation traces *)

Definition chains_spec (chains : list (list str)) : Prop :=
  forall a b, In a chains -> In b chains ->
  forall i x y, nth_error a i = Some x -> nth_error b i = Some y -> x = y.

Lemma chains_agree_spec : forall a b,
  chains_agree a b = true <-> (forall i x y, nth_error a i = Some x -> nth_error b i = Some y -> x = y).
Proof.
  induction a as [|x a IH]; intros b; unfold chains_agree in *; cbn.
  - split; [intros _ i ? ? H; destruct i; discriminate | reflexivity].
  - destruct b as [|y b]; cbn.
    + split; [intros _ i ? ? _ H; destruct i; discriminate | reflexivity].
    + rewrite andb_true_iff, IH, str_eqb_eq. split.
      * intros [E H] i u v. destruct i; cbn; [congruence|apply H].
      * intro H. split; [apply (H O); reflexivity|]. intros i. apply (H (S i)).
Qed.

Lemma chains_okb_sound : forall chains, chains_okb chains = true <-> chains_spec chains.
Proof.
  intros. unfold chains_okb, chains_spec. rewrite forallb_forall. split.
  - intros H a b Ia Ib. specialize (H a Ia). rewrite forallb_forall in H.
    apply chains_agree_spec. apply H. assumption.
  - intros H a Ia. rewrite forallb_forall. intros b Ib. apply chains_agree_spec. apply H; assumption.
Qed.

Definition pubs_spec (pubs : list str) : Prop :=
  forall a b, In a pubs -> In b pubs -> same_height a b = true -> a = b.

Lemma pubs_okb_sound : forall pubs, pubs_okb pubs = true <-> pubs_spec pubs.
Proof.
  intros. unfold pubs_okb, pubs_spec. rewrite forallb_forall. split.
  - intros H a b Ia Ib S. specialize (H a Ia). rewrite forallb_forall in H. specialize (H b Ib).
    rewrite S in H. cbn in H. apply str_eqb_eq. assumption.
  - intros H a Ia. rewrite forallb_forall. intros b Ib.
    destruct (same_height a b) eqn:S; cbn; [|reflexivity]. apply str_eqb_eq. apply H; assumption.
Qed.

Definition quorum_spec (q : nat) (streams : list (list (N * str))) : Prop :=
  forall a b, In a (concat streams) -> In b (concat streams) -> fst a = fst b ->
  (q <= on_nodes a streams)%nat -> (q <= on_nodes b streams)%nat -> snd a = snd b.

Lemma quorum_okb_sound : forall q streams, quorum_okb q streams = true <-> quorum_spec q streams.
Proof.
  intros. unfold quorum_okb, quorum_spec. rewrite forallb_forall. split.
  - intros H a b Ia Ib E Qa Qb. specialize (H a Ia). rewrite forallb_forall in H. specialize (H b Ib).
    apply orb_true_iff in H. destruct H as [H|H]; [|apply str_eqb_eq; assumption].
    apply negb_true_iff in H.
    assert (X : (fst a =? fst b) && Nat.leb q (on_nodes a streams) && Nat.leb q (on_nodes b streams) = true).
    { rewrite !andb_true_iff. repeat split; [apply N.eqb_eq; assumption | apply Nat.leb_le; assumption | apply Nat.leb_le; assumption]. }
    congruence.
  - intros H a Ia. rewrite forallb_forall. intros b Ib.
    destruct ((fst a =? fst b) && Nat.leb q (on_nodes a streams) && Nat.leb q (on_nodes b streams)) eqn:X; cbn; [|reflexivity].
    rewrite !andb_true_iff in X. destruct X as [[X1 X2] X3].
    apply str_eqb_eq. apply H; try assumption; [apply N.eqb_eq | apply Nat.leb_le | apply Nat.leb_le]; assumption.
Qed.

(* ------------------------------------------------------------------------------------ *)
(* the counter-schedule (known finding L1): 3 nodes, quorum 2, 3 replicas, heights 1..2 *)

Definition c3 : cfg := mkCfg 3 (calculate_quorum 3 0) 1000 100 1.
Definition expire_all : list mstep := [MTick 0 2000; MTick 1 2000; MTick 2 2000].
Definition l1_schedule : list mstep :=
  (* replica 0 leads, block b1.0 lands on nodes 0 and 1 only *)
  [MOp 0 OpRound [[]; []; [0; 0; 0; 1]] []] ++ expire_all ++
  (* replica 2 leads, reconciles b1.0 (local height 1) *)
  [MOp 2 OpRound [] []] ++ expire_all ++
  (* replica 0 leads again, b2.1 lands on nodes 1 and 2 only *)
  [MOp 0 OpRound [[0; 0; 0; 1]] []] ++ expire_all ++
  (* replica 1 (height 0) leads, cannot read node 0, repairs b1.0 onto node 2 AFTER b2.1 *)
  [MOp 1 OpRound [[0; 0; 0; 1]] []] ++ expire_all ++
  (* replica 2 leads at next height 2, cannot read node 1: latest entries say height 1 *)
  [MOp 2 OpRound [[]; [0; 0; 1]] []].

Lemma l1_forks : has_fork (mrun c3 (init_sys c3 3) l1_schedule) = true.
Proof. vm_compute. reflexivity. Qed.

Lemma l1_chains :
  map r_chain (y_reps (mrun c3 (init_sys c3 3) l1_schedule)) =
  [["b1.0"; "b2.1"]; ["b1.0"; "b2.1"]; ["b1.0"; "b2.2000"]].
Proof. vm_compute. reflexivity. Qed.

(* node level: on a stream holding heights 2 then 1 a second block at height 2 is accepted *)
Definition unsorted_node : node :=
  snd (node_exec (CWrite 1 7 1 "b1.0" 1000 100)
    (snd (node_exec (CWrite 1 7 2 "b2.0" 1000 100)
       (snd (node_exec (CPromote 7 1000) empty_node))))).
Lemma unsorted_node_two_blocks :
  map entry_h (node_stream (snd (node_exec (CWrite 1 7 2 "b2.1" 1000 100) unsorted_node))) = [2; 1; 2]
  /\ map entry_d (node_stream (snd (node_exec (CWrite 1 7 2 "b2.1" 1000 100) unsorted_node))) = ["b2.0"; "b1.0"; "b2.1"].
Proof. vm_compute. split; reflexivity. Qed.

(* non-vacuity: a schedule without faults commits the same chain everywhere *)
Example healthy_run :
  map r_chain (y_reps (mrun c3 (init_sys c3 2)
     ([MOp 0 OpRound [] []; MOp 0 OpRound [] []] ++ expire_all ++ [MOp 1 OpRound [] []]))) =
  [["b1.0"; "b2.1"]; ["b1.0"; "b2.1"]].
Proof. vm_compute. reflexivity. Qed.
