(* Lease cluster: per-node facts about the scripts AS TRANSLATED (symbolic execution of the
   interpreter on the generated AST). *)
From Coq Require Import ZifyBool ZifyN.
From FC Require Import Lease.Adapter Lease.ProofsStr Lease.ProofsRO.
Open Scope str_scope.
Open Scope N_scope.

(* the epoch key holds a plain string without expiry (nothing in the scripts gives it one) *)
Definition epoch_wf (nd : node) : Prop :=
  match n_kv nd epoch_key with
  | None => True
  | Some (mkK (DStr _) None) => True
  | _ => False
  end.

(* what no script other than a successful write_block changes *)
Definition frame (nd nd' : node) : Prop :=
  n_kv nd' stream_key = n_kv nd stream_key /\ n_now nd' = n_now nd /\ n_trim nd' = n_trim nd /\
  (epoch_wf nd -> epoch_wf nd' /\ node_epoch nd <= node_epoch nd').

Lemma frame_refl : forall nd, frame nd nd.
Proof. intros. unfold frame. repeat split; auto. lia. Qed.

(* destruct the innermost stuck scrutinee of the goal *)
Ltac inner x :=
  lazymatch x with
  | context [match ?y with _ => _ end] => inner y
  | context [if ?y then _ else _] => inner y
  | _ => destruct x eqn:?
  end.
Ltac dmatch :=
  match goal with
  | |- context [match ?x with _ => _ end] => inner x
  | |- context [if ?x then _ else _] => inner x
  end.

Ltac sym := cbn -[dec tonum N.add N.sub N.leb N.ltb N.eqb N.min N.div N.modulo N.mul Z.of_N N.of_nat
                  skipn N.to_nat live put del node_epoch epoch_wf frame] in *.

Lemma ro_frame : forall c nd, stmt_ro (sc_body (cmd_script c)) = true ->
  snd (node_exec c nd) = nd.
Proof. intros. unfold node_exec. apply run_script_ro. assumption. Qed.

Lemma epoch_of_put_other : forall nd k e, str_eqb epoch_key k = false ->
  node_epoch (put nd k e) = node_epoch nd.
Proof.
  intros. unfold node_epoch, live, put, kv_set. cbn [n_kv n_now]. rewrite H. reflexivity.
Qed.

Lemma live_put : forall nd k e k',
  live (put nd k e) k' =
  if str_eqb k' k
  then match k_exp e with
       | Some t => if t <=? n_now nd then None else Some e
       | None => Some e
       end
  else live nd k'.
Proof. intros. unfold live, put, kv_set. cbn [n_kv n_now]. destruct (str_eqb k' k); reflexivity. Qed.

Lemma frame_lease_put : forall nd nd1 e, frame nd nd1 -> frame nd (put nd1 lease_key e).
Proof.
  unfold frame, epoch_wf, node_epoch, live, put, kv_set. cbn [n_kv n_now n_trim].
  intros nd nd1 e (A & B & C & D). cbn -[dec tonum N.leb]. repeat split; auto; intros; apply D; assumption.
Qed.

Lemma frame_lease_del : forall nd nd1, frame nd nd1 -> frame nd (del nd1 lease_key).
Proof.
  unfold frame, epoch_wf, node_epoch, live, del, kv_del. cbn [n_kv n_now n_trim].
  intros nd nd1 (A & B & C & D). cbn -[dec tonum N.leb]. repeat split; auto; intros; apply D; assumption.
Qed.

Lemma frame_epoch_put : forall nd nd1 m ex,
  frame nd nd1 -> (epoch_wf nd -> ex = None /\ node_epoch nd <= m) ->
  frame nd (put nd1 epoch_key (mkK (DStr (dec m)) ex)).
Proof.
  unfold frame. intros nd nd1 m ex (A & B & C & D) H.
  split; [|split; [|split]].
  - unfold put, kv_set. cbn. assumption.
  - assumption.
  - assumption.
  - intro W. destruct (H W) as [E1 E2]. subst ex.
    unfold epoch_wf, node_epoch, live, put, kv_set. cbn -[dec tonum N.leb].
    rewrite tonum_dec. split; [exact Logic.I|assumption].
Qed.

Lemma epoch_read : forall nd s ex n,
  live nd epoch_key = Some (mkK (DStr s) ex) -> tonum s = Some n -> epoch_wf nd ->
  ex = None /\ node_epoch nd = n.
Proof.
  unfold epoch_wf, node_epoch. intros nd s ex n L T W. rewrite L, T. split; [|reflexivity].
  unfold live in L. destruct (n_kv nd epoch_key) as [[[v|st] [t|]]|]; try contradiction; try discriminate.
  cbn in L. congruence.
Qed.

Lemma epoch_none : forall nd, live nd epoch_key = None -> epoch_wf nd -> node_epoch nd = 0.
Proof. unfold node_epoch. intros nd L _. rewrite L. reflexivity. Qed.

Ltac run_sym := unfold node_exec, run_script; sym; rewrite ?tonum_dec;
  repeat (first [ progress (rewrite ?live_put, ?tonum_dec; sym) | dmatch ]).

Lemma promote_frame : forall o ttl nd, frame nd (snd (node_exec (CPromote o ttl) nd)).
Proof.
  intros. run_sym; try apply frame_refl; try (apply frame_lease_put, frame_refl).
  - apply frame_epoch_put; [apply frame_lease_put, frame_refl|].
    intro W. match goal with L : live nd epoch_key = _, T : tonum _ = _ |- _ => destruct (epoch_read _ _ _ _ L T W) end.
    split; [assumption|lia].
  - change "1"%str with (dec 1). apply frame_epoch_put; [apply frame_lease_put, frame_refl|].
    intro W. split; [reflexivity|]. rewrite epoch_none by assumption. lia.
Qed.

Lemma release_frame : forall o nd, frame nd (snd (node_exec (CRelease o) nd)).
Proof.
  intros. run_sym; try apply frame_refl; try (apply frame_lease_del, frame_refl).
Qed.

(* ------------------------------------------------------------------------------------ *)
(* write_block.lua *)

Definition wf_fields (h : N) (d : str) (ep t : N) : list str :=
  ["height"; dec h; "data"; d; "epoch"; dec ep; "timestamp"; dec t].
Definition wf_entry (x : entry) : Prop := exists h d ep t, e_fields x = wf_fields h d ep t.
Definition entry_h (x : entry) : N :=
  match e_fields x with
  | _ :: hs :: _ => match tonum hs with Some h => h | None => 0 end
  | _ => 0
  end.
Definition entry_d (x : entry) : str := nth 3 (e_fields x) "".

(* the reverse scan of write_block.lua over the heights, newest first *)
Fixpoint scan (p : N) (hs : list N) : bool :=
  match hs with
  | [] => false
  | h :: r => if h =? p then true else if h <? p then false else scan p r
  end.

(* the script is: 8 straight-line statements, the scan loop, 4 straight-line statements *)
Definition wb_loop : stmt :=
  match write_block_body with
  | SSeq _ (SSeq _ (SSeq _ (SSeq _ (SSeq _ (SSeq _ (SSeq _ (SSeq _ (SSeq l _)))))))) => l
  | _ => SSkip
  end.
Definition wb_suffix : stmt :=
  match write_block_body with
  | SSeq _ (SSeq _ (SSeq _ (SSeq _ (SSeq _ (SSeq _ (SSeq _ (SSeq _ (SSeq _ s)))))))) => s
  | _ => SSkip
  end.
Definition wb_loop_body : stmt :=
  match wb_loop with SForIpairs _ _ _ b => b | _ => SSkip end.

Lemma wb_loop_shape : wb_loop = SForIpairs 5 6 (EVar 3) wb_loop_body.
Proof. reflexivity. Qed.

Definition wb_ctx (e o p : N) (d : str) (ttl ml : N) : ctx :=
  mkCtx [stream_key; epoch_key; lease_key] [dec e; owner_str o; dec p; d; dec ttl; dec ml].

Definition exists_msg (p : N) : str :=
  "HEIGHT_EXISTS: Block at height " +++ dec p +++ " already in stream".

Lemma zeqb_of_N : forall a b, (Z.of_N a =? Z.of_N b)%Z = (a =? b).
Proof. intros. destruct (N.eqb_spec a b); lia. Qed.
Lemma zltb_of_N : forall a b, (Z.of_N a <? Z.of_N b)%Z = (a <? b).
Proof. intros. destruct (N.ltb_spec a b); lia. Qed.

Lemma wb_scan : forall e o p d ttl ml es, Forall wf_entry es ->
  forall idx v0 v1 v3 v5 v6 v7 v8 v9 v10 nd,
  exists en',
    loop (fun i v en' nd' => exec_stmt (wb_ctx e o p d ttl ml) wb_loop_body (env_set 6 v (env_set 5 i en')) nd')
         (take_until_nil (map reply_to_val (map entry_reply es))) idx
         [v0; v1; VNum (Z.of_N p); v3; VBool false; v5; v6; v7; v8; v9; v10] nd
    = ((if scan p (map entry_h es) then CRet (VErrT (exists_msg p)) else CNorm), en', nd).
Proof.
  intros e o p d ttl ml es W. induction W as [|x r Hx Hr IH]; intros.
  - cbn. eexists. reflexivity.
  - destruct Hx as (h & dd & ep & t & Hf).
    cbn [map entry_reply reply_to_val take_until_nil loop].
    rewrite Hf. unfold wf_fields.
    assert (Eh : entry_h x = h) by (unfold entry_h; rewrite Hf; cbn -[dec tonum]; rewrite tonum_dec; reflexivity).
    cbn [scan]. rewrite Eh.
    sym. rewrite !tonum_dec. sym. rewrite zeqb_of_N.
    destruct (h =? p) eqn:E1; sym.
    + eexists. reflexivity.
    + rewrite zltb_of_N. destruct (h <? p) eqn:E2; sym.
      * eexists. reflexivity.
      * apply IH.
Qed.

Definition wb_prefix : list stmt :=
  match write_block_body with
  | SSeq a (SSeq b (SSeq c (SSeq d (SSeq e (SSeq f (SSeq g (SSeq h _))))))) => [a;b;c;d;e;f;g;h]
  | _ => []
  end.
Lemma wb_shape : write_block_body = fold_right SSeq (SSeq wb_loop wb_suffix) wb_prefix.
Proof. reflexivity. Qed.

Lemma wb_loop_exec : forall e o p d ttl ml es, Forall wf_entry es ->
  forall v0 v1 v5 v6 v7 v8 v9 v10 nd,
  exists en',
    exec_stmt (mkCtx [stream_key; epoch_key; lease_key] [dec e; owner_str o; dec p; d; dec ttl; dec ml])
              wb_loop
              [v0; v1; VNum (Z.of_N p); VTab (map reply_to_val (map entry_reply es)); VBool false;
               v5; v6; v7; v8; v9; v10] nd
    = ((if scan p (map entry_h es) then CRet (VErrT (exists_msg p)) else CNorm), en', nd).
Proof.
  intros. rewrite wb_loop_shape. cbn [exec_stmt eval_expr env_get nth].
  apply (wb_scan e o p d ttl ml es H).
Qed.

Definition stream_wf (nd : node) : Prop :=
  match n_kv nd stream_key with
  | None => True
  | Some (mkK (DStream s) None) => Forall wf_entry (s_entries s)
  | _ => False
  end.

Lemma env_get_set_same : forall s v en, env_get s (env_set s v en) = v.
Proof.
  unfold env_get. induction s; destruct en; cbn; auto.
Qed.

(* projections through put / del on the three adapter keys *)
Lemma live_del : forall nd k k',
  live (del nd k) k' = if str_eqb k' k then None else live nd k'.
Proof. intros. unfold live, del, kv_del. cbn [n_kv n_now]. destruct (str_eqb k' k); reflexivity. Qed.

Lemma ns_put_lease : forall X L, node_stream (put X lease_key L) = node_stream X.
Proof. intros. unfold node_stream. rewrite live_put. reflexivity. Qed.
Lemma ns_del_lease : forall X, node_stream (del X lease_key) = node_stream X.
Proof. intros. unfold node_stream. rewrite live_del. reflexivity. Qed.
Lemma ns_put_epoch : forall X L, node_stream (put X epoch_key L) = node_stream X.
Proof. intros. unfold node_stream. rewrite live_put. reflexivity. Qed.
Lemma ns_put_stream : forall X S, node_stream (put X stream_key (mkK (DStream S) None)) = s_entries S.
Proof. intros. unfold node_stream. rewrite live_put. reflexivity. Qed.

Lemma ne_put_lease : forall X L, node_epoch (put X lease_key L) = node_epoch X.
Proof. intros. unfold node_epoch. rewrite live_put. reflexivity. Qed.
Lemma ne_del_lease : forall X, node_epoch (del X lease_key) = node_epoch X.
Proof. intros. unfold node_epoch. rewrite live_del. reflexivity. Qed.
Lemma ne_put_stream : forall X L, node_epoch (put X stream_key L) = node_epoch X.
Proof. intros. unfold node_epoch. rewrite live_put. reflexivity. Qed.
Lemma ne_put_epoch : forall X m, node_epoch (put X epoch_key (mkK (DStr (dec m)) None)) = m.
Proof. intros. unfold node_epoch. rewrite live_put. cbn -[dec tonum]. rewrite tonum_dec. reflexivity. Qed.

Lemma ew_put_lease : forall X L, epoch_wf X -> epoch_wf (put X lease_key L).
Proof. intros. unfold epoch_wf, put, kv_set in *. cbn in *. assumption. Qed.
Lemma ew_del_lease : forall X, epoch_wf X -> epoch_wf (del X lease_key).
Proof. intros. unfold epoch_wf, del, kv_del in *. cbn in *. assumption. Qed.
Lemma ew_put_stream : forall X L, epoch_wf X -> epoch_wf (put X stream_key L).
Proof. intros. unfold epoch_wf, put, kv_set in *. cbn in *. assumption. Qed.
Lemma ew_put_epoch : forall X v, epoch_wf (put X epoch_key (mkK (DStr v) None)).
Proof. intros. unfold epoch_wf, put, kv_set. cbn. exact Logic.I. Qed.

Lemma sw_put_lease : forall X L, stream_wf X -> stream_wf (put X lease_key L).
Proof. intros. unfold stream_wf, put, kv_set in *. cbn in *. assumption. Qed.
Lemma sw_del_lease : forall X, stream_wf X -> stream_wf (del X lease_key).
Proof. intros. unfold stream_wf, del, kv_del in *. cbn in *. assumption. Qed.
Lemma sw_put_epoch : forall X L, stream_wf X -> stream_wf (put X epoch_key L).
Proof. intros. unfold stream_wf, put, kv_set in *. cbn in *. assumption. Qed.
Lemma sw_put_stream : forall X S, Forall wf_entry (s_entries S) ->
  stream_wf (put X stream_key (mkK (DStream S) None)).
Proof. intros. unfold stream_wf, put, kv_set. cbn. assumption. Qed.

Lemma Forall_skipn : forall {A} (P : A -> Prop) k l, Forall P l -> Forall P (skipn k l).
Proof. induction k; destruct l; cbn; intros; auto. inversion H; auto. Qed.

Lemma wf_new : forall ms sq p d e t, wf_entry (mkEntry ms sq (wf_fields p d e t)).
Proof. intros. exists p, d, e, t. reflexivity. Qed.

Lemma tonum_zero : tonum "0" = Some 0.
Proof. reflexivity. Qed.
