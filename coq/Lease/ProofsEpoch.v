(* Lease cluster: the per-node theorems over all six scripts and over sequences. *)
From Coq Require Import ZifyBool ZifyN.
From FC Require Import Lease.Adapter Lease.ProofsStr Lease.ProofsRO Lease.ProofsNode Lease.ProofsWrite Lease.Proofs25.
Open Scope str_scope.
Open Scope N_scope.

(* invariant of a node that is only touched by the six scripts: the epoch key is a plain string
   without expiry, the stream key is a stream without expiry whose entries were all written by
   write_block.lua (height / data / epoch / timestamp fields) *)
Definition node_wf (nd : node) : Prop := epoch_wf nd /\ stream_wf nd.

Definition heights (nd : node) : list N := map entry_h (node_stream nd).

Lemma frame_stream_wf : forall nd nd', frame nd nd' -> stream_wf nd -> stream_wf nd' /\ node_stream nd' = node_stream nd.
Proof.
  intros nd nd' (A & B & _ & _) SW. unfold stream_wf, node_stream, live in *. rewrite A, B. auto.
Qed.

Lemma step_all : forall c nd, node_wf nd ->
  let nd' := snd (node_exec c nd) in
  node_wf nd' /\ node_epoch nd <= node_epoch nd' /\ n_now nd' = n_now nd /\
  (match c with CWrite _ _ _ _ _ _ => True | _ => node_stream nd' = node_stream nd end).
Proof.
  intros c nd [EW SW]. cbn zeta. destruct c.
  - rewrite (ro_frame (CCheck o) nd check_ro). repeat split; auto. lia.
  - pose proof (promote_frame o ttl nd) as F. destruct (frame_stream_wf _ _ F SW).
    destruct F as (_ & B & _ & D). destruct (D EW). repeat split; auto.
  - pose proof (release_frame o nd) as F. destruct (frame_stream_wf _ _ F SW).
    destruct F as (_ & B & _ & D). destruct (D EW). repeat split; auto.
  - destruct (write_exec epoch o h data ttl maxlen nd EW SW) as (A & B & C & D & E & _). repeat split; auto.
  - rewrite (ro_frame CLatest nd latest_ro). repeat split; auto. lia.
  - rewrite (ro_frame (CEntries minh count) nd entries_ro). repeat split; auto. lia.
Qed.

Lemma write_owner_epoch : forall e o p d ttl ml nd, node_wf nd ->
  dec_write (Some (fst (node_exec (CWrite e o p d ttl ml) nd))) = WWritten ->
  node_owner nd = Some (owner_str o) /\ node_epoch nd <= e /\
  node_epoch (snd (node_exec (CWrite e o p d ttl ml) nd)) = e.
Proof.
  intros e o p d ttl ml nd [EW SW] H.
  destruct (write_exec e o p d ttl ml nd EW SW) as (_ & _ & _ & _ & _ & W). rewrite H in W.
  destruct W as (A & B & C & _). auto.
Qed.

Lemma write_only_append : forall e o p d ttl ml nd, node_wf nd ->
  let r := fst (node_exec (CWrite e o p d ttl ml) nd) in
  let nd' := snd (node_exec (CWrite e o p d ttl ml) nd) in
  (dec_write (Some r) <> WWritten -> node_stream nd' = node_stream nd) /\
  (dec_write (Some r) = WWritten ->
     scan p (rev (heights nd)) = false /\
     exists ms sq t k, node_stream nd' = skipn k (node_stream nd ++ [mkEntry ms sq (wf_fields p d e t)]) /\
                       (n_trim nd = 0 -> k = 0%nat)).
Proof.
  intros e o p d ttl ml nd [EW SW]. cbn zeta.
  destruct (write_exec e o p d ttl ml nd EW SW) as (_ & _ & _ & _ & _ & W).
  destruct (dec_write (Some (fst (node_exec (CWrite e o p d ttl ml) nd)))); split; intro H;
    try congruence; try assumption; try contradiction.
  destruct W as (_ & _ & _ & S & X). split; assumption.
Qed.

Lemma NoDup_skipn : forall {A} k (l : list A), NoDup l -> NoDup (skipn k l).
Proof. induction k; destruct l; cbn; intros; auto. inversion H; auto. Qed.

Lemma NoDup_snoc : forall {A} (l : list A) x, NoDup l -> ~ In x l -> NoDup (l ++ [x]).
Proof.
  induction l; cbn; intros.
  - constructor; [intros []|constructor].
  - inversion H; subst. constructor.
    + intro I. apply in_app_or in I. destruct I as [I|[->|[]]]; [contradiction|]. apply H0. left. reflexivity.
    + apply IHl; [assumption|]. intro. apply H0. right. assumption.
Qed.

Lemma entry_h_new : forall ms sq p d e t, entry_h (mkEntry ms sq (wf_fields p d e t)) = p.
Proof. intros. unfold entry_h, wf_fields. cbn -[dec tonum]. rewrite tonum_dec. reflexivity. Qed.

(* at most one block per height per node, under the stream-order hypothesis *)
Lemma heights_unique_step : forall e o p d ttl ml nd, node_wf nd ->
  sorted (heights nd) -> NoDup (heights nd) ->
  NoDup (heights (snd (node_exec (CWrite e o p d ttl ml) nd))).
Proof.
  intros e o p d ttl ml nd WF S ND.
  destruct (write_only_append e o p d ttl ml nd WF) as [A B].
  destruct (dec_write (Some (fst (node_exec (CWrite e o p d ttl ml) nd)))) eqn:D.
  - destruct (B eq_refl) as (Sc & ms & sq & t & k & Hs & _).
    unfold heights. rewrite Hs, <- skipn_map, map_app. cbn [map]. rewrite entry_h_new.
    apply NoDup_skipn. apply NoDup_snoc; [assumption|].
    intro I. pose proof (scan_sorted_finds p (heights nd) S I). congruence.
  - unfold heights. rewrite A by discriminate. assumption.
  - unfold heights. rewrite A by discriminate. assumption.
  - unfold heights. rewrite A by discriminate. assumption.
Qed.

(* sequences of script invocations and clock advances on one node *)
Inductive nact := NCmd (c : cmd) | NAdvance (dt : N).
Definition node_act (nd : node) (a : nact) : node :=
  match a with
  | NCmd c => snd (node_exec c nd)
  | NAdvance dt => mkNode (n_kv nd) (n_now nd + dt) (n_trim nd)
  end.
Definition node_run (nd : node) (l : list nact) : node := fold_left node_act l nd.

Lemma advance_wf : forall nd dt, node_wf nd ->
  node_wf (mkNode (n_kv nd) (n_now nd + dt) (n_trim nd)) /\
  node_epoch (mkNode (n_kv nd) (n_now nd + dt) (n_trim nd)) = node_epoch nd.
Proof.
  intros nd dt [EW SW]. unfold node_wf, epoch_wf, stream_wf, node_epoch, live in *. cbn [n_kv n_now].
  destruct (n_kv nd epoch_key) as [[[v|s] [t|]]|]; try contradiction; repeat split; auto.
Qed.

Lemma run_all : forall cs nd, node_wf nd ->
  node_wf (node_run nd cs) /\ node_epoch nd <= node_epoch (node_run nd cs).
Proof.
  induction cs as [|a cs IH]; intros nd WF; cbn; [split; [assumption|lia]|].
  assert (H : node_wf (node_act nd a) /\ node_epoch nd <= node_epoch (node_act nd a)).
  { destruct a; cbn.
    - destruct (step_all c nd WF) as (A & B & _). split; assumption.
    - destruct (advance_wf nd dt WF) as [A B]. split; [assumption|]. rewrite B. lia. }
  destruct H as [A B]. destruct (IH _ A) as [C D]. split; [assumption|]. unfold node_run in D. lia.
Qed.

Example empty_node_wf : node_wf empty_node.
Proof. split; exact Logic.I. Qed.
