(* C41: proofs about the ServiceRunner life-cycle model (Svc/Model41.v). *)
From FC Require Import Svc.Model41.
From Coq Require Import Lia Arith.
Open Scope nat_scope.

(* ---------- the finite control space of B, enumerated ---------- *)
Definition all_sstate := [NotStarted; Starting; Started; Stopping; Stopped; StoppedWithError].
Definition all_bpc := [BInit; BWaitStart; BCheckStart; BGateInto; BSetStarted; BLoopHead;
                       BGateRun; BRunWait; BGateShut; BResume; BFinal; BDone].
Definition all_bool := [true; false].
Definition all_io := [IOk; IErr; IPanic].
Definition all_ro := [RContinue; RStop; RErrorContinue; RPanic; RWaitStop].
Definition all_so := [SOk; SErr; SPanic].

(* the whole space: 6 * 12 * 2 * 2 * 3 * 5 * 3 = 12960 control states x scripted outcomes *)
Definition forall_ctl (P : sstate -> bpc -> bool -> bool -> ioutcome -> routcome -> soutcome -> bool) : bool :=
  forallb (fun c => forallb (fun p => forallb (fun g => forallb (fun pm =>
  forallb (fun io => forallb (fun ro => forallb (fun so => P c p g pm io ro so)
  all_so) all_ro) all_io) all_bool) all_bool) all_bpc) all_sstate.

Lemma forall_ctl_sound : forall P, forall_ctl P = true ->
  forall c p g pm io ro so, P c p g pm io ro so = true.
Proof.
  intros P H c p g pm io ro so. unfold forall_ctl in H.
  rewrite forallb_forall in H. specialize (H c).
  assert (Hc : In c all_sstate) by (destruct c; cbn; tauto). specialize (H Hc).
  rewrite forallb_forall in H. specialize (H p).
  assert (Hp : In p all_bpc) by (destruct p; cbn; tauto). specialize (H Hp).
  rewrite forallb_forall in H. specialize (H g).
  assert (Hg : In g all_bool) by (destruct g; cbn; tauto). specialize (H Hg).
  rewrite forallb_forall in H. specialize (H pm).
  assert (Hpm : In pm all_bool) by (destruct pm; cbn; tauto). specialize (H Hpm).
  rewrite forallb_forall in H. specialize (H io).
  assert (Hio : In io all_io) by (destruct io; cbn; tauto). specialize (H Hio).
  rewrite forallb_forall in H. specialize (H ro).
  assert (Hro : In ro all_ro) by (destruct ro; cbn; tauto). specialize (H Hro).
  rewrite forallb_forall in H. apply H. destruct so; cbn; tauto.
Qed.

Definition bpc_eqb (a b : bpc) : bool := Nat.eqb (brank a) (brank b) &&
  match a, b with
  | BLoopHead, BLoopHead | BGateRun, BGateRun | BRunWait, BRunWait => true
  | (BLoopHead | BGateRun | BRunWait), _ => false
  | _, _ => true
  end.

Lemma bpc_eqb_eq : forall a b, bpc_eqb a b = true -> a = b.
Proof. destruct a, b; cbn; intro H; try reflexivity; discriminate. Qed.

(* control invariant: the cell is stopped exactly when B is done *)
Definition inv_ctl (c : sstate) (p : bpc) : bool := Bool.eqb (stopped c) (bpc_eqb p BDone).

Definition blocked_ctl (p : bpc) (permit : bool) : bool := at_gate p && negb permit.

(* all finite facts about one step of B, checked on the whole space *)
Definition bstep_facts c p g pm io ro so : bool :=
  let r := bstep c p g pm io ro so in
  fwdb c (b_cell r) &&
  Nat.leb (brank p) (brank (b_pc r)) &&
  implb (b_into r) (bpc_eqb p BGateInto && Nat.ltb 3 (brank (b_pc r))) &&
  implb (b_shut r) (bpc_eqb p BGateShut && Nat.ltb 6 (brank (b_pc r))) &&
  implb (b_run r) (bpc_eqb p BGateRun) &&
  implb (b_used r) pm &&
  implb (inv_ctl c p) (inv_ctl (b_cell r) (b_pc r)) &&
  (* a done B does nothing *)
  implb (bpc_eqb p BDone)
        (sstate_eqb (b_cell r) c && bpc_eqb (b_pc r) BDone &&
         negb (b_into r) && negb (b_run r) && negb (b_shut r) && negb (b_used r)) &&
  (* blocked at a gate: nothing happens *)
  implb (blocked_ctl p pm)
        (sstate_eqb (b_cell r) c && bpc_eqb (b_pc r) p && negb (b_used r)) &&
  (* once a stop was requested every enabled step of B makes progress *)
  implb (Nat.leb 3 (srank c) && negb (bpc_eqb p BDone) && negb (blocked_ctl p pm))
        (Nat.ltb (remaining (b_pc r)) (remaining p) && Nat.leb 3 (srank (b_cell r))) &&
  (* a permit is consumed exactly when a gate is passed *)
  Bool.eqb (b_used r) (at_gate p && pm).

Lemma bstep_facts_all : forall c p g pm io ro so, bstep_facts c p g pm io ro so = true.
Proof. apply forall_ctl_sound. vm_compute. reflexivity. Qed.

Lemma bstep_done : forall c g pm io ro so,
  bstep c BDone g pm io ro so = mkB c BDone g false false false false.
Proof. reflexivity. Qed.

Lemma bstep_blocked : forall c p g io ro so, at_gate p = true ->
  bstep c p g false io ro so = mkB c p g false false false false.
Proof. intros c p g io ro so H. destruct p; try discriminate; reflexivity. Qed.

(* ---------- forward only ---------- *)
Lemma fwdb_refl : forall a, fwdb a a = true.
Proof. destruct a; reflexivity. Qed.

Lemma fwdb_trans : forall a b c, fwdb a b = true -> fwdb b c = true -> fwdb a c = true.
Proof. destruct a, b, c; cbn; intros; try reflexivity; discriminate. Qed.

Lemma fwd_step : forall s o, fwdb (cell s) (cell (step41 s o)) = true.
Proof.
  intros s o. destruct o; unfold step41.
  - destruct (sstate_eqb (cell s) NotStarted) eqn:E; [|apply fwdb_refl].
    cbn [cell]. destruct (cell s); try discriminate; reflexivity.
  - destruct (cell s) eqn:E; cbn [cell]; try rewrite E; reflexivity.
  - cbn [cell]. apply fwdb_refl.
  - cbn [cell].
    pose proof (bstep_facts_all (cell s) (pc s) (gp s) (negb (Nat.eqb (permits s) 0))
                                (iscript s) (hd RWaitStop (rscript s)) (sscript s)) as H.
    unfold bstep_facts in H. repeat (apply andb_true_iff in H; destruct H as [H ?]). exact H.
  - cbn [cell]. apply fwdb_refl.
  - destruct (nth_error (aws s) i); cbn [cell]; apply fwdb_refl.
Qed.

Lemma run41_app : forall ops1 ops2 s, run41 s (ops1 ++ ops2) = run41 (run41 s ops1) ops2.
Proof. intros. unfold run41. apply fold_left_app. Qed.

Lemma fwd_run : forall ops s, fwdb (cell s) (cell (run41 s ops)) = true.
Proof.
  induction ops as [|o ops IH]; intro s; [apply fwdb_refl|].
  cbn [run41 fold_left]. eapply fwdb_trans; [apply fwd_step|apply IH].
Qed.

Lemma state_forward_all : forall io rs so ops1 ops2,
  fwdb (cell (run41 (init_sys io rs so) ops1))
       (cell (run41 (init_sys io rs so) (ops1 ++ ops2))) = true.
Proof. intros. rewrite run41_app. apply fwd_run. Qed.

Lemma fwdb_spec : forall a b, fwdb a b = true <-> (a = b \/ srank a < srank b).
Proof.
  intros a b. unfold fwdb. rewrite orb_true_iff, Nat.ltb_lt. split; intros [H|H]; auto.
  - left. destruct a, b; try discriminate; reflexivity.
  - left. subst. destruct b; reflexivity.
Qed.

(* ---------- reachable-state invariant ---------- *)
Definition aw_inv (c : sstate) (v : nat) (a : awaiter) : Prop :=
  a_seen a <= v /\
  (a_pc a = AWaitChg -> a_seen a = v -> acond (a_kind a) c = false) /\
  (forall r, a_pc a = ADone r -> acond (a_kind a) r = true /\ (a_kind a = AStop -> r = c)).

Definition Inv (s : sys) : Prop :=
  inv_ctl (cell s) (pc s) = true /\
  (brank (pc s) <= 3 -> n_into s = 0) /\ n_into s <= 1 /\
  (brank (pc s) <= 6 -> n_shut s = 0) /\ n_shut s <= 1 /\
  Forall (aw_inv (cell s) (ver s)) (aws s).

Lemma Inv_init : forall io rs so, Inv (init_sys io rs so).
Proof. intros. unfold Inv, init_sys; cbn. repeat split; auto; constructor. Qed.

Lemma stopped_fwd_eq : forall a b, stopped a = true -> fwdb a b = true -> a = b.
Proof. destruct a, b; cbn; intros; try reflexivity; discriminate. Qed.

Lemma aw_inv_change : forall c c' v a,
  aw_inv c v a -> fwdb c c' = true -> c <> c' -> aw_inv c' (S v) a.
Proof.
  intros c c' v a (H1 & H2 & H3) Hf Hne. unfold aw_inv. repeat split.
  - lia.
  - intros _ He. lia.
  - apply H3; auto.
  - intro Hk. destruct (H3 r H) as [Hc Hr]. specialize (Hr Hk). subst r.
    rewrite Hk in Hc. cbn in Hc. exfalso. apply Hne. apply stopped_fwd_eq; auto.
Qed.

Lemma Forall_set_nth41 : forall {A} (P : A -> Prop) l i x,
  Forall P l -> P x -> Forall P (set_nth41 l i x).
Proof.
  induction l as [|a l IH]; intros i x Hl Hx; [constructor|].
  inversion Hl; subst. destruct i; cbn [set_nth41]; constructor; auto.
Qed.

Lemma sstate_eqb_eq : forall a b, sstate_eqb a b = true <-> a = b.
Proof. destruct a, b; cbn; split; intro; try reflexivity; discriminate. Qed.

Lemma astep_inv : forall c v a, aw_inv c v a -> aw_inv c v (astep c v a).
Proof.
  intros c v a (H1 & H2 & H3). unfold astep.
  destruct (a_pc a) as [| |r0] eqn:Ep.
  - destruct (acond (a_kind a) c) eqn:Ec; unfold aw_inv; cbn [a_seen a_pc a_kind].
    + split; [exact H1|]. split; [discriminate|]. intros r Hr. inversion Hr; subst.
      split; [exact Ec|intros _; reflexivity].
    + split; [exact H1|]. split; [intros _ _; exact Ec|]. intros r Hr; discriminate.
  - destruct (Nat.eqb_spec v (a_seen a)).
    + unfold aw_inv. rewrite Ep. split; [exact H1|]. split; [exact H2|exact H3].
    + unfold aw_inv; cbn [a_seen a_pc a_kind]. split; [lia|]. split; [discriminate|].
      intros r Hr; discriminate.
  - unfold aw_inv. rewrite Ep. split; [exact H1|]. split; [exact H2|exact H3].
Qed.

Lemma Inv_set_cell : forall s c', Inv s -> fwdb (cell s) c' = true -> cell s <> c' ->
  stopped c' = false ->
  Inv (mkSys c' (S (ver s)) (pc s) (gp s) (permits s) (iscript s) (rscript s) (sscript s)
             (n_into s) (n_run s) (n_shut s) (aws s)).
Proof.
  intros s c' (Hc & Hi0 & Hi1 & Hs0 & Hs1 & Ha) Hf Hne Hst.
  unfold Inv; cbn [cell pc n_into n_shut aws ver].
  split; [|split; [exact Hi0|split; [exact Hi1|split; [exact Hs0|split; [exact Hs1|]]]]].
  - unfold inv_ctl in *. rewrite Hst.
    destruct (stopped (cell s)) eqn:E.
    + exfalso. apply Hne. apply stopped_fwd_eq; auto.
    + exact Hc.
  - eapply Forall_impl; [|exact Ha]. intros a H. eapply aw_inv_change; eauto.
Qed.

Lemma Inv_step : forall s o, Inv s -> Inv (step41 s o).
Proof.
  intros s o HI. pose proof HI as (Hc & Hi0 & Hi1 & Hs0 & Hs1 & Ha).
  destruct o; unfold step41.
  - (* start *)
    destruct (sstate_eqb (cell s) NotStarted) eqn:E; [|exact HI].
    apply sstate_eqb_eq in E. apply Inv_set_cell; auto; rewrite E; [reflexivity|discriminate].
  - (* stop *)
    destruct (cell s) eqn:E; try exact HI;
      (apply Inv_set_cell; auto; rewrite E; [reflexivity|discriminate]).
  - (* grant *)
    unfold Inv; cbn [cell pc n_into n_shut aws ver]. repeat split; auto.
  - (* B *)
    pose proof (bstep_facts_all (cell s) (pc s) (gp s) (negb (Nat.eqb (permits s) 0))
                                (iscript s) (hd RWaitStop (rscript s)) (sscript s)) as H.
    unfold bstep_facts in H.
    set (r := bstep (cell s) (pc s) (gp s) (negb (Nat.eqb (permits s) 0))
                    (iscript s) (hd RWaitStop (rscript s)) (sscript s)) in *.
    repeat (apply andb_true_iff in H; destruct H as [H ?]).
    rename H into Ffwd, H0 into Fperm, H1 into Flive, H2 into Fblk, H3 into Fdone,
           H4 into Finv, H5 into Fused, H6 into Frun, H7 into Fshut, H8 into Finto, H9 into Frank.
    apply Nat.leb_le in Frank.
    unfold Inv; cbn [cell pc n_into n_shut aws ver]. repeat split.
    + rewrite Hc in Finv. exact Finv.
    + intro Hr. destruct (b_into r) eqn:Ei; cbn [bool_nat].
      * cbn [implb] in Finto. apply andb_true_iff in Finto. destruct Finto as [_ Hl].
        apply Nat.ltb_lt in Hl. lia.
      * rewrite Hi0 by lia. reflexivity.
    + destruct (b_into r) eqn:Ei; cbn [bool_nat]; [|lia].
      cbn [implb] in Finto. apply andb_true_iff in Finto. destruct Finto as [Hp _].
      apply bpc_eqb_eq in Hp. rewrite Hi0 by (rewrite Hp; cbn; lia). lia.
    + intro Hr. destruct (b_shut r) eqn:Ei; cbn [bool_nat].
      * cbn [implb] in Fshut. apply andb_true_iff in Fshut. destruct Fshut as [_ Hl].
        apply Nat.ltb_lt in Hl. lia.
      * rewrite Hs0 by lia. reflexivity.
    + destruct (b_shut r) eqn:Ei; cbn [bool_nat]; [|lia].
      cbn [implb] in Fshut. apply andb_true_iff in Fshut. destruct Fshut as [Hp _].
      apply bpc_eqb_eq in Hp. rewrite Hs0 by (rewrite Hp; cbn; lia). lia.
    + destruct (sstate_eqb (b_cell r) (cell s)) eqn:E.
      * apply sstate_eqb_eq in E. rewrite E. exact Ha.
      * eapply Forall_impl; [|exact Ha]. intros a Hx. eapply aw_inv_change; eauto.
        intro Heq. rewrite <- Heq in E. rewrite (proj2 (sstate_eqb_eq _ _) eq_refl) in E.
        discriminate.
  - (* spawn *)
    unfold Inv; cbn [cell pc n_into n_shut aws ver]. repeat split; auto.
    apply Forall_app. split; [exact Ha|]. constructor; [|constructor].
    unfold aw_inv; cbn. repeat split; auto; try discriminate.
  - (* awaiter step *)
    destruct (nth_error (aws s) i) as [a|] eqn:En; [|unfold Inv; repeat split; auto].
    unfold Inv; cbn [cell pc n_into n_shut aws ver]. repeat split; auto.
    apply Forall_set_nth41; auto. apply astep_inv.
    rewrite Forall_forall in Ha. apply Ha. eapply nth_error_In; eauto.
Qed.

Lemma Inv_run : forall ops s, Inv s -> Inv (run41 s ops).
Proof.
  induction ops as [|o ops IH]; intros s H; [exact H|].
  cbn [run41 fold_left]. apply IH. apply Inv_step. exact H.
Qed.

Definition reachable (s : sys) : Prop :=
  exists io rs so ops, s = run41 (init_sys io rs so) ops.

Lemma reachable_Inv : forall s, reachable s -> Inv s.
Proof. intros s (io & rs & so & ops & ->). apply Inv_run. apply Inv_init. Qed.

(* ---------- shutdown (and into_task) at most once ---------- *)
Lemma shutdown_once_all : forall io rs so ops,
  n_shut (run41 (init_sys io rs so) ops) <= 1 /\ n_into (run41 (init_sys io rs so) ops) <= 1.
Proof.
  intros. destruct (Inv_run ops _ (Inv_init io rs so)) as (_ & _ & Hi & _ & Hs & _). auto.
Qed.

(* ---------- a stopped service never runs again ---------- *)
Definition frozen (s s' : sys) : Prop :=
  cell s' = cell s /\ n_into s' = n_into s /\ n_run s' = n_run s /\ n_shut s' = n_shut s.

Lemma stopped_step : forall s o, Inv s -> stopped (cell s) = true -> frozen s (step41 s o).
Proof.
  intros s o (Hc & _) Hst. unfold frozen.
  destruct o; unfold step41.
  - destruct (cell s) eqn:E; try discriminate; cbn; rewrite ?E; auto.
  - destruct (cell s) eqn:E; try discriminate; rewrite ?E; auto.
  - cbn. auto.
  - unfold inv_ctl in Hc. rewrite Hst in Hc. cbn [Bool.eqb] in Hc.
    assert (Hd : bpc_eqb (pc s) BDone = true) by (destruct (bpc_eqb (pc s) BDone); auto).
    apply bpc_eqb_eq in Hd. rewrite Hd. rewrite bstep_done.
    cbn [cell n_into n_run n_shut b_cell b_into b_run b_shut bool_nat].
    repeat split; auto; lia.
  - cbn. auto.
  - destruct (nth_error (aws s) i); cbn; auto.
Qed.

Lemma stopped_never_runs_all : forall s ops, reachable s -> stopped (cell s) = true ->
  frozen s (run41 s ops).
Proof.
  intros s ops Hr. apply reachable_Inv in Hr. revert s Hr.
  induction ops as [|o ops IH]; intros s Hi Hst; [unfold frozen; auto|].
  cbn [run41 fold_left].
  destruct (stopped_step s o Hi Hst) as (H1 & H2 & H3 & H4).
  assert (Hst' : stopped (cell (step41 s o)) = true) by (rewrite H1; exact Hst).
  destruct (IH _ (Inv_step _ o Hi) Hst') as (G1 & G2 & G3 & G4).
  unfold frozen. unfold run41 in *. repeat split; congruence.
Qed.

(* ---------- liveness ---------- *)
Definition blocked (s : sys) : bool := at_gate (pc s) && Nat.eqb (permits s) 0.
Definition requested (s : sys) : Prop := 3 <= srank (cell s).

Lemma requested_step : forall s o, requested s -> requested (step41 s o).
Proof.
  intros s o H. unfold requested in *. pose proof (fwd_step s o) as F.
  apply fwdb_spec in F. destruct F as [F|F]; [rewrite <- F; exact H|lia].
Qed.

Lemma op_eq_dec : forall a b : op, {a = b} + {a <> b}.
Proof. decide equality; try apply Nat.eq_dec. decide equality. Qed.

Definition mu_of (p : bpc) (n : nat) : nat :=
  2 * remaining p + bool_nat (at_gate p && Nat.eqb n 0).

Lemma mu_mu_of : forall s, mu s = mu_of (pc s) (permits s).
Proof. reflexivity. Qed.

Lemma mu_of_mono : forall p n n', n <= n' -> mu_of p n' <= mu_of p n.
Proof.
  intros p n n' H. unfold mu_of. destruct (at_gate p); cbn [andb bool_nat]; [|lia].
  destruct n, n'; cbn; lia.
Qed.

Lemma other_ops : forall s o, o <> OBg ->
  pc (step41 s o) = pc s /\ permits s <= permits (step41 s o) /\
  (o <> OGrant -> permits (step41 s o) = permits s).
Proof.
  intros s o H. destruct o; unfold step41; try congruence.
  - destruct (sstate_eqb (cell s) NotStarted); cbn; auto.
  - destruct (cell s); cbn; auto.
  - cbn. repeat split; auto. congruence.
  - cbn; auto.
  - destruct (nth_error (aws s) i); cbn; auto.
Qed.

Lemma bg_done : forall s, pc s = BDone ->
  pc (step41 s OBg) = BDone /\ permits (step41 s OBg) = permits s.
Proof. intros s H. unfold step41. rewrite H, bstep_done. cbn. auto. Qed.

Lemma bg_blocked : forall s, blocked s = true ->
  pc (step41 s OBg) = pc s /\ permits (step41 s OBg) = permits s.
Proof.
  intros s H. unfold blocked in H. apply andb_true_iff in H. destruct H as [Hg Hp].
  unfold step41. rewrite Hp. cbn [negb]. rewrite bstep_blocked by exact Hg. cbn. auto.
Qed.

Lemma bg_enabled : forall s, requested s -> pc s <> BDone -> blocked s = false ->
  mu (step41 s OBg) < mu s.
Proof.
  intros s Hreq Hd Hb. unfold requested in Hreq.
  pose proof (bstep_facts_all (cell s) (pc s) (gp s) (negb (Nat.eqb (permits s) 0))
                              (iscript s) (hd RWaitStop (rscript s)) (sscript s)) as H.
  unfold bstep_facts in H.
  apply andb_true_iff in H. destruct H as [H _].
  apply andb_true_iff in H. destruct H as [_ Flive].
  assert (Hle : Nat.leb 3 (srank (cell s)) = true) by (apply Nat.leb_le; lia).
  assert (Hnd : bpc_eqb (pc s) BDone = false).
  { destruct (bpc_eqb (pc s) BDone) eqn:E; [|reflexivity]. apply bpc_eqb_eq in E. congruence. }
  unfold blocked_ctl in Flive. rewrite negb_involutive in Flive.
  unfold blocked in Hb. rewrite Hle, Hnd, Hb in Flive. cbn [negb andb implb] in Flive.
  apply andb_true_iff in Flive. destruct Flive as [Fl _]. apply Nat.ltb_lt in Fl.
  unfold mu, step41; cbn [pc permits].
  match goal with |- 2 * ?a + bool_nat ?b < _ => assert (bool_nat b <= 1) by (destruct b; cbn; lia) end.
  lia.
Qed.

Lemma mu_step_le : forall s o, requested s -> mu (step41 s o) <= mu s.
Proof.
  intros s o Hr. destruct (op_eq_dec o OBg) as [->|Hne].
  - destruct (bpc_eqb (pc s) BDone) eqn:Ed.
    + apply bpc_eqb_eq in Ed. destruct (bg_done s Ed) as [H1 H2].
      rewrite !mu_mu_of, H1, H2, Ed. lia.
    + destruct (blocked s) eqn:Eb.
      * destruct (bg_blocked s Eb) as [H1 H2]. rewrite !mu_mu_of, H1, H2. lia.
      * assert (pc s <> BDone) by (intro E; rewrite E in Ed; discriminate).
        pose proof (bg_enabled s Hr H Eb). lia.
  - destruct (other_ops s o Hne) as (H1 & H2 & _). rewrite !mu_mu_of, H1.
    apply mu_of_mono. exact H2.
Qed.

Lemma grant_blocked : forall s, blocked s = true -> mu (step41 s OGrant) < mu s.
Proof.
  intros s H. unfold blocked in H. apply andb_true_iff in H. destruct H as [Hg Hp].
  unfold mu, step41; cbn [pc permits]. rewrite Hg, Hp. cbn. lia.
Qed.

Lemma blocked_stays : forall s o, o <> OGrant -> blocked s = true ->
  blocked (step41 s o) = true /\ mu (step41 s o) = mu s.
Proof.
  intros s o Hne Hb. destruct (op_eq_dec o OBg) as [->|Hnb].
  - destruct (bg_blocked s Hb) as [H1 H2]. unfold blocked in *. rewrite !mu_mu_of, H1, H2. auto.
  - destruct (other_ops s o Hnb) as (H1 & _ & H3). specialize (H3 Hne).
    unfold blocked in *. rewrite !mu_mu_of, H1, H3. auto.
Qed.

Lemma mu_run_le : forall ops s, Inv s -> requested s -> mu (run41 s ops) <= mu s.
Proof.
  induction ops as [|o ops IH]; intros s Hi Hr; [cbn; lia|].
  cbn [run41 fold_left]. pose proof (mu_step_le s o Hr) as Hle.
  specialize (IH _ (Inv_step _ o Hi) (requested_step _ o Hr)). unfold run41 in *. lia.
Qed.

(* B can move: the first OBg of the segment makes progress *)
Lemma enabled_progress : forall seg s, Inv s -> requested s ->
  blocked s = false -> pc s <> BDone -> In OBg seg -> mu (run41 s seg) < mu s.
Proof.
  induction seg as [|o seg IH]; intros s Hi Hr Hb Hd Hin; [destruct Hin|].
  cbn [run41 fold_left]. pose proof (mu_step_le s o Hr) as Hle.
  destruct (op_eq_dec o OBg) as [->|Hne].
  - pose proof (bg_enabled s Hr Hd Hb) as Hbg.
    pose proof (mu_run_le seg _ (Inv_step _ OBg Hi) (requested_step _ OBg Hr)).
    unfold run41 in *. lia.
  - destruct Hin as [Hin|Hin]; [congruence|].
    destruct (other_ops s o Hne) as (Hpc & Hperm & _).
    assert (Hb' : blocked (step41 s o) = false).
    { unfold blocked in *. rewrite Hpc. destruct (at_gate (pc s)); [|reflexivity].
      cbn in *. apply Nat.eqb_neq in Hb. apply Nat.eqb_neq. lia. }
    assert (Hd' : pc (step41 s o) <> BDone) by (rewrite Hpc; exact Hd).
    specialize (IH _ (Inv_step _ o Hi) (requested_step _ o Hr) Hb' Hd' Hin).
    unfold run41 in *. lia.
Qed.

(* B waits at a gate: the first OGrant of the segment makes progress *)
Lemma blocked_progress : forall seg s, Inv s -> requested s ->
  blocked s = true -> In OGrant seg -> mu (run41 s seg) < mu s.
Proof.
  induction seg as [|o seg IH]; intros s Hi Hr Hb Hin; [destruct Hin|].
  cbn [run41 fold_left]. pose proof (mu_step_le s o Hr) as Hle.
  destruct (op_eq_dec o OGrant) as [->|Hne].
  - pose proof (grant_blocked s Hb) as Hg.
    pose proof (mu_run_le seg _ (Inv_step _ OGrant Hi) (requested_step _ OGrant Hr)).
    unfold run41 in *. lia.
  - destruct Hin as [Hin|Hin]; [congruence|].
    destruct (blocked_stays s o Hne Hb) as [Hb' Hmu].
    specialize (IH _ (Inv_step _ o Hi) (requested_step _ o Hr) Hb' Hin).
    unfold run41 in *. lia.
Qed.

Definition fair_seg (seg : list op) : Prop := In OGrant seg /\ In OBg seg.

Lemma done_stopped : forall s, Inv s -> mu s = 0 -> stopped (cell s) = true.
Proof.
  intros s (Hc & _) Hmu. unfold mu in Hmu.
  assert (pc s = BDone) by (destruct (pc s); cbn in Hmu; try lia; reflexivity).
  unfold inv_ctl in Hc. rewrite H in Hc. cbn in Hc.
  destruct (stopped (cell s)); [reflexivity|discriminate].
Qed.

Lemma seg_progress : forall seg s, Inv s -> requested s -> fair_seg seg ->
  mu (run41 s seg) < mu s \/ mu s = 0.
Proof.
  intros seg s Hi Hr [Hg Hb].
  destruct (blocked s) eqn:Eb.
  - left. apply blocked_progress; auto.
  - destruct (mu s) eqn:Em; [right; reflexivity|]. left. rewrite <- Em.
    apply enabled_progress; auto. intro Hd. unfold mu in Em. rewrite Hd in Em.
    cbn in Em. discriminate.
Qed.

Lemma requested_run : forall ops s, requested s -> requested (run41 s ops).
Proof.
  induction ops as [|o ops IH]; intros s H; [exact H|].
  cbn [run41 fold_left]. apply IH. apply requested_step. exact H.
Qed.

Lemma stop_reaches_stopped_all : forall segs s, reachable s -> requested s ->
  Forall fair_seg segs -> mu s <= length segs ->
  stopped (cell (run41 s (concat segs))) = true.
Proof.
  intros segs s Hreach. apply reachable_Inv in Hreach. revert s Hreach.
  induction segs as [|seg segs IH]; intros s Hi Hr Hf Hmu.
  - cbn [concat run41 fold_left length] in *. apply done_stopped; auto. lia.
  - inversion Hf; subst. cbn [concat]. rewrite run41_app.
    assert (Hi' := Inv_run seg _ Hi). assert (Hr' := requested_run seg _ Hr).
    apply IH; auto. cbn [length] in Hmu.
    destruct (seg_progress seg s Hi Hr H1) as [Hlt|Hz]; [lia|].
    pose proof (mu_run_le seg s Hi Hr). lia.
Qed.

Lemma mu_bound : forall s, mu s <= 13.
Proof.
  intro s. unfold mu. destruct (pc s); cbn [remaining at_gate andb bool_nat];
    try (destruct (Nat.eqb (permits s) 0)); cbn; lia.
Qed.

(* awaiters observe the stop *)
Fixpoint count_aw (i : nat) (ops : list op) : nat :=
  match ops with
  | [] => 0
  | OAw j :: r => (if Nat.eqb i j then 1 else 0) + count_aw i r
  | _ :: r => count_aw i r
  end.

Lemma nth_set_nth41_same : forall {A} (l : list A) i x a,
  nth_error l i = Some a -> nth_error (set_nth41 l i x) i = Some x.
Proof.
  induction l as [|y l IH]; intros i x a H; destruct i; cbn in *; try discriminate; eauto.
Qed.

Lemma nth_set_nth41_other : forall {A} (l : list A) i j x,
  i <> j -> nth_error (set_nth41 l j x) i = nth_error l i.
Proof.
  induction l as [|y l IH]; intros i j x H; destruct i, j; cbn; try reflexivity; try lia.
  apply IH. lia.
Qed.

(* state of awaiter i after the ops, when the cell is stopped throughout *)
Definition aw_progress (c : sstate) (a : awaiter) : nat :=
  match a_pc a with ADone _ => 0 | ACheck => 1 | AWaitChg => 2 end.

Lemma awaiter_returns : forall ops s i a, Inv s -> stopped (cell s) = true ->
  nth_error (aws s) i = Some a -> a_kind a = AStop ->
  aw_progress (cell s) a <= count_aw i ops ->
  exists a', nth_error (aws (run41 s ops)) i = Some a' /\ a_pc a' = ADone (cell s).
Proof.
  induction ops as [|o ops IH]; intros s i a Hi Hst Hn Hk Hc.
  - cbn in Hc. exists a. split; [exact Hn|].
    destruct Hi as (_ & _ & _ & _ & _ & Ha). rewrite Forall_forall in Ha.
    specialize (Ha a (nth_error_In _ _ Hn)). destruct Ha as (_ & _ & H3).
    unfold aw_progress in Hc. destruct (a_pc a) eqn:Ep; try lia.
    destruct (H3 r eq_refl) as [_ Hr]. rewrite (Hr Hk). reflexivity.
  - cbn [run41 fold_left].
    destruct (stopped_step s o Hi Hst) as (Hcell & _).
    assert (Hst' : stopped (cell (step41 s o)) = true) by (rewrite Hcell; exact Hst).
    assert (Hi' := Inv_step s o Hi).
    assert (Hgen : forall a1, nth_error (aws (step41 s o)) i = Some a1 -> a_kind a1 = AStop ->
                   aw_progress (cell s) a1 <= count_aw i ops ->
                   exists a', nth_error (aws (run41 (step41 s o) ops)) i = Some a' /\
                              a_pc a' = ADone (cell s)).
    { intros a1 H1 H2 H3. rewrite <- Hcell. apply (IH _ i a1); auto. }
    unfold run41 in *.
    destruct o.
    + apply (Hgen a);
        [unfold step41; destruct (sstate_eqb (cell s) NotStarted); exact Hn | exact Hk | exact Hc].
    + apply (Hgen a); [unfold step41; destruct (cell s); exact Hn | exact Hk | exact Hc].
    + apply (Hgen a); [exact Hn | exact Hk | exact Hc].
    + apply (Hgen a); [exact Hn | exact Hk | exact Hc].
    + (* spawn: the list only grows *)
      apply (Hgen a); [|exact Hk|exact Hc]. unfold step41; cbn [aws].
      rewrite nth_error_app1; [exact Hn|]. apply nth_error_Some. congruence.
    + (* an awaiter step *)
      cbn [count_aw] in Hc.
      destruct (Nat.eqb_spec i i0) as [<-|Hne].
      * unfold step41 in *. rewrite Hn in *. cbn [aws] in *.
        apply (Hgen (astep (cell s) (ver s) a)).
        -- eapply nth_set_nth41_same; eauto.
        -- unfold astep. destruct (a_pc a); [destruct (acond (a_kind a) (cell s))|
             destruct (Nat.eqb (ver s) (a_seen a))|]; cbn; auto.
        -- destruct Hi as (_ & _ & _ & _ & _ & Ha). rewrite Forall_forall in Ha.
           specialize (Ha a (nth_error_In _ _ Hn)). destruct Ha as (Hs1 & Hs2 & Hs3).
           unfold aw_progress, astep in *. destruct (a_pc a) eqn:Ep.
           ++ rewrite Hk. cbn [acond]. rewrite Hst. cbn. lia.
           ++ destruct (Nat.eqb_spec (ver s) (a_seen a)) as [He|He].
              ** symmetry in He. specialize (Hs2 eq_refl He). rewrite Hk in Hs2. cbn in Hs2.
                 congruence.
              ** cbn. lia.
           ++ rewrite Ep. lia.
      * apply (Hgen a); [|exact Hk|].
        -- unfold step41. destruct (nth_error (aws s) i0); cbn [aws]; [|exact Hn].
           rewrite nth_set_nth41_other; auto.
        -- destruct (Nat.eqb_spec i i0); [congruence|]. cbn in Hc. exact Hc.
Qed.

Lemma awaiters_observe_all : forall s ops i a, reachable s -> stopped (cell s) = true ->
  nth_error (aws s) i = Some a -> a_kind a = AStop -> 2 <= count_aw i ops ->
  exists a', nth_error (aws (run41 s ops)) i = Some a' /\ a_pc a' = ADone (cell s).
Proof.
  intros s ops i a Hr Hst Hn Hk Hc. apply reachable_Inv in Hr.
  apply (awaiter_returns ops s i a); auto.
  unfold aw_progress. destruct (a_pc a); lia.
Qed.

(* an await_stop future only ever returns a stopped state, the final one *)
Lemma awaiter_result_all : forall s i a r, reachable s ->
  nth_error (aws s) i = Some a -> a_kind a = AStop -> a_pc a = ADone r ->
  stopped r = true /\ r = cell s.
Proof.
  intros s i a r Hr Hn Hk Hp. apply reachable_Inv in Hr.
  destruct Hr as (_ & _ & _ & _ & _ & Ha). rewrite Forall_forall in Ha.
  specialize (Ha a (nth_error_In _ _ Hn)). destruct Ha as (_ & _ & H3).
  destruct (H3 r Hp) as [Hc He]. rewrite Hk in Hc. cbn in Hc. split; auto.
Qed.

(* ---------- the trace checker ---------- *)
Definition pair_ok (a b : obs) : Prop := pair_okb a b = true.

Inductive chain : obs -> list obs -> Prop :=
| chain_nil : forall p, chain p []
| chain_cons : forall p o r, pair_ok p o -> chain o r -> chain p (o :: r).

Lemma chainb_sound : forall l p, chainb p l = true <-> chain p l.
Proof.
  induction l as [|o l IH]; intro p; cbn [chainb]; split; intro H.
  - constructor.
  - reflexivity.
  - apply andb_true_iff in H. destruct H as [H1 H2]. constructor; [exact H1|apply IH; exact H2].
  - inversion H as [|? ? ? Hp Hc']; subst. apply andb_true_iff. split; [exact Hp|apply IH; exact Hc'].
Qed.

(* non-vacuity: a full life cycle start / into_task / run / stop / shutdown with an awaiter *)
Example demo41 :
  map (fun o => (o_cell o, o_into o, o_run o, o_shut o, o_aw o))
      (trace41 (settle41 (init_sys IOk [RContinue] SOk))
               [OSpawn AStop; OStart; OGrant; OGrant; OStop; OGrant; OGrant; OStart])
  = [(NotStarted, 0, 0, 0, [None]); (Starting, 0, 0, 0, [None]); (Started, 1, 0, 0, [None]);
     (Started, 1, 1, 0, [None]); (Stopping, 1, 1, 0, [None]); (Stopping, 1, 2, 0, [None]);
     (Stopped, 1, 2, 1, [Some Stopped]); (Stopped, 1, 2, 1, [Some Stopped])].
Proof. vm_compute. reflexivity. Qed.

(* ---------- statements used by Properties.v ---------- *)
Lemma state_forward_prop : forall io rs so ops1 ops2,
  let s1 := run41 (init_sys io rs so) ops1 in
  let s2 := run41 (init_sys io rs so) (ops1 ++ ops2) in
  cell s1 = cell s2 \/ srank (cell s1) < srank (cell s2).
Proof. intros. apply fwdb_spec. apply state_forward_all. Qed.

Lemma astep_kind : forall c v a, a_kind (astep c v a) = a_kind a.
Proof.
  intros. unfold astep. destruct (a_pc a); [destruct (acond (a_kind a) c)|
    destruct (Nat.eqb v (a_seen a))|]; reflexivity.
Qed.

Lemma aw_kind_step : forall s o i a, nth_error (aws s) i = Some a ->
  exists a1, nth_error (aws (step41 s o)) i = Some a1 /\ a_kind a1 = a_kind a.
Proof.
  intros s o i a Hn. destruct o; unfold step41.
  - destruct (sstate_eqb (cell s) NotStarted); exists a; auto.
  - destruct (cell s); exists a; auto.
  - exists a; auto.
  - exists a; auto.
  - exists a. cbn [aws]. split; [|reflexivity].
    rewrite nth_error_app1; [exact Hn|]. apply nth_error_Some. congruence.
  - destruct (nth_error (aws s) i0) as [b|] eqn:Eb; [|exists a; auto]. cbn [aws].
    destruct (Nat.eq_dec i i0) as [<-|Hne].
    + exists (astep (cell s) (ver s) b). split; [eapply nth_set_nth41_same; eauto|].
      rewrite astep_kind. congruence.
    + exists a. split; [|reflexivity]. rewrite nth_set_nth41_other; auto.
Qed.

Lemma aw_kind_run : forall ops s i a, nth_error (aws s) i = Some a ->
  exists a1, nth_error (aws (run41 s ops)) i = Some a1 /\ a_kind a1 = a_kind a.
Proof.
  induction ops as [|o ops IH]; intros s i a Hn; [exists a; auto|].
  cbn [run41 fold_left]. destruct (aw_kind_step s o i a Hn) as (a1 & H1 & K1).
  destruct (IH _ i a1 H1) as (a2 & H2 & K2). exists a2. split; [exact H2|congruence].
Qed.

Lemma reachable_run : forall s ops, reachable s -> reachable (run41 s ops).
Proof.
  intros s ops (io & rs & so & ops0 & ->). exists io, rs, so, (ops0 ++ ops).
  symmetry. apply run41_app.
Qed.

Lemma await_stop_returns_all : forall s segs ops i a,
  reachable s -> 3 <= srank (cell s) ->
  Forall fair_seg segs -> 13 <= length segs ->
  let s' := run41 s (concat segs) in
  stopped (cell s') = true /\
  (nth_error (aws s) i = Some a -> a_kind a = AStop -> 2 <= count_aw i ops ->
   exists a', nth_error (aws (run41 s' ops)) i = Some a' /\ a_pc a' = ADone (cell s')).
Proof.
  intros s segs ops i a Hr Hreq Hf Hlen s'.
  assert (Hst : stopped (cell s') = true).
  { apply stop_reaches_stopped_all; auto. pose proof (mu_bound s). lia. }
  split; [exact Hst|]. intros Hn Hk Hc.
  destruct (aw_kind_run (concat segs) s i a Hn) as (a1 & H1 & K1).
  apply (awaiters_observe_all s' ops i a1); auto.
  - apply reachable_run. exact Hr.
  - congruence.
Qed.

Definition pair_spec (a b : obs) : Prop :=
  (o_cell a = o_cell b \/ srank (o_cell a) < srank (o_cell b)) /\
  o_into a <= o_into b /\ o_run a <= o_run b /\ o_shut a <= o_shut b /\
  (stopped (o_cell a) = true ->
   o_cell a = o_cell b /\ o_into a = o_into b /\ o_run a = o_run b /\ o_shut a = o_shut b) /\
  aw_stable (o_aw a) (o_aw b) = true.

Lemma pair_okb_spec : forall a b, pair_okb a b = true <-> pair_spec a b.
Proof.
  intros a b. unfold pair_okb, pair_spec.
  rewrite !andb_true_iff, fwdb_spec, !Nat.leb_le, orb_true_iff, negb_true_iff,
          !andb_true_iff, !Nat.eqb_eq, sstate_eqb_eq.
  split.
  - intros (((((H1 & H2) & H3) & H4) & H5) & H6).
    split; [exact H1|]. split; [exact H2|]. split; [exact H3|]. split; [exact H4|].
    split; [|exact H6]. intro Hs. destruct H5 as [H5|H5]; [congruence|].
    destruct H5 as (((E1 & E2) & E3) & E4). auto.
  - intros (H1 & H2 & H3 & H4 & H5 & H6). repeat split; auto.
    destruct (stopped (o_cell a)) eqn:E; [right|left; reflexivity].
    destruct (H5 eq_refl) as (E1 & E2 & E3 & E4). auto.
Qed.

Lemma chainb_spec : forall l p, chainb p l = true <->
  (fix go p l := match l with [] => True | o :: r => pair_spec p o /\ go o r end) p l.
Proof.
  induction l as [|o l IH]; intro p; cbn [chainb]; [tauto|].
  rewrite andb_true_iff, pair_okb_spec, IH. tauto.
Qed.

(* ---------- every await (ServiceRunner and StateWatcher) returns ---------- *)
Lemma settled_acond : forall k c, settled k c = true -> acond k c = true.
Proof. destruct k, c; cbn; intro H; try reflexivity; discriminate. Qed.

Lemma settled_fwd : forall k c c', settled k c = true -> fwdb c c' = true -> settled k c' = true.
Proof. destruct k, c, c'; cbn; intros; try reflexivity; discriminate. Qed.

Definition is_aw (i : nat) (o : op) : bool :=
  match o with OAw j => Nat.eqb i j | _ => false end.

Lemma aw_step_exact : forall s o i a, nth_error (aws s) i = Some a ->
  nth_error (aws (step41 s o)) i =
  Some (if is_aw i o then astep (cell s) (ver s) a else a).
Proof.
  intros s o i a Hn. destruct o; unfold step41; cbn [is_aw].
  - destruct (sstate_eqb (cell s) NotStarted); exact Hn.
  - destruct (cell s); exact Hn.
  - exact Hn.
  - exact Hn.
  - cbn [aws]. rewrite nth_error_app1; [exact Hn|]. apply nth_error_Some. congruence.
  - destruct (Nat.eqb_spec i i0) as [<-|Hne].
    + rewrite Hn. cbn [aws]. eapply nth_set_nth41_same; eauto.
    + destruct (nth_error (aws s) i0); cbn [aws]; [|exact Hn].
      rewrite nth_set_nth41_other; auto.
Qed.

Lemma count_aw_cons : forall i o ops,
  count_aw i (o :: ops) = (if is_aw i o then 1 else 0) + count_aw i ops.
Proof. intros. destruct o; reflexivity. Qed.

Definition aw_left (a : awaiter) : nat :=
  match a_pc a with ADone _ => 0 | ACheck => 1 | AWaitChg => 2 end.

Lemma astep_progress : forall c v a, aw_inv c v a -> settled (a_kind a) c = true ->
  aw_left (astep c v a) <= aw_left a - 1.
Proof.
  intros c v a (H1 & H2 & H3) Hs. apply settled_acond in Hs.
  unfold aw_left, astep. destruct (a_pc a) eqn:Ep.
  - rewrite Hs. cbn. lia.
  - destruct (Nat.eqb_spec v (a_seen a)) as [He|He].
    + symmetry in He. specialize (H2 eq_refl He). congruence.
    + cbn. lia.
  - rewrite Ep. lia.
Qed.

Lemma awaiter_returns_gen : forall ops s i a, Inv s ->
  nth_error (aws s) i = Some a -> settled (a_kind a) (cell s) = true ->
  aw_left a <= count_aw i ops ->
  exists a' r, nth_error (aws (run41 s ops)) i = Some a' /\ a_kind a' = a_kind a /\
               a_pc a' = ADone r /\ acond (a_kind a) r = true.
Proof.
  induction ops as [|o ops IH]; intros s i a Hi Hn Hs Hc.
  - cbn in Hc. unfold aw_left in Hc. destruct (a_pc a) as [| |r] eqn:Ep; try lia.
    exists a, r. repeat split; auto.
    destruct Hi as (_ & _ & _ & _ & _ & Ha). rewrite Forall_forall in Ha.
    destruct (Ha a (nth_error_In _ _ Hn)) as (_ & _ & H3). apply (H3 r Ep).
  - cbn [run41 fold_left]. rewrite count_aw_cons in Hc.
    pose proof (aw_step_exact s o i a Hn) as Hn'.
    assert (Hinv : aw_inv (cell s) (ver s) a).
    { destruct Hi as (_ & _ & _ & _ & _ & Ha). rewrite Forall_forall in Ha.
      apply Ha. eapply nth_error_In; eauto. }
    set (a1 := if is_aw i o then astep (cell s) (ver s) a else a) in *.
    assert (Hk : a_kind a1 = a_kind a).
    { unfold a1. destruct (is_aw i o); [apply astep_kind|reflexivity]. }
    assert (Hs' : settled (a_kind a1) (cell (step41 s o)) = true).
    { rewrite Hk. eapply settled_fwd; [exact Hs|apply fwd_step]. }
    assert (Hc' : aw_left a1 <= count_aw i ops).
    { unfold a1. destruct (is_aw i o).
      - pose proof (astep_progress _ _ _ Hinv Hs). lia.
      - lia. }
    destruct (IH _ i a1 (Inv_step _ o Hi) Hn' Hs' Hc') as (a' & r & G1 & G2 & G3 & G4).
    exists a', r. unfold run41 in *. repeat split; auto; congruence.
Qed.

Lemma every_await_returns_all : forall s ops i a, reachable s ->
  nth_error (aws s) i = Some a -> settled (a_kind a) (cell s) = true ->
  2 <= count_aw i ops ->
  exists a' r, nth_error (aws (run41 s ops)) i = Some a' /\ a_kind a' = a_kind a /\
               a_pc a' = ADone r /\ acond (a_kind a) r = true.
Proof.
  intros s ops i a Hr Hn Hs Hc. apply reachable_Inv in Hr.
  apply awaiter_returns_gen; auto. unfold aw_left. destruct (a_pc a); lia.
Qed.

(* ---------- HISTORY (not the current code) ----------
   Before the `fix:` commit in /repo, StateWatcher::wait_stopping_or_stopped was
       let state = self.borrow().clone();
       while !(state.stopped() || state.stopping()) { self.changed().await?; }
       Ok(())
   i.e. the state was read ONCE, before the loop.  The program below is that old code; called
   while the cell is Started it never returns, whatever happens to the cell afterwards (witness:
   Started -> Stopping -> Stopped).  Reproduced on the real crate by ./check C41 (input
   (0 (0) 0 (0 2 7 1 2 2)): the future is still pending with the state Stopping / Stopped). *)
Inductive old_pc := OldRead | OldTest (latched : bool) | OldWait (latched : bool) | OldDone.

Definition old_step (c : sstate) (v : nat) (st : old_pc * nat) : old_pc * nat :=
  match fst st with
  | OldRead => (OldTest (acond AWaitStopping c), snd st)
  | OldTest true => (OldDone, snd st)
  | OldTest false => (OldWait false, snd st)
  | OldWait l => if Nat.eqb v (snd st) then st else (OldTest l, v)
  | OldDone => st
  end.

Definition old_run (st : old_pc * nat) (cvs : list (sstate * nat)) : old_pc * nat :=
  fold_left (fun st cv => old_step (fst cv) (snd cv) st) cvs st.

Lemma old_wait_stopping_never_returns : forall cvs st,
  fst st = OldTest false \/ fst st = OldWait false ->
  fst (old_run st cvs) <> OldDone.
Proof.
  induction cvs as [|[c v] cvs IH]; intros [p seen] H; cbn [old_run fold_left fst snd] in *.
  - destruct H as [H|H]; rewrite H; discriminate.
  - apply IH. unfold old_step; cbn [fst snd]. destruct H as [H|H]; rewrite H.
    + right. reflexivity.
    + destruct (Nat.eqb v seen); cbn [fst]; [right|left]; reflexivity.
Qed.

Example old_wait_stopping_witness :
  (* called while Started (version 2), then stop is requested and the service stops *)
  fst (old_run (OldRead, 2)
               [(Started, 2); (Started, 2); (Stopping, 3); (Stopping, 3); (Stopped, 4);
                (Stopped, 4); (Stopped, 4)]) = OldWait false.
Proof. reflexivity. Qed.
