(* Svc cluster: T codecs and the entry point main_T used by the correspondence check.
   Executable definitions only. *)
From FC Require Export Svc.Model Svc.SeqlockProg Svc.Model41.
Open Scope N_scope.

Definition tNat (n : nat) : T := tN (N.of_nat n).
Definition getNat (t : T) : option nat := option_map N.to_nat (getN t).

(* ------------------------------------------------------------------ *)
(* C42 *)

Definition event_T (e : event) : T :=
  L [tNat (e_rid e); tNat (e_c0 e); tNat (e_done e); tListN (e_val e)].
Definition T_event (t : T) : option event :=
  match t with
  | L [r; c; d; v] =>
      match getNat r, getNat c, getNat d, getListN v with
      | Some r, Some c, Some d, Some v => Some (mkE r c d 0 v)
      | _, _, _, _ => None
      end
  | _ => None
  end.

(* a call of write: ((words) ()) returns, ((words) (j)) panics after j words *)
Definition T_wcall (t : T) : option wcall :=
  match t with
  | L [v; o] => match getListN v, getOptN o with
                | Some v, Some o => Some (v, option_map N.to_nat o)
                | _, _ => None
                end
  | _ => None
  end.
Definition T_wq (t : T) : option (list wcall) :=
  match getL t with Some l => mapM T_wcall l | None => None end.

Definition tid_of (nw : nat) (n : N) : tid :=
  let i := N.to_nat n in if Nat.ltb i nw then TW i else TR (i - nw).

Definition macro_run (k : nat) (st : state) (sched : list tid) : state :=
  fold_left (macro_step k write_prog read_prog write_points read_points) sched st.

Definition positions (st : state) : list nat :=
  map (fun w => index_of (wpc w) write_points 0) (ws st) ++
  map (fun r => (length write_points + index_of (rpc r) read_points 0)%nat) (rs st).

(* Pcheck of C42 on the implementation's list of read returns *)
Definition reads_okb (k : nat) (init : list N) (wqs : list (list wcall)) (evs : list event) : bool :=
  match wqs with
  | [writes] => forallb (ev_okb k init writes) evs
  | _ => forallb (ev_completeb init wqs) evs
  end.

(* inputs the generator can emit: 1..8 words, all values of k words.  On anything else
   (reachable only through the generic shrinker) Pcheck is vacuously true. *)
Definition wf42 (k : nat) (init : list N) (wqs : list (list wcall)) : bool :=
  Nat.leb 1 k && Nat.leb k 8 && Nat.eqb (length init) k &&
  forallb (forallb (fun w : wcall => Nat.eqb (length (fst w)) k)) wqs.

Definition main42 (input observed : T) : T :=
  match input with
  | L [I 0%Z; k; init; L wqs; nr; sched] =>
      match getNat k, getListN init, mapM T_wq wqs, getNat nr, getListN sched with
      | Some k, Some init, Some wqs, Some nr, Some sched =>
          let st := macro_run k (init_state seq_init init wqs nr)
                              (map (tid_of (length wqs)) sched) in
          let model := L [L (map event_T (rev (log st))); tNat (done_of (ws st));
                          L (map tNat (positions st))] in
          let pc := match observed with
                    | L [L evs; _; _] =>
                        match mapM T_event evs with
                        | Some evs => negb (wf42 k init wqs) || reads_okb k init wqs evs
                        | None => false
                        end
                    | _ => false
                    end in
          L [model; tB pc]
      | _, _, _, _, _ => tErr 2
      end
  | L [I 1%Z; nwrites; nreaders; nreads; _] =>
      (* free-running stress: the observation is (torn, stale, non-monotone, total reads) *)
      match getN nwrites, getN nreaders, getN nreads with
      | Some _, Some r, Some n =>
          let model := L [tN 0; tN 0; tN 0; tN (r * n)] in
          let pc := match observed with
                    | L [I 0%Z; I 0%Z; I 0%Z; _] => true
                    | _ => false
                    end in
          L [model; tB pc]
      | _, _, _ => tErr 2
      end
  | _ => tErr 1
  end.

Definition main_T (req : T) : T :=
  match req with
  | L [I 41%Z; input; observed] => main41 input observed
  | L [I 42%Z; input; observed] => main42 input observed
  | _ => tErr 0
  end.
