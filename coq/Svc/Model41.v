(* C41: the life cycle of fuel-core-services' ServiceRunner
     crates/services/src/service.rs  (start / stop / _await_stop / _await_start_or_stop,
                                      initialize_loop, run, run_task, shutdown_task)
     crates/services/src/state.rs    (State)
   as interleavings of atomic steps on the tokio watch cell.

   Threads of the model: client calls (start, stop), the background task B spawned by
   initialize_loop, and awaiters (await_stop / await_start_or_stop futures).  The user task's
   into_task / run / shutdown have SCRIPTED outcomes; each of the three calls first passes a
   gate (a permit granted by the environment, op OGrant), which stands for "the call takes
   time and then returns".  RWaitStop is a run() that awaits StateWatcher::while_started and
   then returns Continue.  tokio's watch is modelled by the cell value and a version counter;
   B's two waits on the watch are modelled by their wake-up condition (cell <> NotStarted for
   the changed() in run, cell <> Started for while_started), which is equivalent because the
   cell never returns to an earlier state.  Executable definitions only. *)
From FC Require Export Common.T.

Inductive sstate := NotStarted | Starting | Started | Stopping | Stopped | StoppedWithError.

Definition sstate_eqb (a b : sstate) : bool :=
  match a, b with
  | NotStarted, NotStarted | Starting, Starting | Started, Started
  | Stopping, Stopping | Stopped, Stopped | StoppedWithError, StoppedWithError => true
  | _, _ => false
  end.

Definition stopped (s : sstate) : bool :=
  match s with Stopped | StoppedWithError => true | _ => false end.

Definition srank (s : sstate) : nat :=
  match s with
  | NotStarted => 0 | Starting => 1 | Started => 2 | Stopping => 3
  | Stopped => 4 | StoppedWithError => 4
  end.

(* "moves forward": unchanged, or strictly later in
   NotStarted < Starting < Started < Stopping < {Stopped, StoppedWithError} *)
Definition fwdb (a b : sstate) : bool := sstate_eqb a b || Nat.ltb (srank a) (srank b).

(* program counter of the background task *)
Inductive bpc :=
| BInit         (* run: state.borrow_and_update().not_started() ?                              *)
| BWaitStart    (* run: state.changed().await                                                  *)
| BCheckStart   (* run: if !state.borrow().starting() { return }                               *)
| BGateInto     (* run: service.into_task(..).await   (Err => panic)                           *)
| BSetStarted   (* run: send_if_modified(starting -> Started)                                  *)
| BLoopHead     (* run_task: while state.borrow_and_update().started()                         *)
| BGateRun      (* run_task: task.run(&mut state).catch_unwind().await                         *)
| BRunWait      (* inside a scripted run(): watcher.while_started().await                      *)
| BGateShut     (* shutdown_task: task.shutdown().catch_unwind().await                         *)
| BResume       (* run: if let Some(panic) = got_panic { resume_unwind }                       *)
| BFinal        (* initialize_loop: send_if_modified(!stopped -> Stopped | StoppedWithError)   *)
| BDone.

Inductive ioutcome := IOk | IErr | IPanic.
Inductive routcome := RContinue | RStop | RErrorContinue | RPanic | RWaitStop.
Inductive soutcome := SOk | SErr | SPanic.

(* result of one atomic step of B on the finite control state *)
Record bres := mkB { b_cell : sstate; b_pc : bpc; b_gp : bool;
                     b_used : bool;              (* a permit was consumed *)
                     b_into : bool; b_run : bool; b_shut : bool   (* which user function was called *) }.

Definition bstep (cell : sstate) (pc : bpc) (gp permit : bool)
                 (io : ioutcome) (ro : routcome) (so : soutcome) : bres :=
  let stay := mkB cell pc gp false false false false in
  let goto p := mkB cell p gp false false false false in
  match pc with
  | BInit => if sstate_eqb cell NotStarted then goto BWaitStart else goto BCheckStart
  | BWaitStart => if sstate_eqb cell NotStarted then stay else goto BCheckStart
  | BCheckStart => if sstate_eqb cell Starting then goto BGateInto else goto BFinal
  | BGateInto =>
      if permit then
        match io with
        | IOk => mkB cell BSetStarted gp true true false false
        | IErr | IPanic => mkB cell BFinal true true true false false
        end
      else stay
  | BSetStarted =>
      mkB (if sstate_eqb cell Starting then Started else cell) BLoopHead gp false false false false
  | BLoopHead => if sstate_eqb cell Started then goto BGateRun else goto BGateShut
  | BGateRun =>
      if permit then
        match ro with
        | RContinue | RErrorContinue => mkB cell BLoopHead gp true false true false
        | RStop => mkB cell BGateShut gp true false true false
        | RPanic => mkB cell BGateShut true true false true false
        | RWaitStop => mkB cell BRunWait gp true false true false
        end
      else stay
  | BRunWait => if sstate_eqb cell Started then stay else goto BLoopHead
  | BGateShut =>
      if permit then
        match so with
        | SOk | SErr => mkB cell BResume gp true false false true
        | SPanic => mkB cell BResume true true false false true
        end
      else stay
  | BResume => goto BFinal
  | BFinal =>
      mkB (if stopped cell then cell else if gp then StoppedWithError else Stopped)
          BDone gp false false false false
  | BDone => stay
  end.

(* awaiters *)
(* AStop / AStartOrStop: ServiceRunner::_await_stop / _await_start_or_stop (service.rs);
   AWhileStarted / AWaitStopping: StateWatcher::while_started / wait_stopping_or_stopped
   (state.rs).  All four are the same small program over the watch cell:
       loop { let state = borrow().clone(); if <cond state> { return }; changed().await? }   *)
Inductive akind := AStop | AStartOrStop | AWhileStarted | AWaitStopping.
Inductive apc := ACheck | AWaitChg | ADone (r : sstate).
Record awaiter := mkA { a_kind : akind; a_pc : apc; a_seen : nat }.

Definition acond (k : akind) (c : sstate) : bool :=
  match k with
  | AStop => stopped c
  | AStartOrStop => negb (sstate_eqb c Starting)
  | AWhileStarted => negb (sstate_eqb c Started)                 (* !state.started() *)
  | AWaitStopping => stopped c || sstate_eqb c Stopping          (* state.stopped() || state.stopping() *)
  end.

(* from when on the condition of an await holds for good (the cell only moves forward) *)
Definition settled (k : akind) (c : sstate) : bool :=
  match k with
  | AStop => stopped c
  | AStartOrStop => Nat.leb 2 (srank c)
  | AWhileStarted | AWaitStopping => Nat.leb 3 (srank c)
  end.

Definition astep (cell : sstate) (ver : nat) (a : awaiter) : awaiter :=
  match a_pc a with
  | ACheck => if acond (a_kind a) cell then mkA (a_kind a) (ADone cell) (a_seen a)
              else mkA (a_kind a) AWaitChg (a_seen a)
  | AWaitChg => if Nat.eqb ver (a_seen a) then a else mkA (a_kind a) ACheck ver
  | ADone _ => a
  end.

Record sys := mkSys {
  cell : sstate; ver : nat; pc : bpc; gp : bool; permits : nat;
  iscript : ioutcome; rscript : list routcome; sscript : soutcome;
  n_into : nat; n_run : nat; n_shut : nat;
  aws : list awaiter }.

Inductive op := OStart | OStop | OGrant | OBg | OSpawn (k : akind) | OAw (i : nat).

Fixpoint set_nth41 {A} (l : list A) (i : nat) (x : A) : list A :=
  match l, i with
  | [], _ => []
  | _ :: r, O => x :: r
  | y :: r, S i' => y :: set_nth41 r i' x
  end.

Definition bool_nat (b : bool) : nat := if b then 1%nat else 0%nat.

Definition step41 (s : sys) (o : op) : sys :=
  match o with
  | OStart =>
      if sstate_eqb (cell s) NotStarted
      then mkSys Starting (S (ver s)) (pc s) (gp s) (permits s) (iscript s) (rscript s) (sscript s)
                 (n_into s) (n_run s) (n_shut s) (aws s)
      else s
  | OStop =>
      match cell s with
      | NotStarted | Starting | Started =>
          mkSys Stopping (S (ver s)) (pc s) (gp s) (permits s) (iscript s) (rscript s) (sscript s)
                (n_into s) (n_run s) (n_shut s) (aws s)
      | _ => s
      end
  | OGrant =>
      mkSys (cell s) (ver s) (pc s) (gp s) (S (permits s)) (iscript s) (rscript s) (sscript s)
            (n_into s) (n_run s) (n_shut s) (aws s)
  | OBg =>
      let r := bstep (cell s) (pc s) (gp s) (negb (Nat.eqb (permits s) 0))
                     (iscript s) (hd RWaitStop (rscript s)) (sscript s) in
      mkSys (b_cell r) (if sstate_eqb (b_cell r) (cell s) then ver s else S (ver s))
            (b_pc r) (b_gp r) (if b_used r then pred (permits s) else permits s)
            (iscript s) (if b_run r then tl (rscript s) else rscript s) (sscript s)
            (n_into s + bool_nat (b_into r)) (n_run s + bool_nat (b_run r))
            (n_shut s + bool_nat (b_shut r)) (aws s)
  | OSpawn k =>
      mkSys (cell s) (ver s) (pc s) (gp s) (permits s) (iscript s) (rscript s) (sscript s)
            (n_into s) (n_run s) (n_shut s) (aws s ++ [mkA k ACheck (ver s)])
  | OAw i =>
      match nth_error (aws s) i with
      | None => s
      | Some a =>
          mkSys (cell s) (ver s) (pc s) (gp s) (permits s) (iscript s) (rscript s) (sscript s)
                (n_into s) (n_run s) (n_shut s) (set_nth41 (aws s) i (astep (cell s) (ver s) a))
      end
  end.

Definition run41 (s : sys) (ops : list op) : sys := fold_left step41 ops s.

Definition init_sys (io : ioutcome) (rs : list routcome) (so : soutcome) : sys :=
  mkSys NotStarted 0 BInit false 0 io rs so 0 0 0 [].

(* return value of the client calls: start() is Ok / stop() is true *)
Definition op_ret (s : sys) (o : op) : Z :=
  match o with
  | OStart => if sstate_eqb (cell s) NotStarted then 1 else 0
  | OStop => match cell s with NotStarted | Starting | Started => 1 | _ => 0 end
  | _ => (-1)
  end%Z.

(* ---- what the harness does after every client op: everything runnable runs until it
   blocks (B first, then every awaiter; awaiters do not influence B) ---- *)
Fixpoint iter {A} (n : nat) (f : A -> A) (x : A) : A :=
  match n with O => x | S n' => iter n' f (f x) end.

Definition settle_ops (s : sys) : list op :=
  repeat OBg (16 + 2 * permits s) ++ flat_map (fun i => [OAw i; OAw i; OAw i]) (seq 0 (length (aws s))).

Definition settle41 (s : sys) : sys := run41 s (settle_ops s).

(* ---- measure used by the liveness theorem: steps B still has to take once a stop was
   requested (cell = Stopping), plus one if it waits at a gate without a permit ---- *)
Definition remaining (p : bpc) : nat :=
  match p with
  | BDone => 0 | BFinal => 1 | BResume => 2 | BGateShut => 3 | BLoopHead => 4
  | BRunWait => 5 | BSetStarted => 5 | BGateRun => 6 | BGateInto => 6
  | BCheckStart => 2 | BWaitStart => 3 | BInit => 4
  end.
Definition at_gate (p : bpc) : bool :=
  match p with BGateInto | BGateRun | BGateShut => true | _ => false end.
Definition mu (s : sys) : nat :=
  (2 * remaining (pc s) + bool_nat (at_gate (pc s) && Nat.eqb (permits s) 0))%nat.

(* order of the program counters of B (the run loop is one level) *)
Definition brank (p : bpc) : nat :=
  match p with
  | BInit => 0 | BWaitStart => 1 | BCheckStart => 2 | BGateInto => 3 | BSetStarted => 4
  | BLoopHead | BGateRun | BRunWait => 5
  | BGateShut => 6 | BResume => 7 | BFinal => 8 | BDone => 9
  end.

(* ---- the observation trace and its decidable checker (Pcheck of C41) ---- *)
Record obs := mkO { o_ret : Z; o_cell : sstate; o_into : nat; o_run : nat; o_shut : nat;
                    o_aw : list (option sstate) }.

(* What is observed of a returned await.  For the two StateWatcher waits the exact state seen
   at the return depends on whether tokio polls the awaiter or the background task first after
   a stop (both are woken by the same send; the order is not fixed), so Stopping / Stopped /
   StoppedWithError are observed as one class there; wait_stopping_or_stopped returns () anyway. *)
Definition canon (k : akind) (r : sstate) : sstate :=
  match k with
  | AWhileStarted | AWaitStopping => if Nat.leb 3 (srank r) then Stopping else r
  | _ => r
  end.
Definition aw_result (a : awaiter) : option sstate :=
  match a_pc a with ADone r => Some (canon (a_kind a) r) | _ => None end.

Definition observe (ret : Z) (s : sys) : obs :=
  mkO ret (cell s) (n_into s) (n_run s) (n_shut s) (map aw_result (aws s)).

Fixpoint trace41 (s : sys) (ops : list op) : list obs :=
  match ops with
  | [] => []
  | o :: r => let s' := settle41 (step41 s o) in observe (op_ret s o) s' :: trace41 s' r
  end.

Definition osstate_eqb (a b : option sstate) : bool :=
  match a, b with
  | None, None => true
  | Some x, Some y => sstate_eqb x y
  | _, _ => false
  end.

(* one awaiter slot between two consecutive observations: a result never changes *)
Fixpoint aw_stable (a b : list (option sstate)) : bool :=
  match a, b with
  | [], _ => true
  | x :: a', y :: b' => (match x with None => true | Some _ => osstate_eqb x y end) && aw_stable a' b'
  | _ :: _, [] => false
  end.

(* consecutive observations *)
Definition pair_okb (a b : obs) : bool :=
  fwdb (o_cell a) (o_cell b) &&
  Nat.leb (o_into a) (o_into b) && Nat.leb (o_run a) (o_run b) && Nat.leb (o_shut a) (o_shut b) &&
  (* a stopped service never runs again *)
  (negb (stopped (o_cell a)) ||
   (sstate_eqb (o_cell a) (o_cell b) && Nat.eqb (o_into a) (o_into b) &&
    Nat.eqb (o_run a) (o_run b) && Nat.eqb (o_shut a) (o_shut b))) &&
  aw_stable (o_aw a) (o_aw b).

(* one observation (awaiter kinds come from the input) *)
Definition obs_okb (kinds : list akind) (o : obs) : bool :=
  Nat.leb (o_into o) 1 && Nat.leb (o_shut o) 1 &&
  Nat.eqb (length (o_aw o)) (length kinds) &&
  forallb (fun kr : akind * option sstate =>
             match kr with
             | (AStop, Some r) => stopped r && sstate_eqb r (o_cell o)
             | (AStop, None) => negb (stopped (o_cell o))     (* awaiters observe the stop *)
             | (AStartOrStop, Some r) => negb (sstate_eqb r Starting)
             | (AStartOrStop, None) => sstate_eqb (o_cell o) Starting
             | (AWhileStarted, Some r) => negb (sstate_eqb r Started)
             | (AWhileStarted, None) => sstate_eqb (o_cell o) Started
             (* wait_stopping_or_stopped has returned as soon as the cell is stopping/stopped *)
             | (AWaitStopping, Some r) => Nat.leb 3 (srank r)
             | (AWaitStopping, None) => Nat.ltb (srank (o_cell o)) 3
             end) (combine kinds (o_aw o)).

Fixpoint chainb (prev : obs) (l : list obs) : bool :=
  match l with
  | [] => true
  | o :: r => pair_okb prev o && chainb o r
  end.

(* awaiter kinds present after each op *)
Fixpoint kinds_after (ks : list akind) (ops : list op) : list (list akind) :=
  match ops with
  | [] => []
  | OSpawn k :: r => (ks ++ [k]) :: kinds_after (ks ++ [k]) r
  | _ :: r => ks :: kinds_after ks r
  end.

Fixpoint all_obs_okb (kss : list (list akind)) (l : list obs) : bool :=
  match kss, l with
  | [], [] => true
  | ks :: kr, o :: r => obs_okb ks o && all_obs_okb kr r
  | _, _ => false
  end.

(* bounded liveness on the trace: once the cell is Stopping, two more grants stop it *)
Fixpoint live_okb (ops : list op) (l : list obs) (grants_since_stop : option nat) : bool :=
  match ops, l with
  | o :: r, b :: l' =>
      let g := match grants_since_stop with
               | Some n => Some (match o with OGrant => S n | _ => n end)
               | None => None
               end in
      let g := match g with
               | None => if Nat.leb 3 (srank (o_cell b)) then Some O else None
               | s => s
               end in
      (match g with Some n => Nat.ltb n 2 || stopped (o_cell b) | None => true end) &&
      live_okb r l' g
  | _, _ => true
  end.

Definition obs0 : obs := mkO (-1) NotStarted 0 0 0 [].

Definition trace_okb (ops : list op) (l : list obs) : bool :=
  chainb obs0 l && all_obs_okb (kinds_after [] ops) l && live_okb ops l None.

(* ---- T codecs ---- *)
Definition sstate_T (s : sstate) : T :=
  I match s with
    | NotStarted => 0 | Starting => 1 | Started => 2 | Stopping => 3
    | Stopped => 4 | StoppedWithError => 5
    end.
Definition T_sstate (t : T) : option sstate :=
  match t with
  | I 0%Z => Some NotStarted | I 1%Z => Some Starting | I 2%Z => Some Started
  | I 3%Z => Some Stopping | I 4%Z => Some Stopped | I 5%Z => Some StoppedWithError
  | _ => None
  end.
Definition T_io (t : T) : option ioutcome :=
  match t with I 0%Z => Some IOk | I 1%Z => Some IErr | I 2%Z => Some IPanic | _ => None end.
Definition T_ro (t : T) : option routcome :=
  match t with
  | I 0%Z => Some RContinue | I 1%Z => Some RStop | I 2%Z => Some RErrorContinue
  | I 3%Z => Some RPanic | I 4%Z => Some RWaitStop | _ => None
  end.
Definition T_so (t : T) : option soutcome :=
  match t with I 0%Z => Some SOk | I 1%Z => Some SErr | I 2%Z => Some SPanic | _ => None end.
(* client-level ops of the harness: 0 start, 1 stop, 2 grant, 3 spawn await_stop,
   4 spawn await_start_or_stop, 5 nothing (just settle and observe),
   6 spawn StateWatcher::while_started, 7 spawn StateWatcher::wait_stopping_or_stopped *)
Definition T_op (t : T) : option (option op) :=
  match t with
  | I 0%Z => Some (Some OStart) | I 1%Z => Some (Some OStop) | I 2%Z => Some (Some OGrant)
  | I 3%Z => Some (Some (OSpawn AStop)) | I 4%Z => Some (Some (OSpawn AStartOrStop))
  | I 5%Z => Some None
  | I 6%Z => Some (Some (OSpawn AWhileStarted)) | I 7%Z => Some (Some (OSpawn AWaitStopping))
  | _ => None
  end.

Definition ostate_T (o : option sstate) : T :=
  match o with None => L [] | Some s => L [sstate_T s] end.
Definition T_ostate (t : T) : option (option sstate) :=
  match t with
  | L [] => Some None
  | L [x] => option_map Some (T_sstate x)
  | _ => None
  end.

Definition obs_T (o : obs) : T :=
  L [I (o_ret o); sstate_T (o_cell o); tN (N.of_nat (o_into o)); tN (N.of_nat (o_run o));
     tN (N.of_nat (o_shut o)); L (map ostate_T (o_aw o))].
Definition T_obs (t : T) : option obs :=
  match t with
  | L [I r; c; a; b; d; L aw] =>
      match T_sstate c, getN a, getN b, getN d, mapM T_ostate aw with
      | Some c, Some a, Some b, Some d, Some aw =>
          Some (mkO r c (N.to_nat a) (N.to_nat b) (N.to_nat d) aw)
      | _, _, _, _, _ => None
      end
  | _ => None
  end.

(* "nothing" (just settle and observe) is one step of B followed by the settle, which is
   the same as the settle alone *)
Definition op_of (o : option op) : op := match o with Some x => x | None => OBg end.

(* input: (io (run outcomes) so (ops)) ; the initial settle happens before the first op *)
Definition main41 (input observed : T) : T :=
  match input with
  | L [io; L rs; so; L ops] =>
      match T_io io, mapM T_ro rs, T_so so, mapM T_op ops with
      | Some io, Some rs, Some so, Some ops =>
          let ops := map op_of ops in
          let model := trace41 (settle41 (init_sys io rs so)) ops in
          let pc := match observed with
                    | L obs => match mapM T_obs obs with
                               | Some l => trace_okb ops l
                               | None => false
                               end
                    | _ => false
                    end in
          L [L (map obs_T model); tB pc]
      | _, _, _, _ => tErr 2
      end
  | _ => tErr 1
  end.
