(* C41 model: placeholder until the service model is written *)
From FC Require Export Common.T.
Definition main41 (input observed : T) : T := tErr 41.
