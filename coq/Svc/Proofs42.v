(* C42: proofs about the translated seqlock programs (Svc/SeqlockProg.v) under the
   interleaving semantics of Svc/Model.v.  One writer, any number of readers, any k. *)
From FC Require Import Svc.Model Svc.SeqlockProg.
From Coq Require Import ZifyBool ZifyN ZifyNat Lia.
Open Scope N_scope.

(* ---------- list facts ---------- *)

Lemma listN_eqb_eq : forall x y, listN_eqb x y = true <-> x = y.
Proof.
  induction x as [|a x IH]; destruct y as [|b y]; cbn [listN_eqb]; split; intro H;
    try reflexivity; try discriminate.
  - apply andb_true_iff in H. destruct H as [H1 H2]. apply N.eqb_eq in H1.
    apply IH in H2. subst. reflexivity.
  - inversion H; subst. apply andb_true_iff. split; [apply N.eqb_refl | apply IH; reflexivity].
Qed.

Lemma firstn_snoc_nth : forall (l : list N) i, (i < length l)%nat ->
  firstn i l ++ [nth i l 0] = firstn (S i) l.
Proof.
  induction l as [|a l IH]; intros i Hi; cbn [length] in Hi; [lia|].
  destruct i as [|i]; [reflexivity|].
  cbn [firstn nth app]. f_equal. apply IH. lia.
Qed.

Lemma upd_mix : forall (new old : list N) i, length new = length old -> (i < length new)%nat ->
  upd (firstn i new ++ skipn i old) i (nth i new 0) = firstn (S i) new ++ skipn (S i) old.
Proof.
  induction new as [|a new IH]; intros old i Hl Hi; cbn [length] in Hi; [lia|].
  destruct old as [|b old]; [cbn [length] in Hl; lia|].
  destruct i as [|i].
  - reflexivity.
  - cbn [firstn skipn app upd nth]. f_equal. apply IH; cbn [length] in *; lia.
Qed.

Lemma len0_nil : forall (l : list N), length l = 0%nat -> l = [].
Proof. destruct l; [reflexivity|discriminate]. Qed.

Lemma Forall_set_nth : forall {A} (P : A -> Prop) l i x,
  Forall P l -> P x -> Forall P (set_nth l i x).
Proof.
  induction l as [|a l IH]; intros i x Hl Hx; [constructor|].
  inversion Hl; subst. destruct i; cbn [set_nth]; constructor; auto.
Qed.

Lemma skipn_cons_nth : forall (l : list (list N)) d v q,
  skipn d l = v :: q -> nth d l [] = v /\ skipn (S d) l = q /\ (d < length l)%nat.
Proof.
  induction l as [|a l IH]; intros d v q H.
  - destruct d; discriminate.
  - destruct d as [|d].
    + cbn [skipn] in H. inversion H; subst. cbn. repeat split. lia.
    + cbn [skipn] in H. apply IH in H. destruct H as (H1 & H2 & H3).
      cbn [nth skipn length]. repeat split; auto. lia.
Qed.

(* ---------- single writer ---------- *)

(* facts about the value a call leaves behind *)
Lemma wlim_le : forall k w, (wlim k w <= k)%nat.
Proof. intros k [v [j|]]; unfold wlim; cbn [snd]; lia. Qed.

Lemma weff_len : forall k prev w, length prev = k -> length (fst w) = k ->
  length (weff k prev w) = k.
Proof.
  intros k prev w Hp Hv. unfold weff. pose proof (wlim_le k w).
  rewrite app_length, firstn_length, skipn_length. lia.
Qed.

Lemma weff_firstn : forall k prev w i, length (fst w) = k -> (i <= wlim k w)%nat ->
  firstn i (weff k prev w) = firstn i (fst w).
Proof.
  intros k prev w i Hv Hi. unfold weff. pose proof (wlim_le k w).
  rewrite firstn_app, firstn_firstn, firstn_length.
  replace (Nat.min i (wlim k w)) with i by lia.
  replace (i - Nat.min (wlim k w) (length (fst w)))%nat with 0%nat by lia.
  cbn [firstn]. apply app_nil_r.
Qed.

Lemma weff_nth : forall k prev w i, length (fst w) = k -> (i < wlim k w)%nat ->
  nth i (weff k prev w) 0 = nth i (fst w) 0.
Proof.
  intros k prev w i Hv Hi. unfold weff. pose proof (wlim_le k w).
  rewrite app_nth1 by (rewrite firstn_length; lia).
  rewrite <- (firstn_skipn (wlim k w) (fst w)) at 2.
  rewrite app_nth1 by (rewrite firstn_length; lia). reflexivity.
Qed.

(* writing the first wlim words of the new value over the old one IS the new value *)
Lemma weff_done : forall k prev w, length prev = k -> length (fst w) = k ->
  firstn (wlim k w) (weff k prev w) ++ skipn (wlim k w) prev = weff k prev w.
Proof.
  intros k prev w Hp Hv. rewrite weff_firstn by (auto; lia). reflexivity.
Qed.

Lemma evals_nth : forall k ws prev d w, nth_error ws d = Some w ->
  nth (S d) (prev :: evals k prev ws) [] = weff k (nth d (prev :: evals k prev ws) []) w.
Proof.
  induction ws as [|a ws IH]; intros prev d w H; [destruct d; discriminate|].
  destruct d as [|d].
  - cbn in H. inversion H; subst. reflexivity.
  - cbn [nth_error] in H. cbn [evals]. specialize (IH (weff k prev a) d w H).
    cbn [nth] in *. exact IH.
Qed.

Lemma evals_len : forall k ws prev c, length prev = k ->
  Forall (fun w : wcall => length (fst w) = k) ws -> (c <= length ws)%nat ->
  length (nth c (prev :: evals k prev ws) []) = k.
Proof.
  induction ws as [|a ws IH]; intros prev c Hp Hf Hc.
  - cbn [length] in Hc. assert (Hc0 : c = 0%nat) by lia. subst c. exact Hp.
  - apply Forall_cons_iff in Hf. destruct Hf as [Hx Hl]. destruct c as [|c]; [exact Hp|].
    cbn [evals nth]. cbn [length] in Hc.
    apply (IH (weff k prev a) c); auto; [apply weff_len; auto|lia].
Qed.

Lemma skipn_cons_nth_error : forall {A} (l : list A) d v q,
  skipn d l = v :: q -> nth_error l d = Some v /\ skipn (S d) l = q /\ (d < length l)%nat.
Proof.
  induction l as [|a l IH]; intros d v q H.
  - destruct d; discriminate.
  - destruct d as [|d].
    + cbn [skipn] in H. inversion H; subst. cbn. repeat split. lia.
    + cbn [skipn] in H. apply IH in H. destruct H as (H1 & H2 & H3).
      cbn [nth_error skipn length]. repeat split; auto. lia.
Qed.

Section Single.
  Variable k : nat.
  Variable init : list N.
  Variable writes : list wcall.
  Hypothesis Hinit : length init = k.
  Hypothesis Hwrites : Forall (fun w : wcall => length (fst w) = k) writes.

  Definition val (c : nat) : list N := value k init writes c.

  Lemma val_len : forall c, (c <= length writes)%nat -> length (val c) = k.
  Proof. intros c Hc. unfold val, value. apply evals_len; auto. Qed.

  Lemma val_succ : forall d w, nth_error writes d = Some w -> val (S d) = weff k (val d) w.
  Proof. intros d w H. unfold val, value. apply evals_nth. exact H. Qed.

  Definition ev_ok (e : event) : Prop :=
    exists c, (e_c0 e <= c <= e_done e)%nat /\ (e_done e <= length writes)%nat /\ e_val e = val c.

  Definition WInv (s : shm) (w : wthread) : Prop :=
    (wdone w + length (wq w) = length writes)%nat /\
    wq w = skipn (wdone w) writes /\
    (wpc w < 5)%nat /\
    seq s = 2 * N.of_nat (wdone w) + (if Nat.eqb (wpc w) 0 then 0 else 1) /\
    (wpc w <> 2%nat -> wi w = 0%nat) /\
    (wpc w <> 0%nat -> wq w <> []) /\
    mem s = match wpc w with
            | 0%nat | 1%nat => val (wdone w)
            | 2%nat => firstn (wi w) (val (S (wdone w))) ++ skipn (wi w) (val (wdone w))
            | _ => val (S (wdone w))
            end /\
    (forall hd q, wq w = hd :: q -> (wi w < wlim k hd)%nat \/ wi w = 0%nat).

  Definition cidx (r : rthread) : nat := N.to_nat (rstart r / 2).

  Definition RInv (s : shm) (r : rthread) : Prop :=
    (rpc r < 7)%nat /\
    (rbegun r = true -> 2 * N.of_nat (rc0 r) <= seq s) /\
    (rpc r <> 0%nat -> rbegun r = true /\ 2 * N.of_nat (rc0 r) <= rstart r /\ rstart r <= seq s) /\
    (rpc r <> 3%nat -> ri r = 0%nat) /\
    match rpc r with
    | 1%nat | 2%nat => rbuf r = []
    | 3%nat => ((ri r < k)%nat \/ ri r = 0%nat) /\
               (seq s = rstart r -> N.even (rstart r) = true ->
                rbuf r = firstn (ri r) (val (cidx r)))
    | 4%nat | 5%nat => seq s = rstart r -> N.even (rstart r) = true -> rbuf r = val (cidx r)
    | 6%nat => rend r = rstart r -> N.even (rstart r) = true -> rbuf r = val (cidx r)
    | _ => True
    end.

  Lemma RInv_mono : forall s s' r, RInv s r -> seq s <= seq s' -> RInv s' r.
  Proof.
    intros s s' r (H1 & H2 & H3 & H4 & H5) Hle.
    unfold RInv. repeat split; auto.
    - intro Hb. specialize (H2 Hb). lia.
    - apply H3; auto.
    - apply H3; auto.
    - destruct (H3 H) as (_ & _ & Hx). lia.
    - destruct (rpc r) as [|[|[|[|[|[|[|p]]]]]]]; auto.
      + destruct H5 as [Ha Hb]. split; auto. intros He Hev. apply Hb; auto.
        assert (Hn : 3%nat <> 0%nat) by lia. destruct (H3 Hn) as (_ & _ & Hx). lia.
      + intros He Hev. apply H5; auto.
        assert (Hn : 4%nat <> 0%nat) by lia. destruct (H3 Hn) as (_ & _ & Hx). lia.
      + intros He Hev. apply H5; auto.
        assert (Hn : 5%nat <> 0%nat) by lia. destruct (H3 Hn) as (_ & _ & Hx). lia.
  Qed.

  (* the writer's steps *)
  Lemma wmicro_inv : forall s w s' w',
    WInv s w -> wmicro k write_prog s w = (s', w') -> WInv s' w' /\ seq s <= seq s'.
  Proof.
    intros s w s' w' (Hlen & Hq & Hpc & Hseq & Hwi & Hne & Hmem & Hik) Hstep.
    unfold wmicro in Hstep.
    destruct (wq w) as [|c q] eqn:Eq.
    { inversion Hstep; subst. split; [|lia]. unfold WInv. rewrite Eq.
      repeat split; auto; try (intros; discriminate). }
    symmetry in Hq. pose proof (skipn_cons_nth_error _ _ _ _ Hq) as (Hv & Hq' & Hd).
    pose proof (val_succ _ _ Hv) as Hv'.
    assert (Ld : length (val (wdone w)) = k) by (apply val_len; lia).
    assert (Ld' : length (val (S (wdone w))) = k) by (apply val_len; lia).
    assert (Lc : length (fst c) = k).
    { rewrite Forall_forall in Hwrites. apply Hwrites. eapply nth_error_In; eauto. }
    pose proof (wlim_le k c) as Hlim.
    specialize (Hik c q eq_refl).
    cbn [length] in Hlen.
    destruct w as [pc i wq0 d pan]. cbn [wpc wi wq wdone wpan] in *.
    assert (Hnil : forall hd q0, q = hd :: q0 -> (0 < wlim k hd)%nat \/ 0%nat = 0%nat)
      by (intros; right; reflexivity).
    destruct pc as [|[|[|[|[|pc]]]]]; try lia;
      cbn -[Nat.ltb N.add N.eqb N.even N.odd wlim] in Hstep.
    - (* pc 0: fetch_add *)
      inversion Hstep; subst; clear Hstep. split; [|cbn [seq]; lia].
      unfold WInv; cbn [wpc wi wq wdone seq mem Nat.eqb].
      repeat split; auto; try lia; try congruence.
      cbn [Nat.eqb] in Hseq. lia.
    - (* pc 1: fence *)
      inversion Hstep; subst; clear Hstep. split; [|lia].
      unfold WInv; cbn [wpc wi wq wdone seq mem Nat.eqb].
      repeat split; auto; try lia; try congruence.
      all: try (intros hd q0 E; right; reflexivity).
    - (* pc 2: one word of the closure (or its panic) *)
      destruct (Nat.ltb_spec (S i) (wlim k c)) as [Hlt|Hge].
      + assert (Hi' : (i < wlim k c)%nat) by lia.
        apply Nat.ltb_lt in Hi'. rewrite Hi' in Hstep. apply Nat.ltb_lt in Hi'.
        inversion Hstep; subst; clear Hstep. split; [|cbn [seq]; lia].
        unfold WInv; cbn [wpc wi wq wdone seq mem Nat.eqb].
        repeat split; auto; try lia; try congruence.
        * rewrite Hmem. rewrite <- (weff_nth k (val d) c i Lc Hi'), <- Hv'.
          apply upd_mix; lia.
        * intros hd q0 E. inversion E; subst. left. lia.
      + assert (Hfin : mem (if Nat.ltb i (wlim k c)
                            then mkS (seq s) (upd (mem s) i (nth i (fst c) 0)) else s)
                       = val (S d)).
        { destruct (Nat.ltb_spec i (wlim k c)) as [Hi'|Hi'].
          - cbn [mem]. rewrite Hmem. rewrite <- (weff_nth k (val d) c i Lc Hi'), <- Hv'.
            rewrite upd_mix by lia.
            assert (HS : S i = wlim k c) by lia. rewrite HS, Hv'.
            apply weff_done; auto.
          - assert (i = 0%nat) by (destruct Hik; lia). subst i.
            assert (Hz : wlim k c = 0%nat) by lia.
            rewrite Hmem. cbn [firstn skipn app]. rewrite Hv'.
            rewrite <- (weff_done k (val d) c Ld Lc). rewrite Hz.
            rewrite Hv' in *. reflexivity. }
        assert (Hseq' : seq (if Nat.ltb i (wlim k c)
                             then mkS (seq s) (upd (mem s) i (nth i (fst c) 0)) else s) = seq s)
          by (destruct (Nat.ltb i (wlim k c)); reflexivity).
        inversion Hstep; subst; clear Hstep. split; [|rewrite Hseq'; lia].
        unfold WInv; cbn [wpc wi wq wdone Nat.eqb]. rewrite Hseq', Hfin.
        repeat split; auto; try lia; try congruence.
        all: try (intros hd q0 E; right; reflexivity).
    - (* pc 3: fence *)
      inversion Hstep; subst; clear Hstep. split; [|lia].
      unfold WInv; cbn [wpc wi wq wdone seq mem Nat.eqb].
      repeat split; auto; try lia; try congruence.
      all: try (intros hd q0 E; right; reflexivity).
    - (* pc 4: closing fetch_add, then WResume: the call returns (or re-raises) *)
      assert (Hret : (s', w') = (mkS (seq s + 1) (mem s), mkW 0 0 q (S d) false)).
      { rewrite <- Hstep. destruct pan; reflexivity. }
      inversion Hret; subst; clear Hstep Hret. split; [|cbn [seq]; lia].
      unfold WInv; cbn [wpc wi wq wdone seq mem Nat.eqb].
      repeat split; auto; try lia; try congruence.
      all: try (cbn [Nat.eqb] in Hseq; lia).
      all: try (intros hd q0 E; right; reflexivity).
  Qed.

  (* the readers' steps *)
  Lemma rmicro_inv : forall s w r r' oe,
    WInv s w -> RInv s r -> rmicro k read_prog (wdone w + 0) s r = (r', oe) ->
    RInv s r' /\
    match oe with
    | None => True
    | Some (c0, d, st, v) => forall i, ev_ok (mkE i c0 d st v)
    end.
  Proof.
    intros s w r r' oe (Hlen & Hq & Hpc & Hseq & Hwi & Hne & Hmem & Hik)
           (R1 & R2 & R3 & R4 & R5) Hstep.
    unfold rmicro in Hstep.
    destruct r as [pc i st en buf bg c0]. cbn [rpc ri rstart rend rbuf rbegun rc0] in *.
    assert (Hd : (wdone w <= length writes)%nat) by lia.
    assert (Hseq2 : 2 * N.of_nat (wdone w) <= seq s) by (destruct (Nat.eqb (wpc w) 0); lia).
    destruct pc as [|[|[|[|[|[|[|pc]]]]]]]; try lia; cbn -[Nat.ltb N.add N.eqb N.even N.odd] in Hstep.
    - (* LoadStart *)
      inversion Hstep; subst; clear Hstep. split; [|exact Logic.I].
      unfold RInv; cbn [rpc ri rstart rend rbuf rbegun rc0].
      assert (Hc : 2 * N.of_nat (if bg then c0 else (wdone w + 0)%nat) <= seq s).
      { destruct bg; [apply R2; reflexivity|]. rewrite Nat.add_0_r. exact Hseq2. }
      repeat split; auto; try lia.
    - (* RetryIfOdd *)
      assert (Hn : 1%nat <> 0%nat) by lia. destruct (R3 Hn) as (Hb & Hc & Hs).
      destruct (N.odd st); inversion Hstep; subst; clear Hstep; (split; [|exact Logic.I]);
        unfold RInv; cbn [rpc ri rstart rend rbuf rbegun rc0]; repeat split; auto; try lia.
    - (* Fence *)
      assert (Hn : 2%nat <> 0%nat) by lia. destruct (R3 Hn) as (Hb & Hc & Hs).
      inversion Hstep; subst; clear Hstep. split; [|exact Logic.I].
      unfold RInv; cbn [rpc ri rstart rend rbuf rbegun rc0]; repeat split; auto; try lia.
    - (* CopyData *)
      assert (Hn : 3%nat <> 0%nat) by lia. destruct (R3 Hn) as (Hb & Hc & Hs).
      destruct R5 as [Ri Rb].
      assert (Hgood : seq s = st -> N.even st = true ->
                      mem s = val (cidx (mkR 3 i st en buf bg c0)) /\
                      (cidx (mkR 3 i st en buf bg c0) <= length writes)%nat).
      { intros He Hev. unfold cidx; cbn [rstart].
        destruct (Nat.eqb_spec (wpc w) 0) as [Hz|Hz].
        - rewrite Hz in Hmem. rewrite Hmem.
          assert (N.to_nat (st / 2) = wdone w).
          { subst st. rewrite Hseq. rewrite N.add_0_r. rewrite N.mul_comm, N.div_mul by lia. lia. }
          rewrite H. split; [reflexivity|lia].
        - exfalso. subst st. rewrite Hseq in Hev.
          rewrite N.add_comm, N.even_add_mul_2 in Hev. discriminate. }
      destruct (Nat.ltb_spec (S i) k) as [Hlt|Hge].
      + assert (Hik' : (i < k)%nat) by lia.
        apply Nat.ltb_lt in Hik'. rewrite Hik' in Hstep. apply Nat.ltb_lt in Hik'.
        inversion Hstep; subst; clear Hstep. split; [|exact Logic.I].
        unfold RInv; cbn [rpc ri rstart rend rbuf rbegun rc0]; repeat split; auto; try lia.
        intros He Hev. destruct (Hgood He Hev) as [Hm Hc']. rewrite (Rb He Hev), Hm.
        unfold cidx; cbn [rstart]. apply firstn_snoc_nth.
        unfold cidx in Hc'; cbn [rstart] in Hc'. rewrite val_len; lia.
      + destruct (Nat.ltb_spec i k) as [Hlt'|Hge'].
        * inversion Hstep; subst; clear Hstep. split; [|exact Logic.I].
          unfold RInv; cbn [rpc ri rstart rend rbuf rbegun rc0]; repeat split; auto; try lia.
          intros He Hev. destruct (Hgood He Hev) as [Hm Hc']. rewrite (Rb He Hev), Hm.
          unfold cidx in *; cbn [rstart] in *.
          rewrite firstn_snoc_nth by (rewrite val_len; lia).
          assert (S i = k) by lia.
          rewrite <- (val_len (N.to_nat (st / 2))) in H at 1 by lia. rewrite H.
          apply firstn_all.
        * inversion Hstep; subst; clear Hstep. split; [|exact Logic.I].
          unfold RInv; cbn [rpc ri rstart rend rbuf rbegun rc0]; repeat split; auto; try lia.
          intros He Hev. destruct (Hgood He Hev) as [Hm Hc']. rewrite (Rb He Hev).
          assert (i = 0%nat) by lia. subst i. assert (k = 0%nat) by lia.
          unfold cidx in *; cbn [rstart] in *.
          cbn [firstn]. symmetry. apply len0_nil. rewrite val_len; lia.
    - (* Fence *)
      assert (Hn : 4%nat <> 0%nat) by lia. destruct (R3 Hn) as (Hb & Hc & Hs).
      inversion Hstep; subst; clear Hstep. split; [|exact Logic.I].
      unfold RInv; cbn [rpc ri rstart rend rbuf rbegun rc0]; repeat split; auto; try lia.
    - (* LoadEnd *)
      assert (Hn : 5%nat <> 0%nat) by lia. destruct (R3 Hn) as (Hb & Hc & Hs).
      inversion Hstep; subst; clear Hstep. split; [|exact Logic.I].
      unfold RInv; cbn [rpc ri rstart rend rbuf rbegun rc0]; repeat split; auto; try lia.
    - (* ReturnIf *)
      assert (Hn : 6%nat <> 0%nat) by lia. destruct (R3 Hn) as (Hb & Hc & Hs).
      destruct ((st =? en) && N.even st) eqn:Hcond.
      + apply andb_true_iff in Hcond. destruct Hcond as [He Hev]. apply N.eqb_eq in He.
        injection Hstep as <- <-. split.
        * unfold RInv; cbn [rpc ri rstart rend rbuf rbegun rc0]; repeat split; auto; try lia;
            try discriminate.
        * intro j. exists (N.to_nat (st / 2)). cbn [e_c0 e_done e_val].
          assert (Hst : st <= 2 * N.of_nat (wdone w) + 1) by (destruct (Nat.eqb (wpc w) 0); lia).
          assert (N.of_nat c0 <= st / 2) by (apply N.div_le_lower_bound; lia).
          assert (st / 2 <= N.of_nat (wdone w)).
          { assert (st / 2 < N.of_nat (wdone w) + 1); [|lia].
            apply N.div_lt_upper_bound; lia. }
          repeat split; try lia.
          apply (R5 (eq_sym He) Hev).
      + inversion Hstep; subst; clear Hstep. split; [|exact Logic.I].
        unfold RInv; cbn [rpc ri rstart rend rbuf rbegun rc0]; repeat split; auto; try lia.
  Qed.

  Definition Inv (st : state) : Prop :=
    exists w, ws st = [w] /\ WInv (sh st) w /\ Forall (RInv (sh st)) (rs st) /\
              Forall ev_ok (log st).

  Lemma Inv_init : forall nr, Inv (init_state seq_init init [writes] nr).
  Proof.
    intro nr. unfold Inv, init_state; cbn [ws sh rs log map].
    eexists; split; [reflexivity|]. split; [|split].
    - unfold WInv; cbn [wpc wi wq wdone seq mem Nat.eqb]. unfold seq_init.
      rewrite skipn_O.
      split; [lia|]. split; [reflexivity|]. split; [lia|]. split; [reflexivity|].
      split; [reflexivity|]. split; [intro; lia|]. split; [reflexivity|]. right; reflexivity.
    - apply Forall_forall. intros r Hr. apply repeat_spec in Hr. subst r.
      unfold RInv; cbn [rpc ri rstart rend rbuf rbegun rc0].
      split; [lia|]. split; [discriminate|]. split; [intro; lia|]. split; [reflexivity|].
      exact Logic.I.
    - constructor.
  Qed.

  Lemma Inv_step : forall st t, Inv st -> Inv (step k write_prog read_prog st t).
  Proof.
    intros st t (w & Hws & HW & HR & HL).
    destruct t as [j|i]; unfold step.
    - rewrite Hws. destruct j as [|j]; cbn [nth_error].
      + destruct (wmicro k write_prog (sh st) w) as [s' w'] eqn:E.
        destruct (wmicro_inv _ _ _ _ HW E) as [HW' Hle].
        exists w'. cbn [ws sh rs log set_nth].
        split; [reflexivity|]. split; [exact HW'|]. split; [|exact HL].
        eapply Forall_impl; [|exact HR]. intros r Hr. eapply RInv_mono; eauto.
      + destruct j; cbn [nth_error]; exists w; (split; [exact Hws|]); (split; [exact HW|]);
          (split; [exact HR|exact HL]).
    - destruct (nth_error (rs st) i) as [r|] eqn:En;
        [|exists w; (split; [exact Hws|]); (split; [exact HW|]); (split; [exact HR|exact HL])].
      rewrite Hws. cbn [done_of fold_right].
      destruct (rmicro k read_prog (wdone w + 0) (sh st) r) as [r' oe] eqn:E.
      assert (Hr : RInv (sh st) r).
      { rewrite Forall_forall in HR. apply HR. eapply nth_error_In; eauto. }
      destruct (rmicro_inv _ _ _ _ _ HW Hr E) as [Hr' Hoe].
      exists w. cbn [ws sh rs log].
      split; [reflexivity|]. split; [exact HW|]. split.
      + apply Forall_set_nth; auto.
      + destruct oe as [[[[c0 d] s0] v]|]; auto.
  Qed.

  Lemma Inv_run : forall sched st, Inv st -> Inv (run k write_prog read_prog st sched).
  Proof.
    induction sched as [|t sched IH]; intros st H; [exact H|].
    cbn [run fold_left]. apply IH. apply Inv_step. exact H.
  Qed.

  Lemma all_reads_ok : forall nr sched e,
    In e (log (run k write_prog read_prog (init_state seq_init init [writes] nr) sched)) ->
    ev_ok e.
  Proof.
    intros nr sched e Hin.
    destruct (Inv_run sched _ (Inv_init nr)) as (w & _ & _ & _ & HL).
    rewrite Forall_forall in HL. apply HL. exact Hin.
  Qed.
End Single.

(* ---------- the decidable checker ---------- *)

Lemma ev_okb_sound : forall k init writes e,
  ev_okb k init writes e = true <->
  exists c, (e_c0 e <= c <= e_done e)%nat /\ e_val e = value k init writes c.
Proof.
  intros k init writes e. unfold ev_okb. rewrite existsb_exists. split.
  - intros (c & Hin & Hc). apply in_seq in Hin. apply andb_true_iff in Hc.
    destruct Hc as [H1 H2]. apply Nat.leb_le in H1. apply listN_eqb_eq in H2.
    exists c. split; [lia|exact H2].
  - intros (c & Hr & Hv). exists c. split; [apply in_seq; lia|].
    apply andb_true_iff. split; [apply Nat.leb_le; lia|apply listN_eqb_eq; exact Hv].
Qed.

Lemma ev_completeb_sound : forall init wqs e,
  ev_completeb init wqs e = true <-> In (e_val e) (init :: map fst (concat wqs)).
Proof.
  intros. unfold ev_completeb. rewrite existsb_exists. split.
  - intros (v & Hin & Hv). apply listN_eqb_eq in Hv. subst. exact Hin.
  - intro Hin. exists (e_val e). split; [exact Hin|apply listN_eqb_eq; reflexivity].
Qed.

(* ---------- macro steps are micro schedules ---------- *)

Lemma run_to_point_expand : forall fuel k wp rp wpts rpts st t,
  run_to_point fuel k wp rp wpts rpts st t =
  run k wp rp st (expand_to_point fuel k wp rp wpts rpts st t).
Proof.
  induction fuel as [|f IH]; intros; cbn [run_to_point expand_to_point]; [reflexivity|].
  destruct (at_point wpts rpts st t); [reflexivity|].
  cbn [run fold_left]. apply IH.
Qed.

Lemma macro_step_is_run : forall k wp rp wpts rpts st t, exists micro,
  macro_step k wp rp wpts rpts st t = run k wp rp st micro.
Proof.
  intros. unfold macro_step. rewrite run_to_point_expand.
  eexists (t :: _). reflexivity.
Qed.

(* ---------- non-vacuity and the two-writer counterexample ---------- *)

(* a schedule in which a reader overlaps a write, retries, and then returns the new value *)
Definition demo_sched : list tid :=
  [TR 0; TR 0; TR 0; TW 0; TW 0; TW 0; TR 0; TW 0; TW 0; TW 0; TR 0; TR 0; TR 0;
   TR 0; TR 0; TR 0; TR 0; TR 0; TR 0; TR 0; TR 0; TR 0].

Example demo_nonvacuous :
  map (fun e => (e_c0 e, e_done e, e_val e))
      (log (run 2 write_prog read_prog (init_state seq_init [7; 7] [[([1; 1], None); ([2; 2], None)]] 1) demo_sched))
  = [(0%nat, 1%nat, [1; 1])].
Proof. vm_compute. reflexivity. Qed.

(* two writers: W0 starts a write and stores the first word, W1 starts a write (the
   counter becomes even again), a reader then returns a half-written value *)
Definition two_wqs : list (list wcall) := [[([1; 1], None)]; [([2; 2], None)]].
Definition torn_sched : list tid :=
  [TW 0; TW 0; TW 0; TW 1; TR 0; TR 0; TR 0; TR 0; TR 0; TR 0; TR 0; TR 0].

Lemma two_writers_torn :
  let st := run 2 write_prog read_prog (init_state seq_init [0; 0] two_wqs 1) torn_sched in
  exists e, In e (log st) /\ e_val e = [1; 0] /\
            ev_completeb [0; 0] two_wqs e = false.
Proof. vm_compute. eexists. split; [left; reflexivity|]. split; reflexivity. Qed.

Lemma two_writers_torn_not_complete :
  exists sched e,
    In e (log (run 2 write_prog read_prog
                   (init_state seq_init [0; 0] two_wqs 1) sched)) /\
    ~ In (e_val e) ([0; 0] :: map fst (concat two_wqs)).
Proof.
  exists torn_sched. destruct two_writers_torn as (e & Hin & Hv & Hc).
  exists e. split; [exact Hin|]. intro H. apply ev_completeb_sound in H. congruence.
Qed.

Lemma read_complete_all : forall k init writes nr sched e,
  length init = k -> Forall (fun w : wcall => length (fst w) = k) writes ->
  In e (log (run k write_prog read_prog (init_state seq_init init [writes] nr) sched)) ->
  exists c, (c <= e_done e)%nat /\ (e_done e <= length writes)%nat /\
            e_val e = value k init writes c.
Proof.
  intros k init writes nr sched e Hi Hw Hin.
  destruct (all_reads_ok k init writes Hi Hw nr sched e Hin) as (c & Hc & Hd & Hv).
  exists c. repeat split; [lia | exact Hd | exact Hv].
Qed.

Lemma read_not_stale_all : forall k init writes nr sched e,
  length init = k -> Forall (fun w : wcall => length (fst w) = k) writes ->
  In e (log (run k write_prog read_prog (init_state seq_init init [writes] nr) sched)) ->
  exists c, (e_c0 e <= c <= e_done e)%nat /\ e_val e = value k init writes c.
Proof.
  intros k init writes nr sched e Hi Hw Hin.
  destruct (all_reads_ok k init writes Hi Hw nr sched e Hin) as (c & Hc & Hd & Hv).
  exists c. split; [exact Hc | exact Hv].
Qed.

(* ---------- the counter is even whenever no write is in progress ---------- *)
Lemma idle_even_all : forall k init writes nr sched,
  length init = k -> Forall (fun w : wcall => length (fst w) = k) writes ->
  let st := run k write_prog read_prog (init_state seq_init init [writes] nr) sched in
  exists w, ws st = [w] /\
            (wpc w = 0%nat -> seq (sh st) = 2 * N.of_nat (wdone w) /\ N.even (seq (sh st)) = true) /\
            (wpc w <> 0%nat -> N.odd (seq (sh st)) = true).
Proof.
  intros k init writes nr sched Hi Hw st.
  destruct (Inv_run k init writes Hi Hw sched _ (Inv_init k init writes Hi nr))
    as (w & Hws & (_ & _ & _ & Hseq & _) & _).
  exists w. split; [exact Hws|]. fold st in Hseq. split; intro Hp.
  - rewrite Hp in Hseq. cbn [Nat.eqb] in Hseq. rewrite Hseq, N.add_0_r. split; [reflexivity|].
    rewrite N.even_mul. reflexivity.
  - destruct (Nat.eqb_spec (wpc w) 0); [contradiction|]. rewrite Hseq.
    rewrite N.add_comm, N.odd_add_mul_2. reflexivity.
Qed.

(* non-vacuity with a panicking closure: write([1;1]) panics after its first word; write
   closes the sequence all the same (the counter is even again), the cell holds [1;7] and a
   later read returns exactly that value, the one the panicked call left behind (c = 1) *)
Definition panic_sched : list tid :=
  [TW 0; TW 0; TW 0; TW 0; TW 0; TR 0; TR 0; TR 0; TR 0; TR 0; TR 0; TR 0; TR 0;
   TW 0; TW 0; TW 0; TR 0; TR 0].
Example panic_nonvacuous :
  let st := run 2 write_prog read_prog
                (init_state seq_init [7; 7] [[([1; 1], Some 1%nat); ([2; 2], None)]] 1) panic_sched in
  map (fun e => (e_c0 e, e_done e, e_val e)) (log st) = [(1%nat, 1%nat, [1; 7])] /\
  value 2 [7; 7] [([1; 1], Some 1%nat); ([2; 2], None)] 1 = [1; 7] /\
  map wdone (ws st) = [1%nat] /\ seq (sh st) = 3.
Proof. vm_compute. repeat split; reflexivity. Qed.

(* HISTORY / what the step language can tell apart: had the panic been re-raised BEFORE the
   closing fetch_add (WResume in front of it), a panicking closure would leave the counter odd
   for good: every later write then runs with an EVEN counter and a reader returns its
   half-written cell *)
Definition early_resume_prog : list winstr :=
  [WFetchAdd 1 AcqRel; WFence Acquire; WCallF; WResume; WFence Release; WFetchAdd 1 Release].
Example early_resume_is_torn :
  let writes := [([1; 1], Some 0%nat); ([2; 2], None)] in
  let st := run 2 early_resume_prog read_prog (init_state seq_init [7; 7] [writes] 1)
                [TW 0; TW 0; TW 0; TW 0; TW 0; TW 0;
                 TR 0; TR 0; TR 0; TR 0; TR 0; TR 0; TR 0; TR 0] in
  map e_val (log st) = [[2; 7]] /\ forallb (ev_okb 2 [7; 7] writes) (log st) = false.
Proof. vm_compute. split; reflexivity. Qed.
