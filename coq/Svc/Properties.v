(* Property theorems of the Svc cluster. Nothing but statements, [exact], and
   Print Assumptions. *)
From FC Require Import Svc.Model Svc.SeqlockProg Svc.Main Svc.Proofs42 Svc.Proofs41.
Open Scope N_scope.

(* C42.  [write_prog] / [read_prog] are the step lists translated from seqlock.rs (including
   where the caught panic of the closure is re-raised: WResume).
   ONE writer thread performing the calls write(f_1) ... write(f_n) (any n), each closure either
   storing its k words and returning, or PANICKING after having stored j of them (the panic is
   caught by write, the rest of write runs as the program says, the panic is re-raised to the
   caller, who survives it and goes on with the next call); any number [nr] of reader threads
   calling read() again and again; data of any number k of words stored/loaded one word per
   step; ANY sequentially consistent interleaving [sched] of the threads' atomic steps.
   value k init writes c = the c-th value of the cell: c = 0 the initial value, c >= 1 what the
   c-th call left in the cell = all k words of its value, or, for a panicking closure, its j
   words over the previous value.  DECISION on panicking closures: what an `FnOnce(&mut T)` that
   panics half-way leaves in the cell is the closure's own (completed) effect; write closes the
   sequence and publishes it like any value, it is not an intermediate state of the lock
   protocol, so the statement counts it as the value of that call.  No finding is proposed.
   Every return [e] of read() returned exactly the k words of ONE such value (never an
   intermediate state of a call in progress), published when read returned. *)
Theorem read_returns_complete_value : forall k init writes nr sched e,
  length init = k -> Forall (fun w : wcall => length (fst w) = k) writes ->
  In e (log (run k write_prog read_prog (init_state seq_init init [writes] nr) sched)) ->
  exists c, (c <= e_done e)%nat /\ (e_done e <= length writes)%nat /\
            e_val e = value k init writes c.
Proof. exact read_complete_all. Qed.
Print Assumptions read_returns_complete_value.

(* ... and it is not stale: e_c0 e = number of write calls that had completed when this call
   of read performed its first load of the sequence counter, e_done e = the number completed
   when it returned; the returned value is the one of call number c with
   e_c0 e <= c <= e_done e, i.e. the latest call completed before the read began or a later one. *)
Theorem read_not_stale : forall k init writes nr sched e,
  length init = k -> Forall (fun w : wcall => length (fst w) = k) writes ->
  In e (log (run k write_prog read_prog (init_state seq_init init [writes] nr) sched)) ->
  exists c, (e_c0 e <= c <= e_done e)%nat /\ e_val e = value k init writes c.
Proof. exact read_not_stale_all. Qed.
Print Assumptions read_not_stale.

(* after any sequence of calls of write, some of which panic: the counter is even (= twice the
   number of completed calls) whenever no call is in progress, and odd while one is *)
Theorem counter_even_when_idle : forall k init writes nr sched,
  length init = k -> Forall (fun w : wcall => length (fst w) = k) writes ->
  let st := run k write_prog read_prog (init_state seq_init init [writes] nr) sched in
  exists w, ws st = [w] /\
            (wpc w = 0%nat -> Svc.Model.seq (sh st) = 2 * N.of_nat (wdone w) /\ N.even (Svc.Model.seq (sh st)) = true) /\
            (wpc w <> 0%nat -> N.odd (Svc.Model.seq (sh st)) = true).
Proof. exact idle_even_all. Qed.
Print Assumptions counter_even_when_idle.

(* the decidable checker evaluated on the implementation's read returns means exactly that *)
Theorem read_checker_sound : forall k init writes e,
  ev_okb k init writes e = true <->
  exists c, (e_c0 e <= c <= e_done e)%nat /\ e_val e = value k init writes c.
Proof. exact ev_okb_sound. Qed.
Print Assumptions read_checker_sound.

(* what one grant of the harness scheduler executes is a micro schedule of the above kind *)
Theorem macro_step_is_micro_schedule : forall k wp rp wpts rpts st t, exists micro,
  macro_step k wp rp wpts rpts st t = run k wp rp st micro.
Proof. exact macro_step_is_run. Qed.
Print Assumptions macro_step_is_micro_schedule.

(* TWO writer threads (write takes &self and SeqLockWriter is Sync, so safe code can share
   one writer handle between threads): the same statement is FALSE.  Concrete interleaving:
   W0 starts write([1;1]) and stores word 0; W1 starts write([2;2]) (the counter is even
   again); a reader returns [1;0], which is none of the values ever written. *)
Theorem two_writers_read_returns_complete_value_refuted :
  exists sched e,
    In e (log (run 2 write_prog read_prog
                   (init_state seq_init [0; 0] two_wqs 1) sched)) /\
    ~ In (e_val e) ([0; 0] :: map fst (concat two_wqs)).
Proof. exact two_writers_torn_not_complete. Qed.
Print Assumptions two_writers_read_returns_complete_value_refuted.

(* ------------------------------------------------------------------------------------ *)
(* C41.  Model41.v: the watch cell of ServiceRunner under EVERY interleaving [ops] of the
   atomic steps  OStart / OStop (client calls), OBg (one step of the background task of
   initialize_loop/run/run_task/shutdown_task), OGrant (a scripted into_task / run / shutdown
   call of the user task is allowed to return), OSpawn k / OAw i (an await_stop or
   await_start_or_stop future is created / takes one step), for every script of task outcomes
   (into_task: ok/err/panic; run: continue/stop/error/panic/wait-while-started, any list;
   shutdown: ok/err/panic). *)
Close Scope N_scope.
Open Scope nat_scope.

(* the state only moves forward: NotStarted < Starting < Started < Stopping < {Stopped,
   StoppedWithError}; between any two moments of any execution it is unchanged or later *)
Theorem state_forward_only : forall io rs so ops1 ops2,
  let s1 := run41 (init_sys io rs so) ops1 in
  let s2 := run41 (init_sys io rs so) (ops1 ++ ops2) in
  cell s1 = cell s2 \/ srank (cell s1) < srank (cell s2).
Proof. exact state_forward_prop. Qed.
Print Assumptions state_forward_only.

(* a stopped service never runs again: from a reachable state whose cell is Stopped or
   StoppedWithError, no continuation changes the cell or calls into_task / run / shutdown *)
Theorem stopped_never_runs : forall s ops, reachable s -> stopped (cell s) = true ->
  cell (run41 s ops) = cell s /\ n_into (run41 s ops) = n_into s /\
  n_run (run41 s ops) = n_run s /\ n_shut (run41 s ops) = n_shut s.
Proof. exact stopped_never_runs_all. Qed.
Print Assumptions stopped_never_runs.

(* shutdown (and into_task) are invoked at most once in every execution *)
Theorem shutdown_at_most_once : forall io rs so ops,
  n_shut (run41 (init_sys io rs so) ops) <= 1 /\ n_into (run41 (init_sys io rs so) ops) <= 1.
Proof. exact shutdown_once_all. Qed.
Print Assumptions shutdown_at_most_once.

(* liveness: once a stop was requested (cell >= Stopping) in a reachable state, every
   schedule made of 13 segments (13 = the largest value of the measure mu) that each contain
   a step of the background task and a grant -- in any order, interleaved with any other
   steps -- ends in a stopped state; and every await_stop future that existed returns exactly
   that state after two of its own steps.  Every infinite fair schedule has such a prefix. *)
Theorem await_stop_returns : forall s segs ops i a,
  reachable s -> 3 <= srank (cell s) ->
  Forall fair_seg segs -> 13 <= length segs ->
  let s' := run41 s (concat segs) in
  stopped (cell s') = true /\
  (nth_error (aws s) i = Some a -> a_kind a = AStop -> 2 <= count_aw i ops ->
   exists a', nth_error (aws (run41 s' ops)) i = Some a' /\ a_pc a' = ADone (cell s')).
Proof. exact await_stop_returns_all. Qed.
Print Assumptions await_stop_returns.

(* safety of await_stop: a returned value is a stopped state and is the cell's final value *)
Theorem await_stop_result : forall s i a r, reachable s ->
  nth_error (aws s) i = Some a -> a_kind a = AStop -> a_pc a = ADone r ->
  stopped r = true /\ r = cell s.
Proof. exact awaiter_result_all. Qed.
Print Assumptions await_stop_result.

(* every await over the watch cell returns: the four loops of the code --
   ServiceRunner::_await_stop / _await_start_or_stop (service.rs) and
   StateWatcher::while_started / wait_stopping_or_stopped (state.rs) -- each
   `loop { read the state; if cond { return }; changed().await }`.  From the moment the cell
   has reached the region in which the await's condition holds for good ([settled]: stopped
   for await_stop; Stopping or later for while_started and wait_stopping_or_stopped; past
   Starting for await_start_or_stop), two steps of the await, interleaved with ANY other
   steps, make it return, with a state satisfying its condition. *)
Theorem every_await_returns : forall s ops i a, reachable s ->
  nth_error (aws s) i = Some a -> settled (a_kind a) (cell s) = true ->
  2 <= count_aw i ops ->
  exists a' r, nth_error (aws (run41 s ops)) i = Some a' /\ a_kind a' = a_kind a /\
               a_pc a' = ADone r /\ acond (a_kind a) r = true.
Proof. exact every_await_returns_all. Qed.
Print Assumptions every_await_returns.

(* the finite facts about one step of the background task were checked on the WHOLE control
   space (6 cell values x 12 program counters x got_panic x permit x 3 x 5 x 3 outcomes) *)
Theorem background_step_facts : forall c p g pm io ro so, bstep_facts c p g pm io ro so = true.
Proof. exact bstep_facts_all. Qed.
Print Assumptions background_step_facts.

(* meaning of the pairwise part of the trace checker evaluated on the implementation *)
Theorem service_trace_checker_sound : forall a b, pair_okb a b = true <-> pair_spec a b.
Proof. exact pair_okb_spec. Qed.
Print Assumptions service_trace_checker_sound.
