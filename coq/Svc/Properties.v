(* Property theorems of the Svc cluster. Nothing but statements, [exact], and
   Print Assumptions. *)
From FC Require Import Svc.Model Svc.SeqlockProg Svc.Main Svc.Proofs42.
Open Scope N_scope.

(* C42.  [write_prog] / [read_prog] are the step lists translated from seqlock.rs.
   ONE writer thread performing the calls write(v_1) ... write(v_n) (any n, any values),
   any number [nr] of reader threads calling read() again and again, data of any number k
   of words stored/loaded one word per step, and ANY sequentially consistent interleaving
   [sched] of the threads' atomic steps.  value init writes c = the c-th value of the cell
   (c = 0: the initial value, c >= 1: the value of the c-th write call).
   Every return [e] of read() in the execution returned exactly the k words of ONE value
   (no torn read), and that value had been completely written when read returned. *)
Theorem read_returns_complete_value : forall k init writes nr sched e,
  length init = k -> Forall (fun v => length v = k) writes ->
  In e (log (run k write_prog read_prog (init_state seq_init init [writes] nr) sched)) ->
  exists c, (c <= e_done e)%nat /\ (e_done e <= length writes)%nat /\
            e_val e = value init writes c.
Proof. exact read_complete_all. Qed.
Print Assumptions read_returns_complete_value.

(* ... and it is not stale: e_c0 e is the number of write calls that had completed when this
   call of read performed its first load of the sequence counter, e_done e the number
   completed when it returned; the returned value is the one of write number c with
   e_c0 e <= c <= e_done e, i.e. the latest write completed before the read began or a later one. *)
Theorem read_not_stale : forall k init writes nr sched e,
  length init = k -> Forall (fun v => length v = k) writes ->
  In e (log (run k write_prog read_prog (init_state seq_init init [writes] nr) sched)) ->
  exists c, (e_c0 e <= c <= e_done e)%nat /\ e_val e = value init writes c.
Proof. exact read_not_stale_all. Qed.
Print Assumptions read_not_stale.

(* the decidable checker evaluated on the implementation's read returns means exactly that *)
Theorem read_checker_sound : forall init writes e,
  ev_okb init writes e = true <->
  exists c, (e_c0 e <= c <= e_done e)%nat /\ e_val e = value init writes c.
Proof. exact ev_okb_sound. Qed.
Print Assumptions read_checker_sound.

(* what one grant of the harness scheduler executes is a micro schedule of the above kind *)
Theorem macro_step_is_micro_schedule : forall k wp rp wpts rpts st t, exists micro,
  macro_step k wp rp wpts rpts st t = run k wp rp st micro.
Proof. exact macro_step_is_run. Qed.
Print Assumptions macro_step_is_micro_schedule.

(* TWO writer threads (write takes &self and SeqLockWriter is Sync, so safe code can share
   one writer handle between threads): the same statement is FALSE.  Concrete interleaving:
   W0 starts write([1;1]) and stores word 0; W1 starts write([2;2]) (the counter is even
   again); a reader returns [1;0], which is none of the values ever written. *)
Theorem two_writers_read_returns_complete_value_refuted :
  exists sched e,
    In e (log (run 2 write_prog read_prog
                   (init_state seq_init [0; 0] [[[1; 1]]; [[2; 2]]] 1) sched)) /\
    ~ In (e_val e) ([0; 0] :: concat [[[1; 1]]; [[2; 2]]]).
Proof. exact two_writers_torn_not_complete. Qed.
Print Assumptions two_writers_read_returns_complete_value_refuted.
