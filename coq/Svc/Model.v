(* C42: step language and sequentially-consistent interleaving semantics for
     crates/services/src/seqlock.rs   (SeqLockWriter::write / SeqLockReader::read).
   The two programs themselves are NOT written here: translators/seqlock2coq.py parses
   seqlock.rs into Svc/SeqlockProg.v (write_prog, read_prog, seq_init, *_points) on every run.

   Memory model: one atomic u64 [seq] and the data cell of k words [mem]; every instruction
   below is one atomic step of a sequentially consistent execution, EXCEPT that the data
   accesses of the closure call / the data copy are k separate steps (one word each), so that
   a torn access is expressible.  Memory orderings are carried in the syntax but ignored by the
   semantics (SC assumed); fences are therefore no-op steps.  The counter is an unbounded N:
   wrap-around of AtomicU64 after 2^64 increments is outside the model. *)
From FC Require Export Common.T.
Open Scope N_scope.

Inductive ordering := Relaxed | Acquire | Release | AcqRel | SeqCst.

(* steps of SeqLockWriter::write *)
Inductive winstr :=
| WFetchAdd (d : N) (o : ordering)     (* lock.sequence.fetch_add(d, o)                     *)
| WFence (o : ordering)                (* fence(o)                                           *)
| WCallF                               (* let result = catch_unwind(|| f(&mut *lock.data.get())) :
                                          k word stores, one per step; the closure may PANIC after
                                          some of them, the panic is caught                    *)
| WResume.                             (* if let Err(e) = result { resume_unwind(e) } : when the
                                          closure panicked the call of write ends HERE (the rest of
                                          the program is skipped) and the caller gets the panic.
                                          Thread-local: executed together with the preceding step *)

(* steps of one iteration of the loop of SeqLockReader::read *)
Inductive rinstr :=
| RLoadStart (o : ordering)            (* let start = lock.sequence.load(o)                  *)
| RRetryIfOdd                          (* if !start.is_multiple_of(2) { yield_now(); continue } *)
| RFence (o : ordering)                (* fence(o)                                           *)
| RCopyData                            (* let data = *lock.data.get() : k word loads, one per step *)
| RLoadEnd (o : ordering)              (* let end = lock.sequence.load(o)                    *)
| RReturnIf (eq even : bool).          (* if [start == end] && [start.is_multiple_of(2)] { return data }  (else: next iteration) *)

Record shm := mkS { seq : N; mem : list N }.

Fixpoint upd (l : list N) (i : nat) (v : N) : list N :=
  match l, i with
  | [], _ => []
  | _ :: r, O => v :: r
  | x :: r, S i' => x :: upd r i' v
  end.

(* one call of write: the value the closure stores, and its outcome: None = it returns,
   Some j = it panics after having stored the first j words (the caller catches the panic
   that write re-raises and goes on with its next call) *)
Definition wcall := (list N * option nat)%type.

(* number of words the closure of a call really stores *)
Definition wlim (k : nat) (w : wcall) : nat :=
  match snd w with None => k | Some j => Nat.min j k end.

(* writer thread: program counter, word index inside WCallF, queue of calls of write still to
   be made, ghost count of completed write calls, "the closure of this call panicked" *)
Record wthread := mkW { wpc : nat; wi : nat; wq : list wcall; wdone : nat; wpan : bool }.

(* where the call continues after the instruction at [p] (None = write returns), WResume
   being executed on the way *)
Definition wnext (prog : list winstr) (pan : bool) (p : nat) : option nat :=
  let p1 := S p in
  match nth_error prog p1 with
  | Some WResume => if pan then None
                    else if Nat.eqb (S p1) (length prog) then None else Some (S p1)
  | _ => if Nat.eqb p1 (length prog) then None else Some p1
  end.

(* reader thread: pc, word index inside RCopyData, locals start/end/data, and ghost:
   [rbegun] = a call of read is in progress, [rc0] = number of write calls that had
   completed when this call of read performed its first sequence load *)
Record rthread := mkR { rpc : nat; ri : nat; rstart : N; rend : N; rbuf : list N;
                        rbegun : bool; rc0 : nat }.

(* a return of read: reader index, ghost c0 (see above), ghost number of completed
   write calls at the time of the return, the value of [start], the returned data *)
Record event := mkE { e_rid : nat; e_c0 : nat; e_done : nat; e_start : N; e_val : list N }.

Definition wmicro (k : nat) (prog : list winstr) (s : shm) (t : wthread) : shm * wthread :=
  match wq t with
  | [] => (s, t)                                    (* no call of write pending *)
  | w :: q =>
      let adv (s' : shm) (pan : bool) :=
        match wnext prog pan (wpc t) with
        | None => (s', mkW 0 0 q (S (wdone t)) false)         (* write returns / re-raises *)
        | Some p => (s', mkW p 0 (wq t) (wdone t) pan)
        end in
      match nth_error prog (wpc t) with
      | None => (s, t)
      | Some (WFetchAdd d _) => adv (mkS (seq s + d) (mem s)) (wpan t)
      | Some (WFence _) => adv s (wpan t)
      | Some WResume => adv s (wpan t)        (* only when WResume is the first instruction *)
      | Some WCallF =>
          let lim := wlim k w in
          let s' := if Nat.ltb (wi t) lim
                    then mkS (seq s) (upd (mem s) (wi t) (nth (wi t) (fst w) 0)) else s in
          if Nat.ltb (S (wi t)) lim
          then (s', mkW (wpc t) (S (wi t)) (wq t) (wdone t) (wpan t))
          else adv s' (match snd w with Some _ => true | None => false end)
      end
  end.

Definition rmicro (k : nat) (prog : list rinstr) (done : nat) (s : shm) (t : rthread)
  : rthread * option (nat * nat * N * list N) :=
  let next := if Nat.eqb (S (rpc t)) (length prog) then O else S (rpc t) in
  match nth_error prog (rpc t) with
  | None => (mkR 0 0 (rstart t) (rend t) (rbuf t) (rbegun t) (rc0 t), None)
  | Some (RLoadStart _) =>
      (mkR next 0 (seq s) (rend t) [] true (if rbegun t then rc0 t else done), None)
  | Some RRetryIfOdd =>
      if N.odd (rstart t)
      then (mkR 0 0 (rstart t) (rend t) (rbuf t) (rbegun t) (rc0 t), None)
      else (mkR next 0 (rstart t) (rend t) (rbuf t) (rbegun t) (rc0 t), None)
  | Some (RFence _) =>
      (mkR next 0 (rstart t) (rend t) (rbuf t) (rbegun t) (rc0 t), None)
  | Some RCopyData =>
      let buf' := if Nat.ltb (ri t) k then rbuf t ++ [nth (ri t) (mem s) 0] else rbuf t in
      if Nat.ltb (S (ri t)) k
      then (mkR (rpc t) (S (ri t)) (rstart t) (rend t) buf' (rbegun t) (rc0 t), None)
      else (mkR next 0 (rstart t) (rend t) buf' (rbegun t) (rc0 t), None)
  | Some (RLoadEnd _) =>
      (mkR next 0 (rstart t) (seq s) (rbuf t) (rbegun t) (rc0 t), None)
  | Some (RReturnIf e p) =>
      if implb e (rstart t =? rend t) && implb p (N.even (rstart t))
      then (mkR 0 0 (rstart t) (rend t) (rbuf t) false (rc0 t),
            Some (rc0 t, done, rstart t, rbuf t))
      else (mkR 0 0 (rstart t) (rend t) (rbuf t) (rbegun t) (rc0 t), None)
  end.

(* the system: shared memory, writer threads (the intended use has exactly one), readers,
   log of read returns (most recent first) *)
Record state := mkSt { sh : shm; ws : list wthread; rs : list rthread; log : list event }.

Inductive tid := TW (j : nat) | TR (i : nat).

Fixpoint set_nth {A} (l : list A) (i : nat) (x : A) : list A :=
  match l, i with
  | [], _ => []
  | _ :: r, O => x :: r
  | y :: r, S i' => y :: set_nth r i' x
  end.

Definition done_of (l : list wthread) : nat := fold_right (fun w a => (wdone w + a)%nat) O l.

Definition step (k : nat) (wp : list winstr) (rp : list rinstr) (st : state) (t : tid) : state :=
  match t with
  | TW j =>
      match nth_error (ws st) j with
      | None => st
      | Some w => let '(s', w') := wmicro k wp (sh st) w in
                  mkSt s' (set_nth (ws st) j w') (rs st) (log st)
      end
  | TR i =>
      match nth_error (rs st) i with
      | None => st
      | Some r =>
          let '(r', oe) := rmicro k rp (done_of (ws st)) (sh st) r in
          mkSt (sh st) (ws st) (set_nth (rs st) i r')
               match oe with
               | None => log st
               | Some (c0, d, s, v) => mkE i c0 d s v :: log st
               end
      end
  end.

Definition run (k : nat) (wp : list winstr) (rp : list rinstr) (st : state) (sched : list tid) : state :=
  fold_left (step k wp rp) sched st.

Definition init_state (s0 : N) (init : list N) (wqs : list (list wcall)) (nr : nat) : state :=
  mkSt (mkS s0 init) (map (fun q => mkW 0 0 q 0 false) wqs)
       (repeat (mkR 0 0 0 0 [] false 0) nr) [].

(* ---- specification side ---- *)

(* the value a call of write leaves in the cell, [prev] being the value before it: all k words
   of its value, or -- if its closure panics after j words -- those j words over the previous
   value.  (What a panicking closure leaves behind is the closure's business: write publishes
   it like any other value; the lock cannot undo a partial in-place update.) *)
Definition weff (k : nat) (prev : list N) (w : wcall) : list N :=
  firstn (wlim k w) (fst w) ++ skipn (wlim k w) prev.
Fixpoint evals (k : nat) (prev : list N) (ws : list wcall) : list (list N) :=
  match ws with
  | [] => []
  | w :: r => let e := weff k prev w in e :: evals k e r
  end.
(* the c-th value of the cell: the initial one, then the one left by each call in order *)
Definition value (k : nat) (init : list N) (writes : list wcall) (c : nat) : list N :=
  nth c (init :: evals k init writes) [].

Fixpoint listN_eqb (x y : list N) : bool :=
  match x, y with
  | [], [] => true
  | a :: x', b :: y' => (a =? b) && listN_eqb x' y'
  | _, _ => false
  end.

(* Pcheck of C42 on one read return (single writer): the returned words are exactly the
   c-th value for some c between "completed before the read's first sequence load" and
   "completed when the read returned" *)
Definition ev_okb (k : nat) (init : list N) (writes : list wcall) (e : event) : bool :=
  existsb (fun c => Nat.leb (e_c0 e) c && listN_eqb (e_val e) (value k init writes c))
          (List.seq O (S (e_done e))).

(* several writers: only "some complete value" makes sense *)
Definition ev_completeb (init : list N) (wqs : list (list wcall)) (e : event) : bool :=
  existsb (listN_eqb (e_val e)) (init :: map fst (concat wqs)).

(* ---- macro steps: what one grant of the harness scheduler executes ----
   A thread runs from one verif_hooks::point to the next; the positions of the points
   come from the translator. *)
Definition at_point (wpts rpts : list nat) (st : state) (t : tid) : bool :=
  match t with
  | TW j => match nth_error (ws st) j with
            | Some w => existsb (Nat.eqb (wpc w)) wpts
            | None => true
            end
  | TR i => match nth_error (rs st) i with
            | Some r => existsb (Nat.eqb (rpc r)) rpts
            | None => true
            end
  end.

Fixpoint run_to_point (fuel : nat) (k : nat) wp rp wpts rpts (st : state) (t : tid) : state :=
  match fuel with
  | O => st
  | S f => if at_point wpts rpts st t then st
           else run_to_point f k wp rp wpts rpts (step k wp rp st t) t
  end.

Definition macro_step k wp rp wpts rpts (st : state) (t : tid) : state :=
  run_to_point (length wp + length rp + k + k + 4) k wp rp wpts rpts (step k wp rp st t) t.

(* expansion of a macro schedule into the micro schedule it stands for *)
Fixpoint expand_to_point (fuel : nat) k wp rp wpts rpts (st : state) (t : tid) : list tid :=
  match fuel with
  | O => []
  | S f => if at_point wpts rpts st t then []
           else t :: expand_to_point f k wp rp wpts rpts (step k wp rp st t) t
  end.

Fixpoint index_of (x : nat) (l : list nat) (i : nat) : nat :=
  match l with
  | [] => i
  | y :: r => if Nat.eqb x y then i else index_of x r (S i)
  end.
