From FC Require Import Svc.Main.
Require Extraction.
Require Import ExtrOcamlBasic.
Extraction "svc_model.ml" main_T.
