(* Executable model of the preconfirmation gossip handling of fuel-core-tx-status-manager (C44):
     crates/services/tx_status_manager/src/service.rs
       SignatureVerification::{remove_expired_delegates, add_new_delegate,
                               check_preconfirmation_signature},
       Task::{new_preconfirmations_from_p2p, handle_preconfirmations}
   Signature checks are an ORACLE supplied with each message:
     - a delegation carries [sig_ok] = "recovering the signer of the sealed delegation
       gives the address protocol_pubkey.latest_address() returns now";
     - a preconfirmation batch carries [ok_keys] = the delegate keys (by number) under
       which the ed25519 verification of the sealed batch succeeds.
   No unforgeability is assumed.  The clock (Tai64::now(), seconds) is an input.
   Definitions only; proofs are in Proofs44.v. *)
From FC Require Export Common.T Status.Model23.
Open Scope N_scope.

(* delegate_keys : HashMap<Tai64, DelegatePublicKey>  =  amap (expiration -> key number) *)
Definition keymap := amap N.

(* delegate_keys.retain(|exp, _| exp > &now) *)
Definition remove_expired_delegates (now : N) (m : keymap) : keymap :=
  filter (fun e => now <? fst e) m.

(* returns (map', verified) *)
Definition add_new_delegate (now : N) (sig_ok : bool) (exp key : N) (m : keymap) : keymap * bool :=
  let m1 := remove_expired_delegates now m in
  if sig_ok then (aput exp key m1, true) else (m1, false).

Definition memb (k : N) (l : list N) : bool := existsb (N.eqb k) l.

Definition check_preconfirmation_signature (now exp : N) (ok_keys : list N) (m : keymap) : bool :=
  if exp <? now then false
  else match aget exp m with
       | Some delegate_key => memb delegate_key ok_keys
       | None => false
       end.

(* a preconfirmation: (tx, variant, payload); variant 0 Success, 1 Failure, 2 SqueezedOut.
   From<PreconfirmationStatus> for TransactionStatus gives the status kinds 2, 6, 4. *)
Definition preconf := (N * N * N)%type.
Definition preconf_status (p : preconf) : N * status :=
  let '(tx, variant, payload) := p in
  (tx, ((if variant =? 0 then 2 else if variant =? 1 then 6 else 4), payload)).

Inductive op44 :=
| ODelegate (exp key : N) (sig_ok : bool)
| OPreconf (exp : N) (batch : list preconf) (ok_keys : list N)
| OClock (t : N)                (* the wall clock now reads t *)
| ORotate (k : N).              (* the protocol key changed (only the oracle sees it) *)

Record st44 := { clock : N; keys : keymap }.

(* gossip validity report: true = Accept, false = Reject *)
Record out44 := { report : option bool; updates : list (N * status) }.

Definition step44 (s : st44) (o : op44) : st44 * out44 :=
  match o with
  | ODelegate exp key sig_ok =>
      let '(m, verified) := add_new_delegate (clock s) sig_ok exp key (keys s) in
      ({| clock := clock s; keys := m |}, {| report := Some verified; updates := [] |})
  | OPreconf exp batch ok_keys =>
      if check_preconfirmation_signature (clock s) exp ok_keys (keys s)
      then (s, {| report := Some true; updates := map preconf_status batch |})
      else (s, {| report := Some false; updates := [] |})
  | OClock t => ({| clock := t; keys := keys s |}, {| report := None; updates := [] |})
  | ORotate _ => (s, {| report := None; updates := [] |})
  end.

Fixpoint run44 (s : st44) (ops : list op44) : list (out44 * st44) :=
  match ops with
  | [] => []
  | o :: r => let '(s', out) := step44 s o in (out, s') :: run44 s' r
  end.

Definition init44 : st44 := {| clock := 0; keys := [] |}.

(* ------------------------------------------------------------------ *)
(* Specification from the history alone.  An event = (clock when received, message). *)
Definition ev44 := (N * op44)%type.

Fixpoint timeline44 (now : N) (ops : list op44) : list ev44 :=
  match ops with
  | [] => []
  | OClock t :: r => timeline44 t r
  | o :: r => (now, o) :: timeline44 now r
  end.

(* the key a history leaves registered for [exp]; [revs] = history, most recent first *)
Fixpoint reg_rev (revs : list ev44) (exp : N) : option N :=
  match revs with
  | [] => None
  | (t, ODelegate e k ok) :: r =>
      if ok && (e =? exp) then Some k
      else if t <? exp then reg_rev r exp else None
  | _ :: r => reg_rev r exp
  end.

Definition spec_accept (hist : list ev44) (now exp : N) (ok_keys : list N) : bool :=
  (now <=? exp) &&
  match reg_rev (rev hist) exp with Some k => memb k ok_keys | None => false end.

(* ------------------------------------------------------------------ *)
(* Pcheck: every report and every set of status updates of the trace is what the
   specification computed from the history (with the verification results observed on
   the implementation) requires. *)
Definition st_eqb (a b : N * status) : bool := (fst a =? fst b) && pair_eqb (snd a) (snd b).
Fixpoint upd_eqb (a b : list (N * status)) : bool :=
  match a, b with
  | [], [] => true
  | x :: a', y :: b' => st_eqb x y && upd_eqb a' b'
  | _, _ => false
  end.
Definition orep_eqb (a b : option bool) : bool :=
  match a, b with
  | None, None => true
  | Some x, Some y => Bool.eqb x y
  | _, _ => false
  end.

Fixpoint c44_okb (now : N) (hist : list ev44) (ops : list op44) (outs : list out44) : bool :=
  match ops, outs with
  | [], [] => true
  | o :: r, out :: outs' =>
      match o with
      | ODelegate exp key sig_ok =>
          orep_eqb (report out) (Some sig_ok) && upd_eqb (updates out) [] &&
          c44_okb now (hist ++ [(now, o)]) r outs'
      | OPreconf exp batch ok_keys =>
          let acc := spec_accept hist now exp ok_keys in
          orep_eqb (report out) (Some acc) &&
          upd_eqb (updates out) (if acc then map preconf_status batch else []) &&
          c44_okb now (hist ++ [(now, o)]) r outs'
      | OClock t => orep_eqb (report out) None && upd_eqb (updates out) [] && c44_okb t hist r outs'
      | ORotate _ => orep_eqb (report out) None && upd_eqb (updates out) [] &&
                     c44_okb now (hist ++ [(now, o)]) r outs'
      end
  | _, _ => false
  end.

(* ------------------------------------------------------------------ *)
(* T codecs.  Input op:
     (0 exp key sig_ok (aux...))  (1 exp (batch) (ok_keys) (aux...))  (2 t)  (3 k)
   [aux] = how the harness builds the real message (signer, tampering); ignored here.
   Observed/model entry per op:  (oracle report (updates) (keys))
     oracle = (sig_ok) | (ok_keys...) | ()      report = (1)|(0)|()
     updates = ((tx kind payload) ...)           keys = ((exp key) ...) sorted by exp *)
Definition T_preconf (t : T) : option preconf :=
  match t with
  | L [tx; v; p] => match getN tx, getN v, getN p with
                    | Some tx, Some v, Some p => Some (tx, v, p) | _, _, _ => None end
  | _ => None
  end.
Definition T_op44 (t : T) : option op44 :=
  match t with
  | L [I 0%Z; e; k; ok; _] =>
      match getN e, getN k, getB ok with
      | Some e, Some k, Some ok => Some (ODelegate e k ok) | _, _, _ => None end
  | L [I 1%Z; e; L b; oks; _] =>
      match getN e, mapM T_preconf b, getListN oks with
      | Some e, Some b, Some oks => Some (OPreconf e b oks) | _, _, _ => None end
  | L [I 2%Z; t] => option_map OClock (getN t)
  | L [I 3%Z; k] => option_map ORotate (getN k)
  | _ => None
  end.

Definition oracle_T (o : op44) : T :=
  match o with
  | ODelegate _ _ ok => L [tB ok]
  | OPreconf _ _ oks => tListN oks
  | _ => L []
  end.
Definition report_T (r : option bool) : T :=
  match r with None => L [] | Some b => L [tB b] end.
Definition upd_T (u : N * status) : T := L [tN (fst u); tN (fst (snd u)); tN (snd (snd u))].

(* insertion sort of the key map by expiration, for printing *)
Fixpoint ins_key (e : N * N) (l : list (N * N)) : list (N * N) :=
  match l with
  | [] => [e]
  | x :: r => if fst e <=? fst x then e :: l else x :: ins_key e r
  end.
Definition sort_keys (m : keymap) : list (N * N) := fold_right ins_key [] m.
Definition keys_T (m : keymap) : T := L (map (fun e => L [tN (fst e); tN (snd e)]) (sort_keys m)).

Definition entry44_T (o : op44) (out : out44) (s : st44) : T :=
  L [oracle_T o; report_T (report out); L (map upd_T (updates out)); keys_T (keys s)].

Fixpoint entries44 (ops : list op44) (res : list (out44 * st44)) : list T :=
  match ops, res with
  | o :: r, (out, s) :: res' => entry44_T o out s :: entries44 r res'
  | _, _ => []
  end.

(* the observed entry gives the real oracle; replace the op's oracle by it *)
Definition T_report (t : T) : option (option bool) :=
  match t with
  | L [] => Some None
  | L [b] => option_map Some (getB b)
  | _ => None
  end.
Definition T_upd (t : T) : option (N * status) :=
  match t with
  | L [tx; k; p] => match getN tx, getN k, getN p with
                    | Some tx, Some k, Some p => Some (tx, (k, p)) | _, _, _ => None end
  | _ => None
  end.
Definition T_obs44 (o : op44) (t : T) : option (op44 * out44) :=
  match t with
  | L [orc; rep; L ups; _] =>
      match T_report rep, mapM T_upd ups with
      | Some rep, Some ups =>
          let out := {| report := rep; updates := ups |} in
          match o, orc with
          | ODelegate e k _, L [b] => option_map (fun b => (ODelegate e k b, out)) (getB b)
          | OPreconf e bt _, oks => option_map (fun oks => (OPreconf e bt oks, out)) (getListN oks)
          | OClock t, L [] => Some (o, out)
          | ORotate k, L [] => Some (o, out)
          | _, _ => None
          end
      | _, _ => None
      end
  | _ => None
  end.
Fixpoint T_obs44s (ops : list op44) (ts : list T) : option (list (op44 * out44)) :=
  match ops, ts with
  | [], [] => Some []
  | o :: r, t :: ts' =>
      match T_obs44 o t, T_obs44s r ts' with
      | Some x, Some xs => Some (x :: xs)
      | _, _ => None
      end
  | _, _ => None
  end.

Definition main44 (input observed : T) : T :=
  match input with
  | L [L ops] =>
      match mapM T_op44 ops with
      | Some ops =>
          let model := L (entries44 ops (run44 init44 ops)) in
          let pc := match observed with
                    | L obs => match T_obs44s ops obs with
                               | Some l => c44_okb 0 [] (map fst l) (map snd l)
                               | None => false
                               end
                    | _ => false
                    end in
          L [model; tB pc]
      | None => tErr 2
      end
  | _ => tErr 1
  end.
