From FC Require Import Status.Model.
Require Extraction.
Require Import ExtrOcamlBasic.
Extraction "status_model.ml" main_T.
