(* C22: the declarative reading of the checker evaluated on implementation traces
   ([c22_okb] = true <-> [C22Spec]) and concrete examples. *)
From Coq Require Import ZifyBool ZifyN ZifyNat.
From FC Require Import Status.Model22 Status.Proofs23 Status.Proofs22.
Open Scope N_scope.

(* ---------------- nothing after the end ---------------- *)
(* an event after which the subscriber must not see anything but the end of its stream *)
Definition ending (e : vev) : Prop :=
  e = VRead REnd \/ e = VDrop \/ exists m, e = VRead (RMsg m) /\ msg_final m = true.
Definition quiet (r : rresult) : Prop := r = REnd \/ r = RNone.
Definition AllQuiet (v : list vev) : Prop := forall r, In (VRead r) v -> quiet r.
Definition NothingAfterEnd (v : list vev) : Prop :=
  forall v1 e v2 r, v = v1 ++ e :: v2 -> ending e -> In (VRead r) v2 -> quiet r.

Lemma AllQuiet_cons : forall e v,
  AllQuiet (e :: v) <-> (forall r, e = VRead r -> quiet r) /\ AllQuiet v.
Proof.
  intros. unfold AllQuiet. split.
  - intros H. split; intros; apply H; [left; auto | right; auto].
  - intros [H1 H2] r [Hi|Hi]; auto.
Qed.

Lemma shape_true_iff : forall v, reads_shapeb true v = true <-> AllQuiet v.
Proof.
  induction v as [|e v IH].
  - cbn. split; auto. intros _ r [].
  - rewrite AllQuiet_cons. destruct e as [s|[m| | |]| |]; cbn [reads_shapeb negb andb]; rewrite ?IH.
    + split; [intros H; split; auto; intros; discriminate | tauto].
    + split; [discriminate|]. intros [H _]. destruct (H _ eq_refl); discriminate.
    + split; [discriminate|]. intros [H _]. destruct (H _ eq_refl); discriminate.
    + split; [intros H; split; auto; intros r E; inversion E; left; auto | tauto].
    + split; [intros H; split; auto; intros r E; inversion E; right; auto | tauto].
    + split; [intros H; split; auto; intros; discriminate | tauto].
    + split; [intros H; split; auto; intros; discriminate | tauto].
Qed.

Lemma NAE_cons : forall e v,
  NothingAfterEnd (e :: v) <-> (ending e -> AllQuiet v) /\ NothingAfterEnd v.
Proof.
  intros e v. unfold NothingAfterEnd. split.
  - intros H. split.
    + intros He r Hi. apply (H [] e v r); auto.
    + intros v1 e' v2 r Hv He Hi. apply (H (e :: v1) e' v2 r); auto. cbn. f_equal. auto.
  - intros [H1 H2] v1 e' v2 r Hv He Hi. destruct v1 as [|x v1]; cbn in Hv; inversion Hv; subst.
    + apply H1; auto.
    + eapply H2; eauto.
Qed.

Lemma AllQuiet_NAE : forall v, AllQuiet v -> NothingAfterEnd v.
Proof.
  intros v H v1 e v2 r Hv He Hi. apply H. subst v. apply in_or_app. right. right. auto.
Qed.

Lemma shape_false_iff : forall v, reads_shapeb false v = true <-> NothingAfterEnd v.
Proof.
  induction v as [|e v IH].
  - cbn. split; auto. intros _ v1 e v2 r Hv. destruct v1; discriminate.
  - rewrite NAE_cons. destruct e as [s|[m| | |]| |]; cbn [reads_shapeb negb andb].
    + rewrite IH. split; [intros H; split; auto|tauto].
      intros [E|[E|[m [E _]]]]; discriminate.
    + destruct (msg_final m) eqn:Ef.
      * rewrite shape_true_iff. split.
        -- intros H. split; auto. apply AllQuiet_NAE; auto.
        -- intros [H _]. apply H. right. right. exists m. auto.
      * rewrite IH. split; [intros H; split; auto|tauto].
        intros [E|[E|[m' [E Ef']]]]; try discriminate. inversion E; subst. congruence.
    + rewrite IH. split; [intros H; split; auto|tauto].
      intros [E|[E|[m [E _]]]]; discriminate.
    + rewrite shape_true_iff. split.
      * intros H. split; auto. apply AllQuiet_NAE; auto.
      * intros [H _]. apply H. left. auto.
    + rewrite IH. split; [intros H; split; auto|tauto].
      intros [E|[E|[m [E _]]]]; discriminate.
    + rewrite shape_true_iff. split.
      * intros H. split; auto. apply AllQuiet_NAE; auto.
      * intros [H _]. apply H. right. left. auto.
    + rewrite IH. split; [intros H; split; auto|tauto].
      intros [E|[E|[m [E _]]]]; discriminate.
Qed.

(* Part 1 on a view *)
Definition ViewSafe (v : list vev) : Prop :=
  (exists l, msgs_statuses (view_msgs v) = Some l /\ Subseq l (upto_final (view_pubs v))) /\
  NothingAfterEnd v.

Lemma view_safeb_iff : forall v, view_safeb v = true <-> ViewSafe v.
Proof.
  intros v. unfold view_safeb, ViewSafe. destruct (msgs_statuses (view_msgs v)) as [l|].
  - rewrite andb_true_iff, subseqb_iff, shape_false_iff. split.
    + intros [H1 H2]. split; auto. exists l. auto.
    + intros [[l' [E H1]] H2]. inversion E; subst. auto.
  - split; [discriminate|]. intros [[l [E _]] _]. discriminate.
Qed.

(* Part 2 on a view: the ideal lossless FIFO, as a proposition *)
Fixpoint ViewExact (pend : list status) (fin : bool) (v : list vev) : Prop :=
  match v with
  | [] => True
  | VPub s :: r =>
      if fin then ViewExact pend fin r
      else match pend with
           | [] => ViewExact [s] (st_final s) r
           | _ => True
           end
  | VRead (RMsg (MStatus s)) :: r =>
      match pend with
      | x :: pend' => x = s /\ ViewExact pend' fin r
      | [] => False
      end
  | VRead (RMsg MFailed) :: r => False
  | VRead RPending :: r => pend = [] /\ fin = false /\ ViewExact pend fin r
  | VRead REnd :: r => pend = [] /\ fin = true /\ ViewExact pend fin r
  | VRead RNone :: r => False
  | VDrop :: r => True
  | VExpire :: r => True
  end.

Lemma view_exactb_iff : forall v pend fin, view_exactb pend fin v = true <-> ViewExact pend fin v.
Proof.
  induction v as [|e v IH]; intros pend fin; cbn [view_exactb ViewExact]; [tauto|].
  destruct e as [s|[[s|]| | |]| |]; try tauto; try (split; [discriminate | contradiction]).
  - destruct fin; auto. destruct pend; [apply IH | tauto].
  - destruct pend as [|x pend]; [split; [discriminate | contradiction]|].
    rewrite andb_true_iff, status_eqb_iff, IH. tauto.
  - destruct pend; [|split; [discriminate | intros [? _]; discriminate]].
    rewrite andb_true_iff, IH. destruct fin; cbn [negb]; intuition discriminate.
  - destruct pend; [|split; [discriminate | intros [? _]; discriminate]].
    rewrite andb_true_iff, IH. destruct fin; intuition discriminate.
Qed.

(* subscriber ids *)
Fixpoint IdsOk (next : nat) (ops : list op22) (outs : list out22) : Prop :=
  match ops, outs with
  | [], [] => True
  | o :: r, out :: outs' =>
      match o, out with
      | OSubscribe _, OutSub (Some id) => id = next /\ IdsOk (S next) r outs'
      | OSubscribe _, OutSub None => IdsOk next r outs'
      | OSubscribe _, _ => False
      | ORead _, OutRead _ => IdsOk next r outs'
      | ORead _, _ => False
      | _, OutUnit => IdsOk next r outs'
      | _, _ => False
      end
  | _, _ => False
  end.

Lemma ids_okb_iff : forall ops next outs, ids_okb next ops outs = true <-> IdsOk next ops outs.
Proof.
  induction ops as [|o r IH]; intros next outs; destruct outs as [|out outs']; cbn [ids_okb IdsOk];
    try tauto; try (split; [discriminate | contradiction]).
  destruct o; destruct out as [|[sid|]|rr]; try apply IH; try (split; [discriminate | contradiction]).
  rewrite andb_true_iff, Nat.eqb_eq, IH. tauto.
Qed.

(* the meaning of Pcheck on a trace (ops, outputs) *)
Definition C22Spec (ttl : N) (ops : list op22) (outs : list out22) : Prop :=
  IdsOk 0 ops outs /\
  forall id, (id < count_subs outs)%nat ->
    ViewSafe (view_of ttl id vinit ops outs) /\ ViewExact [] false (view_of ttl id vinit ops outs).

Lemma c22_okb_iff : forall ttl ops outs, c22_okb ttl ops outs = true <-> C22Spec ttl ops outs.
Proof.
  intros. unfold c22_okb, C22Spec. rewrite andb_true_iff, ids_okb_iff, forallb_forall.
  split; intros [H1 H2]; split; auto.
  - intros id Hid. assert (Hin : In id (seq 0 (count_subs outs))) by (apply in_seq; lia).
    apply H2 in Hin. apply andb_true_iff in Hin. destruct Hin as [Ha Hb].
    apply view_safeb_iff in Ha. apply view_exactb_iff in Hb. auto.
  - intros id Hin. apply in_seq in Hin. destruct (H2 id) as [Ha Hb]; [lia|].
    apply view_safeb_iff in Ha. apply view_exactb_iff in Hb. rewrite Ha, Hb. auto.
Qed.

(* ---------------- the property theorems on the model ---------------- *)
Lemma delivered_is_subsequence_all : forall cap ttl ops id, Forall wf_op ops ->
  let v := view_of ttl id vinit ops (run22 cap ttl init22 ops) in
  exists l, msgs_statuses (view_msgs v) = Some l /\ Subseq l (upto_final (view_pubs v)).
Proof.
  intros. pose proof (model_view_safe_all cap ttl ops id H) as Hs.
  apply view_safeb_iff in Hs. destruct Hs. auto.
Qed.

Lemma nothing_after_final_all : forall cap ttl ops id, Forall wf_op ops ->
  NothingAfterEnd (view_of ttl id vinit ops (run22 cap ttl init22 ops)).
Proof.
  intros. pose proof (model_view_safe_all cap ttl ops id H) as Hs.
  apply view_safeb_iff in Hs. destruct Hs. auto.
Qed.

Lemma drained_gets_all_all : forall cap ttl ops id, Forall wf_op ops ->
  ViewExact [] false (view_of ttl id vinit ops (run22 cap ttl init22 ops)).
Proof. intros. apply view_exactb_iff. apply model_view_exact_all. auto. Qed.

Lemma model_satisfies_spec : forall cap ttl ops, Forall wf_op ops ->
  C22Spec ttl ops (run22 cap ttl init22 ops).
Proof. intros. apply c22_okb_iff. apply model_passes_c22. auto. Qed.

(* ---------------- non-vacuity ---------------- *)
(* a draining subscriber: Submitted, PreConfirmationSuccess, Success are all delivered, then End *)
Example c22_drained :
  let ops := [OSubscribe 0; OPublish 0 (0, 1); ORead 0; ORead 0; OPublish 0 (2, 2); ORead 0;
              OPublish 0 (1, 3); OPublish 0 (0, 4); ORead 0; ORead 0] in
  run22 4 100 init22 ops =
    [OutSub (Some 0%nat); OutUnit; OutRead (RMsg (MStatus (0, 1))); OutRead RPending; OutUnit;
     OutRead (RMsg (MStatus (2, 2))); OutUnit; OutUnit; OutRead (RMsg (MStatus (1, 3))); OutRead REnd] /\
  Forall wf_op ops.
Proof.
  split; [vm_compute; reflexivity|].
  repeat (apply Forall_cons; [cbn; unfold wf_status; cbn; first [exact Logic.I | lia] |]). apply Forall_nil.
Qed.

(* a subscriber that does not read: three statuses fit, the fourth is lost, the fifth closes the
   stream; the permit limit refuses a second subscription until the first sender is gone *)
Example c22_overflow :
  let ops := [OSubscribe 0; OSubscribe 0; OPublish 0 (0, 1); OPublish 0 (0, 2); OPublish 0 (0, 3);
              OPublish 0 (0, 4); OPublish 0 (0, 5); OSubscribe 0;
              ORead 0; ORead 0; ORead 0; ORead 0; ORead 1] in
  run22 1 100 init22 ops =
    [OutSub (Some 0%nat); OutSub None; OutUnit; OutUnit; OutUnit; OutUnit; OutUnit; OutSub (Some 1%nat);
     OutRead (RMsg (MStatus (0, 1))); OutRead (RMsg (MStatus (0, 2))); OutRead (RMsg (MStatus (0, 3)));
     OutRead REnd; OutRead RPending].
Proof. vm_compute. reflexivity. Qed.
