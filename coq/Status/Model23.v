(* Executable model of the status cache of fuel-core-tx-status-manager (C23):
     crates/services/tx_status_manager/src/manager.rs
       Data, TxStatusManager::{is_prunable, prune_old_statuses, add_new_status,
                               register_status, status}
   Time is an input: [now] is the value of tokio::time::Instant::now() in milliseconds
   since the start of the run (Instant arithmetic is assumed not to overflow).
   Definitions only; proofs are in Proofs23.v. *)
From FC Require Export Common.T.
Open Scope N_scope.

(* A transaction status = (kind, payload).  kind = index of the variant of
   TransactionStatus in declaration order:
     0 Submitted  1 Success  2 PreConfirmationSuccess  3 SqueezedOut
     4 PreConfirmationSqueezedOut  5 Failure  6 PreConfirmationFailure
   payload identifies the publication. *)
Definition status := (N * N)%type.
Definition st_kind (s : status) : N := fst s.

Definition is_prunable (s : status) : bool := negb (st_kind s =? 0).

(* HashMap<TxId, _> as an association list with at most one entry per key *)
Definition amap (A : Type) := list (N * A).
Fixpoint aget {A} (k : N) (m : amap A) : option A :=
  match m with
  | [] => None
  | (k', v) :: r => if k' =? k then Some v else aget k r
  end.
Fixpoint aremove {A} (k : N) (m : amap A) : amap A :=
  match m with
  | [] => []
  | (k', v) :: r => if k' =? k then aremove k r else (k', v) :: aremove k r
  end.
Definition aput {A} (k : N) (v : A) (m : amap A) : amap A := (k, v) :: aremove k m.

(* pruning_queue : VecDeque<(Instant, TxId)>.  The list is written from the BACK of the
   deque (oldest entry, the one prune_old_statuses looks at) to the FRONT:
   push_front x = q ++ [x],  back/pop_back = head. *)
Record data := {
  queue : list (N * N);
  prunable : amap (N * status);
  non_prunable : amap status
}.

Definition empty : data := {| queue := []; prunable := []; non_prunable := [] |}.

(* while let Some((past, _)) = queue.back() { if now - past < ttl { break }; pop_back;
     if prunable[tx].timestamp == past { remove } } *)
Fixpoint prune_loop (now ttl : N) (q : list (N * N)) (pm : amap (N * status))
  : list (N * N) * amap (N * status) :=
  match q with
  | [] => ([], pm)
  | (past, tx) :: r =>
      if now - past <? ttl then (q, pm)
      else
        let pm' := match aget tx pm with
                   | Some (timestamp, _) => if timestamp =? past then aremove tx pm else pm
                   | None => pm
                   end in
        prune_loop now ttl r pm'
  end.

Definition prune_old_statuses (now ttl : N) (d : data) : data :=
  let '(q, pm) := prune_loop now ttl (queue d) (prunable d) in
  {| queue := q; prunable := pm; non_prunable := non_prunable d |}.

Definition add_new_status (now : N) (tx : N) (s : status) (d : data) : data :=
  if is_prunable s then
    {| queue := queue d ++ [(now, tx)];
       prunable := aput tx (now, s) (prunable d);
       non_prunable := aremove tx (non_prunable d) |}
  else
    {| queue := queue d; prunable := prunable d;
       non_prunable := aput tx s (non_prunable d) |}.

Definition register_status (now ttl : N) (tx : N) (s : status) (d : data) : data :=
  add_new_status now tx s (prune_old_statuses now ttl d).

Definition get_status (d : data) (tx : N) : option status :=
  match aget tx (non_prunable d) with
  | Some s => Some s
  | None => option_map snd (aget tx (prunable d))
  end.

(* operations of a history *)
Inductive op := Publish (tx : N) (s : status) | Advance (dt : N).

Definition step (ttl : N) (st : N * data) (o : op) : N * data :=
  let '(now, d) := st in
  match o with
  | Publish tx s => (now, register_status now ttl tx s d)
  | Advance dt => (now + dt, d)
  end.

Definition run_from (ttl : N) (st : N * data) (ops : list op) : N * data :=
  fold_left (step ttl) ops st.
Definition run (ttl : N) (ops : list op) : N * data := run_from ttl (0, empty) ops.

(* ------------------------------------------------------------------ *)
(* The specification: what a status query must return, computed from the history
   alone.  An event = (time, tx, status) of a publication (= a register_status call). *)
Definition event := (N * N * status)%type.
Definition ev_time (e : event) : N := fst (fst e).
Definition ev_tx (e : event) : N := snd (fst e).
Definition ev_st (e : event) : status := snd e.

Fixpoint timeline (now : N) (ops : list op) : list event :=
  match ops with
  | [] => []
  | Publish tx s :: r => (now, tx, s) :: timeline now r
  | Advance dt :: r => timeline (now + dt) r
  end.

Definition published (evs : list event) (tx : N) : bool :=
  existsb (fun e => ev_tx e =? tx) evs.
(* some later register call saw this status with age >= ttl *)
Definition expired_by (ttl t : N) (later : list event) : bool :=
  existsb (fun e => ttl <=? ev_time e - t) later.

(* the last publication of tx decides; [r] = everything registered after it *)
Fixpoint spec_status (ttl : N) (evs : list event) (tx : N) : option status :=
  match evs with
  | [] => None
  | e :: r =>
      if (ev_tx e =? tx) && negb (published r tx)
      then if is_prunable (ev_st e) && expired_by ttl (ev_time e) r then None
           else Some (ev_st e)
      else spec_status ttl r tx
  end.

(* ------------------------------------------------------------------ *)
(* the consistency the crate's tests assert (Data::assert_consistency), decidable *)
Definition pair_eqb (a b : N * N) : bool := (fst a =? fst b) && (snd a =? snd b).
Definition consistentb (d : data) : bool :=
  forallb (fun e => let '(tx, (ts, _)) := e in existsb (pair_eqb (ts, tx)) (queue d))
          (prunable d) &&
  forallb (fun e => match aget (snd e) (prunable d) with Some _ => true | None => false end)
          (queue d).

(* ------------------------------------------------------------------ *)
(* observation after each op (what the harness prints) and the checker *)
Fixpoint nseq (n : nat) (a : N) : list N :=
  match n with O => [] | S n' => a :: nseq n' (a + 1) end.
Definition txs (ntx : N) : list N := nseq (N.to_nat ntx) 0.

Definition status_T (s : status) : T := L [tN (fst s); tN (snd s)].
Definition ostatus_T (o : option status) : T :=
  match o with None => L [] | Some s => status_T s end.
Definition T_status (t : T) : option status :=
  match t with
  | L [k; p] => match getN k, getN p with Some k, Some p => Some (k, p) | _, _ => None end
  | _ => None
  end.
Definition T_ostatus (t : T) : option (option status) :=
  match t with
  | L [] => Some None
  | _ => option_map Some (T_status t)
  end.

Definition concat_map {A B} (f : A -> list B) (l : list A) : list B := flat_map f l.

Definition obs_T (ntx : N) (d : data) : T :=
  L [ L (map (fun tx => ostatus_T (get_status d tx)) (txs ntx));
      L (map (fun e => L [tN (fst e); tN (snd e)]) (queue d));
      L (concat_map (fun tx => match aget tx (prunable d) with
                               | Some (ts, s) => [L [tN tx; tN ts; tN (fst s); tN (snd s)]]
                               | None => [] end) (txs ntx));
      L (concat_map (fun tx => match aget tx (non_prunable d) with
                               | Some s => [L [tN tx; tN (fst s); tN (snd s)]]
                               | None => [] end) (txs ntx)) ].

Fixpoint run_obs (ttl ntx : N) (st : N * data) (ops : list op) : list T :=
  match ops with
  | [] => []
  | o :: r => let st' := step ttl st o in obs_T ntx (snd st') :: run_obs ttl ntx st' r
  end.

(* decoding of an observed entry into (answers, data) *)
Definition T_qentry (t : T) : option (N * N) :=
  match t with
  | L [a; b] => match getN a, getN b with Some a, Some b => Some (a, b) | _, _ => None end
  | _ => None
  end.
Definition T_pentry (t : T) : option (N * (N * status)) :=
  match t with
  | L [tx; ts; k; p] =>
      match getN tx, getN ts, getN k, getN p with
      | Some tx, Some ts, Some k, Some p => Some (tx, (ts, (k, p)))
      | _, _, _, _ => None
      end
  | _ => None
  end.
Definition T_nentry (t : T) : option (N * status) :=
  match t with
  | L [tx; k; p] =>
      match getN tx, getN k, getN p with
      | Some tx, Some k, Some p => Some (tx, (k, p))
      | _, _, _ => None
      end
  | _ => None
  end.
Definition T_obs (t : T) : option (list (option status) * data) :=
  match t with
  | L [L ans; L q; L pm; L npm] =>
      match mapM T_ostatus ans, mapM T_qentry q, mapM T_pentry pm, mapM T_nentry npm with
      | Some ans, Some q, Some pm, Some npm =>
          Some (ans, {| queue := q; prunable := pm; non_prunable := npm |})
      | _, _, _, _ => None
      end
  | _ => None
  end.

Definition ostatus_eqb (a b : option status) : bool :=
  match a, b with
  | None, None => true
  | Some x, Some y => pair_eqb x y
  | _, _ => false
  end.
Fixpoint answers_eqb (a b : list (option status)) : bool :=
  match a, b with
  | [], [] => true
  | x :: a', y :: b' => ostatus_eqb x y && answers_eqb a' b'
  | _, _ => false
  end.

(* Pcheck of C23 on an implementation trace: after every op the answers of the status
   queries for tx 0..ntx equal the specification computed from the history so far, and
   the observed cache satisfies the consistency invariant. *)
Fixpoint c23_okb (ttl ntx now : N) (evs : list event) (ops : list op)
         (obs : list (list (option status) * data)) : bool :=
  match ops, obs with
  | [], [] => true
  | o :: r, (ans, d) :: obs' =>
      let now' := match o with Advance dt => now + dt | _ => now end in
      let evs' := match o with Publish tx s => evs ++ [(now, tx, s)] | _ => evs end in
      answers_eqb ans (map (spec_status ttl evs') (txs ntx)) &&
      consistentb d &&
      c23_okb ttl ntx now' evs' r obs'
  | _, _ => false
  end.

Definition T_op (t : T) : option op :=
  match t with
  | L [I 0%Z; tx; k; p] =>
      match getN tx, getN k, getN p with
      | Some tx, Some k, Some p => Some (Publish tx (k, p))
      | _, _, _ => None
      end
  | L [I 1%Z; dt] => option_map Advance (getN dt)
  | _ => None
  end.

Definition main23 (input observed : T) : T :=
  match input with
  | L [ttl; ntx; L ops] =>
      match getN ttl, getN ntx, mapM T_op ops with
      | Some ttl, Some ntx, Some ops =>
          let model := L (run_obs ttl ntx (0, empty) ops) in
          let pc := match observed with
                    | L obs => match mapM T_obs obs with
                               | Some obs => c23_okb ttl ntx 0 [] ops obs
                               | None => false
                               end
                    | _ => false
                    end in
          L [model; tB pc]
      | _, _, _ => tErr 2
      end
  | _ => tErr 1
  end.
