(* Proofs for C23: the status cache returns the latest published status until it
   expires.  Invariant [Inv] ties the cache to the history; [status_is_spec] is the
   refinement to the history-only specification [spec_status]. *)
From Coq Require Import ZifyBool ZifyN ZifyNat Sorted.
From FC Require Import Status.Model23.
Open Scope N_scope.

(* ---------------- association lists ---------------- *)
Lemma aget_aremove_eq : forall A k (m : amap A), aget k (aremove k m) = None.
Proof.
  induction m as [|[k' v] r IH]; cbn [aremove aget]; auto.
  destruct (k' =? k) eqn:E; auto. cbn [aget]. rewrite E. auto.
Qed.

Lemma aget_aremove_neq : forall A k k' (m : amap A), k' <> k ->
  aget k' (aremove k m) = aget k' m.
Proof.
  induction m as [|[k2 v] r IH]; intros Hn; cbn [aremove aget]; auto.
  destruct (k2 =? k) eqn:E.
  - destruct (k2 =? k') eqn:E2; [lia | auto].
  - cbn [aget]. rewrite IH; auto.
Qed.

Lemma aget_aput_eq : forall A k (v : A) m, aget k (aput k v m) = Some v.
Proof. intros. unfold aput. cbn [aget]. rewrite N.eqb_refl. auto. Qed.

Lemma aget_aput_neq : forall A k k' (v : A) m, k' <> k -> aget k' (aput k v m) = aget k' m.
Proof.
  intros. unfold aput. cbn [aget]. destruct (k =? k') eqn:E; [lia|].
  apply aget_aremove_neq; auto.
Qed.

Lemma In_aremove : forall A k k' (v : A) m, In (k', v) (aremove k m) -> In (k', v) m /\ k' <> k.
Proof.
  induction m as [|[k2 v2] r IH]; cbn [aremove]; intros H; [contradiction|].
  destruct (k2 =? k) eqn:E.
  - destruct (IH H). split; [right|]; auto.
  - destruct H as [H|H].
    + inversion H; subst. split; [left; auto | lia].
    + destruct (IH H). split; [right|]; auto.
Qed.

Lemma NoDup_aremove : forall A k (m : amap A), NoDup (map fst m) -> NoDup (map fst (aremove k m)).
Proof.
  induction m as [|[k2 v2] r IH]; cbn [aremove map fst]; intros H; auto.
  inversion H; subst.
  destruct (k2 =? k) eqn:E; auto.
  cbn [map fst]. constructor; auto.
  intros Hin. apply in_map_iff in Hin. destruct Hin as [[k3 v3] [Hk Hin]]. cbn in Hk. subst k3.
  apply In_aremove in Hin. destruct Hin as [Hin _].
  apply H2. apply in_map_iff. exists (k2, v3). auto.
Qed.

Lemma NoDup_aput : forall A k (v : A) m, NoDup (map fst m) -> NoDup (map fst (aput k v m)).
Proof.
  intros. unfold aput. cbn [map fst]. constructor.
  - intros Hin. apply in_map_iff in Hin. destruct Hin as [[k3 v3] [Hk Hin]]. cbn in Hk. subst k3.
    apply In_aremove in Hin. destruct Hin. congruence.
  - apply NoDup_aremove; auto.
Qed.

Lemma aget_In : forall A k (v : A) m, NoDup (map fst m) -> In (k, v) m -> aget k m = Some v.
Proof.
  induction m as [|[k2 v2] r IH]; cbn [map fst aget]; intros Hd Hin; [contradiction|].
  inversion Hd; subst. destruct Hin as [Hin|Hin].
  - inversion Hin; subst. rewrite N.eqb_refl. auto.
  - destruct (k2 =? k) eqn:E.
    + exfalso. apply H1. apply in_map_iff. exists (k, v). split; auto. cbn. lia.
    + auto.
Qed.

Lemma aget_Some_In : forall A k (v : A) m, aget k m = Some v -> In (k, v) m.
Proof.
  induction m as [|[k2 v2] r IH]; cbn [aget]; intros H; [discriminate|].
  destruct (k2 =? k) eqn:E.
  - inversion H; subst. left. f_equal. lia.
  - right. auto.
Qed.

(* ---------------- the history ghost ---------------- *)
(* info evs tx = (time, status, expired?) of the last publication of tx *)
Fixpoint info (ttl : N) (evs : list event) (tx : N) : option (N * status * bool) :=
  match evs with
  | [] => None
  | e :: r =>
      if (ev_tx e =? tx) && negb (published r tx)
      then Some (ev_time e, ev_st e, expired_by ttl (ev_time e) r)
      else info ttl r tx
  end.

Lemma spec_status_info : forall ttl evs tx,
  spec_status ttl evs tx =
  match info ttl evs tx with
  | None => None
  | Some (t, s, ex) => if is_prunable s && ex then None else Some s
  end.
Proof.
  induction evs as [|e r IH]; intros; cbn [spec_status info]; auto.
  destruct ((ev_tx e =? tx) && negb (published r tx)); auto.
Qed.

Lemma published_app : forall a b tx, published (a ++ b) tx = published a tx || published b tx.
Proof. intros. unfold published. apply existsb_app. Qed.

Lemma expired_by_app : forall ttl t a b,
  expired_by ttl t (a ++ b) = expired_by ttl t a || expired_by ttl t b.
Proof. intros. unfold expired_by. apply existsb_app. Qed.

Lemma info_snoc : forall ttl evs e tx,
  info ttl (evs ++ [e]) tx =
  if ev_tx e =? tx then Some (ev_time e, ev_st e, false)
  else match info ttl evs tx with
       | None => None
       | Some (t, s, ex) => Some (t, s, ex || (ttl <=? ev_time e - t))
       end.
Proof.
  induction evs as [|a r IH]; intros e tx.
  - cbn [app info published existsb expired_by]. destruct (ev_tx e =? tx); auto.
  - cbn [app info]. rewrite published_app, expired_by_app.
    cbn [published expired_by existsb]. rewrite !orb_false_r.
    destruct (ev_tx e =? tx) eqn:E.
    + rewrite orb_true_r. cbn [negb]. rewrite andb_false_r. rewrite IH, E. auto.
    + rewrite orb_false_r.
      destruct ((ev_tx a =? tx) && negb (published r tx)); auto.
      rewrite IH, E. auto.
Qed.

(* ---------------- the invariant ---------------- *)
Definition qle (a b : N * N) : Prop := fst a <= fst b.

Record Inv (ttl now : N) (evs : list event) (d : data) : Prop := {
  inv_sorted : StronglySorted qle (queue d);
  inv_past : Forall (fun e => fst e <= now) (queue d);
  inv_nodup : NoDup (map fst (prunable d));
  inv_in_queue : forall tx ts s, aget tx (prunable d) = Some (ts, s) -> In (ts, tx) (queue d);
  inv_in_map : forall t tx, In (t, tx) (queue d) ->
                 exists ts s, aget tx (prunable d) = Some (ts, s) /\ t <= ts;
  inv_hist : forall tx,
      match info ttl evs tx with
      | None => aget tx (prunable d) = None /\ aget tx (non_prunable d) = None
      | Some (t, s, ex) =>
          if is_prunable s
          then aget tx (non_prunable d) = None /\
               aget tx (prunable d) = (if ex then None else Some (t, s))
          else aget tx (non_prunable d) = Some s
      end
}.

Lemma Inv_empty : forall ttl, Inv ttl 0 [] empty.
Proof.
  intros. constructor; cbn; auto; try constructor; try discriminate; try contradiction.
Qed.

Lemma SSorted_app_r : forall (a b : list (N * N)), StronglySorted qle (a ++ b) -> StronglySorted qle b.
Proof.
  induction a; cbn; intros; auto. inversion H; subst. auto.
Qed.

Lemma SSorted_snoc : forall (q : list (N * N)) x,
  StronglySorted qle q -> Forall (fun a => qle a x) q -> StronglySorted qle (q ++ [x]).
Proof.
  induction q as [|a r IH]; cbn; intros x Hs Hf.
  - constructor; constructor.
  - inversion Hs; subst. inversion Hf; subst. constructor; auto.
    apply Forall_app. split; auto.
Qed.

(* what one run of the pruning loop does *)
Lemma prune_loop_spec : forall now ttl q pm,
  StronglySorted qle q ->
  (forall tx ts s, aget tx pm = Some (ts, s) -> ttl <= now - ts -> In (ts, tx) q) ->
  exists dropped,
    q = dropped ++ fst (prune_loop now ttl q pm) /\
    Forall (fun e => now - fst e < ttl) (fst (prune_loop now ttl q pm)) /\
    (forall k, aget k (snd (prune_loop now ttl q pm)) =
               match aget k pm with
               | Some (ts, s) => if ttl <=? now - ts then None else Some (ts, s)
               | None => None
               end) /\
    (NoDup (map fst pm) -> NoDup (map fst (snd (prune_loop now ttl q pm)))).
Proof.
  induction q as [|[past tx0] r IH]; intros pm Hs Hin.
  - exists []. cbn [prune_loop fst snd app]. repeat split; auto.
    intros k. destruct (aget k pm) as [[ts s]|] eqn:E; auto.
    destruct (ttl <=? now - ts) eqn:E2; auto.
    exfalso. eapply Hin in E; [contradiction | lia].
  - cbn [prune_loop]. destruct (now - past <? ttl) eqn:Elt.
    + exists []. cbn [fst snd app]. repeat split; auto.
      * inversion Hs; subst. constructor; [cbn; lia|].
        eapply Forall_impl; [|exact H2]. unfold qle. cbn. intros a Ha. lia.
      * intros k. destruct (aget k pm) as [[ts s]|] eqn:E; auto.
        destruct (ttl <=? now - ts) eqn:E2; auto.
        exfalso. assert (Hi : In (ts, k) ((past, tx0) :: r)) by (eapply Hin; eauto; lia).
        inversion Hs; subst.
        destruct Hi as [Hi|Hi]; [inversion Hi; subst; lia|].
        rewrite Forall_forall in H2. apply H2 in Hi. unfold qle in Hi. cbn in Hi. lia.
    + inversion Hs; subst.
      set (pm1 := match aget tx0 pm with
                  | Some (timestamp, _) => if timestamp =? past then aremove tx0 pm else pm
                  | None => pm end).
      assert (Hget1 : forall k, aget k pm1 =
                if (k =? tx0) then
                  match aget tx0 pm with
                  | Some (ts, s) => if ts =? past then None else Some (ts, s)
                  | None => None end
                else aget k pm).
      { intros k. unfold pm1. destruct (k =? tx0) eqn:Ek.
        - assert (k = tx0) by lia. subst k.
          destruct (aget tx0 pm) as [[ts s]|] eqn:E; auto.
          destruct (ts =? past); auto. apply aget_aremove_eq.
        - destruct (aget tx0 pm) as [[ts s]|] eqn:E; auto.
          destruct (ts =? past); auto. apply aget_aremove_neq. lia. }
      destruct (IH pm1 H1) as [dropped [Hq [Hf [Hg Hnd]]]].
      { intros tx ts s Hget Hexp. rewrite Hget1 in Hget.
        destruct (tx =? tx0) eqn:Ek.
        - assert (tx = tx0) by lia. subst tx.
          destruct (aget tx0 pm) as [[ts' s']|] eqn:E; [|discriminate].
          destruct (ts' =? past) eqn:Ep; [discriminate|]. inversion Hget; subst.
          assert (Hi : In (ts, tx0) ((past, tx0) :: r)) by (eapply Hin; eauto).
          destruct Hi as [Hi|Hi]; auto. inversion Hi; subst. lia.
        - assert (Hi : In (ts, tx) ((past, tx0) :: r)) by (eapply Hin; eauto).
          destruct Hi as [Hi|Hi]; auto. inversion Hi; subst. lia. }
      exists ((past, tx0) :: dropped). fold pm1. repeat split; auto.
      * cbn [app]. f_equal. auto.
      * intros k. rewrite Hg, Hget1. destruct (k =? tx0) eqn:Ek; auto.
        assert (k = tx0) by lia. subst k.
        destruct (aget tx0 pm) as [[ts s]|] eqn:E; auto.
        destruct (ts =? past) eqn:Ep; auto.
        assert (ts = past) by lia. subst ts.
        destruct (ttl <=? now - past) eqn:E3; auto. lia.
      * intros Hn. apply Hnd. unfold pm1.
        destruct (aget tx0 pm) as [[ts s]|]; auto.
        destruct (ts =? past); auto. apply NoDup_aremove; auto.
Qed.

Lemma prune_dropped_expired : forall now ttl q pm,
  exists dropped, q = dropped ++ fst (prune_loop now ttl q pm) /\
                  Forall (fun e => ttl <= now - fst e) dropped.
Proof.
  induction q as [|[past tx0] r IH]; intros pm.
  - exists []. cbn. auto.
  - cbn [prune_loop]. destruct (now - past <? ttl) eqn:E.
    + exists []. cbn. auto.
    + match goal with |- context [prune_loop now ttl r ?p] => destruct (IH p) as [dr [Hq Hf]] end.
      exists ((past, tx0) :: dr). split.
      * cbn [app]. f_equal. exact Hq.
      * constructor; auto. cbn. lia.
Qed.

Lemma Inv_register : forall ttl now evs d tx0 s0,
  Inv ttl now evs d ->
  Inv ttl now (evs ++ [(now, tx0, s0)]) (register_status now ttl tx0 s0 d).
Proof.
  intros ttl now evs d tx0 s0 [Hs Hp Hnd Hq Hm Hh].
  unfold register_status, prune_old_statuses.
  destruct (prune_loop_spec now ttl (queue d) (prunable d) Hs) as [dropped [Hsplit [Hfresh [Hget Hnd']]]].
  { intros. eapply Hq; eauto. }
  destruct (prune_dropped_expired now ttl (queue d) (prunable d)) as [dropped2 [Hsplit2 Hexp]].
  assert (dropped2 = dropped).
  { assert (length dropped2 = length dropped).
    { apply (f_equal (@length _)) in Hsplit. apply (f_equal (@length _)) in Hsplit2.
      rewrite app_length in *. lia. }
    rewrite Hsplit2 in Hsplit at 1.
    clear - Hsplit H. revert dropped H Hsplit.
    induction dropped2; destruct dropped; cbn; intros; try discriminate; auto.
    inversion Hsplit; subst. f_equal. eapply IHdropped2; eauto. }
  subst dropped2. clear Hsplit2.
  destruct (prune_loop now ttl (queue d) (prunable d)) as [q' pm'] eqn:Epl.
  cbn [fst snd] in *.
  assert (Hs' : StronglySorted qle q').
  { rewrite Hsplit in Hs. eapply SSorted_app_r; eauto. }
  assert (Hp' : Forall (fun e => fst e <= now) q').
  { rewrite Hsplit in Hp. apply Forall_app in Hp. tauto. }
  (* C1 and C2 after pruning *)
  assert (Hq' : forall tx ts s, aget tx pm' = Some (ts, s) -> In (ts, tx) q').
  { intros tx ts s Hg. rewrite Hget in Hg.
    destruct (aget tx (prunable d)) as [[ts1 s1]|] eqn:E; [|discriminate].
    destruct (ttl <=? now - ts1) eqn:E2; [discriminate|]. inversion Hg; subst.
    apply Hq in E. rewrite Hsplit in E. apply in_app_or in E. destruct E as [E|E]; auto.
    rewrite Forall_forall in Hexp. apply Hexp in E. cbn in E. lia. }
  assert (Hm' : forall t tx, In (t, tx) q' -> exists ts s, aget tx pm' = Some (ts, s) /\ t <= ts).
  { intros t tx Hi.
    assert (Hi2 : In (t, tx) (queue d)) by (rewrite Hsplit; apply in_or_app; auto).
    destruct (Hm _ _ Hi2) as [ts [s [Hg Hle]]].
    exists ts, s. split; auto. rewrite Hget, Hg.
    rewrite Forall_forall in Hfresh. apply Hfresh in Hi. cbn in Hi.
    destruct (ttl <=? now - ts) eqn:E; auto. lia. }
  unfold add_new_status. cbn [queue prunable non_prunable].
  destruct (is_prunable s0) eqn:Epr.
  - constructor; cbn [queue prunable non_prunable].
    + apply SSorted_snoc; [exact Hs'|]. eapply Forall_impl; [|exact Hp']. unfold qle. cbn. auto.
    + apply Forall_app. split; auto. constructor; [cbn; lia | constructor].
    + apply NoDup_aput; auto.
    + intros tx ts s Hg. destruct (N.eq_dec tx tx0) as [->|Hne].
      * rewrite aget_aput_eq in Hg. inversion Hg; subst. apply in_or_app. right. left. auto.
      * rewrite aget_aput_neq in Hg by auto. apply in_or_app. left. eauto.
    + intros t tx Hi. apply in_app_or in Hi. destruct Hi as [Hi|Hi].
      * destruct (N.eq_dec tx tx0) as [->|Hne].
        -- exists now, s0. rewrite aget_aput_eq. split; auto.
           rewrite Forall_forall in Hp'. apply Hp' in Hi. cbn in Hi. auto.
        -- rewrite aget_aput_neq by auto. eauto.
      * destruct Hi as [Hi|[]]. inversion Hi; subst.
        exists t, s0. rewrite aget_aput_eq. split; auto. lia.
    + intros tx. rewrite info_snoc. cbn [ev_tx ev_time ev_st fst snd].
      destruct (tx0 =? tx) eqn:E.
      * assert (tx0 = tx) by lia. subst tx. rewrite Epr.
        rewrite aget_aremove_eq, aget_aput_eq. auto.
      * assert (tx <> tx0) by lia.
        rewrite aget_aput_neq, aget_aremove_neq by auto.
        specialize (Hh tx). rewrite Hget.
        destruct (info ttl evs tx) as [[[t s] ex]|].
        -- destruct (is_prunable s); auto.
           destruct Hh as [H1 H2]. split; auto. rewrite H2.
           destruct ex; cbn [orb]; auto.
        -- destruct Hh as [H1 H2]. rewrite H1. auto.
  - constructor; cbn [queue prunable non_prunable]; auto.
    intros tx. rewrite info_snoc. cbn [ev_tx ev_time ev_st fst snd].
    destruct (tx0 =? tx) eqn:E.
    * assert (tx0 = tx) by lia. subst tx. rewrite Epr. apply aget_aput_eq.
    * assert (tx <> tx0) by lia.
      rewrite aget_aput_neq by auto.
      specialize (Hh tx). rewrite Hget.
      destruct (info ttl evs tx) as [[[t s] ex]|].
      -- destruct (is_prunable s); auto.
         destruct Hh as [H1 H2]. split; auto. rewrite H2.
         destruct ex; cbn [orb]; auto.
      -- destruct Hh as [H1 H2]. rewrite H1. auto.
Qed.

Lemma Inv_advance : forall ttl now evs d dt, Inv ttl now evs d -> Inv ttl (now + dt) evs d.
Proof.
  intros ttl now evs d dt [Hs Hp Hnd Hq Hm Hh]. constructor; auto.
  eapply Forall_impl; [|exact Hp]. cbn. intros. lia.
Qed.

Lemma Inv_run : forall ttl ops now evs d,
  Inv ttl now evs d ->
  Inv ttl (fst (run_from ttl (now, d) ops)) (evs ++ timeline now ops)
      (snd (run_from ttl (now, d) ops)).
Proof.
  induction ops as [|o r IH]; intros now evs d H.
  - cbn. rewrite app_nil_r. auto.
  - unfold run_from in *. cbn [fold_left step timeline]. destruct o as [tx s|dt].
    + replace (evs ++ (now, tx, s) :: timeline now r) with ((evs ++ [(now, tx, s)]) ++ timeline now r)
        by (rewrite <- app_assoc; auto).
      apply IH. apply Inv_register; auto.
    + apply IH. apply Inv_advance; auto.
Qed.

Lemma Inv_status : forall ttl now evs d tx,
  Inv ttl now evs d -> get_status d tx = spec_status ttl evs tx.
Proof.
  intros ttl now evs d tx H. rewrite spec_status_info. unfold get_status.
  pose proof (inv_hist _ _ _ _ H tx) as Hh.
  destruct (info ttl evs tx) as [[[t s] ex]|].
  - destruct (is_prunable s).
    + destruct Hh as [H1 H2]. rewrite H1, H2. destruct ex; auto.
    + rewrite Hh. auto.
  - destruct Hh as [H1 H2]. rewrite H1, H2. auto.
Qed.

(* ---------------- consistency (Data::assert_consistency) ---------------- *)
Definition Consistent (d : data) : Prop :=
  (forall tx ts s, In (tx, (ts, s)) (prunable d) -> In (ts, tx) (queue d)) /\
  (forall t tx, In (t, tx) (queue d) -> aget tx (prunable d) <> None).

Lemma pair_eqb_iff : forall a b, pair_eqb a b = true <-> a = b.
Proof.
  intros [a1 a2] [b1 b2]. unfold pair_eqb. cbn. split; intros H.
  - f_equal; lia.
  - inversion H; subst. lia.
Qed.

Lemma consistentb_iff : forall d, consistentb d = true <-> Consistent d.
Proof.
  intros d. unfold consistentb, Consistent. rewrite andb_true_iff, !forallb_forall. split.
  - intros [H1 H2]. split.
    + intros tx ts s Hi. apply H1 in Hi. apply existsb_exists in Hi.
      destruct Hi as [x [Hx He]]. apply pair_eqb_iff in He. subst x. auto.
    + intros t tx Hi. apply H2 in Hi. cbn in Hi. destruct (aget tx (prunable d)); congruence.
  - intros [H1 H2]. split.
    + intros [tx [ts s]] Hi. apply existsb_exists. exists (ts, tx). split; eauto.
      apply pair_eqb_iff. auto.
    + intros [t tx] Hi. cbn. apply H2 in Hi. destruct (aget tx (prunable d)); congruence.
Qed.

Lemma Inv_consistent : forall ttl now evs d, Inv ttl now evs d -> Consistent d.
Proof.
  intros ttl now evs d H. split.
  - intros tx ts s Hi. apply (inv_in_queue _ _ _ _ H tx ts s). apply aget_In; auto.
    exact (inv_nodup _ _ _ _ H).
  - intros t tx Hi. destruct (inv_in_map _ _ _ _ H _ _ Hi) as [ts [s [Hg _]]]. congruence.
Qed.

(* ---------------- the property theorems ---------------- *)
Lemma status_is_spec_all : forall ttl ops tx,
  get_status (snd (run ttl ops)) tx = spec_status ttl (timeline 0 ops) tx.
Proof.
  intros. unfold run.
  pose proof (Inv_run ttl ops 0 [] empty (Inv_empty ttl)) as H. cbn [app] in H.
  eapply Inv_status; eauto.
Qed.

Lemma cache_consistent_all : forall ttl ops, Consistent (snd (run ttl ops)).
Proof.
  intros. unfold run.
  pose proof (Inv_run ttl ops 0 [] empty (Inv_empty ttl)) as H.
  eapply Inv_consistent; eauto.
Qed.

Lemma spec_status_last : forall ttl before t tx s later,
  published later tx = false ->
  spec_status ttl (before ++ (t, tx, s) :: later) tx =
  if is_prunable s && expired_by ttl t later then None else Some s.
Proof.
  induction before as [|a r IH]; intros t tx s later Hl.
  - cbn [app spec_status ev_tx ev_time ev_st fst snd]. rewrite N.eqb_refl, Hl. auto.
  - cbn [app spec_status]. rewrite published_app. cbn [published existsb ev_tx fst snd].
    rewrite N.eqb_refl. cbn [orb]. rewrite orb_true_r. cbn [negb]. rewrite andb_false_r. auto.
Qed.

Lemma spec_status_unpublished : forall ttl evs tx,
  published evs tx = false -> spec_status ttl evs tx = None.
Proof.
  induction evs as [|a r IH]; intros tx H; cbn [spec_status]; auto.
  cbn [published existsb] in H. apply orb_false_iff in H. destruct H as [H1 H2].
  rewrite H1. cbn [andb]. auto.
Qed.

Lemma expired_by_iff : forall ttl t later,
  expired_by ttl t later = true <-> exists e, In e later /\ ttl <= ev_time e - t.
Proof.
  intros. unfold expired_by. rewrite existsb_exists. split; intros [e [H1 H2]]; exists e; split; auto; lia.
Qed.

Lemma status_latest_all : forall ttl ops tx before t s later,
  timeline 0 ops = before ++ (t, tx, s) :: later -> published later tx = false ->
  get_status (snd (run ttl ops)) tx = Some s \/
  (get_status (snd (run ttl ops)) tx = None /\ is_prunable s = true /\
   exists e, In e later /\ ttl <= ev_time e - t).
Proof.
  intros ttl ops tx before t s later Ht Hl.
  rewrite status_is_spec_all, Ht, spec_status_last by auto.
  destruct (is_prunable s) eqn:Ep; cbn [andb]; auto.
  destruct (expired_by ttl t later) eqn:Ee; auto.
  right. repeat split; auto. apply expired_by_iff. auto.
Qed.

Lemma kept_at_least_ttl_all : forall ttl ops tx before t s later,
  timeline 0 ops = before ++ (t, tx, s) :: later -> published later tx = false ->
  (forall e, In e later -> ev_time e - t < ttl) ->
  get_status (snd (run ttl ops)) tx = Some s.
Proof.
  intros ttl ops tx before t s later Ht Hl Hy.
  destruct (status_latest_all ttl ops tx before t s later Ht Hl) as [H|[_ [_ [e [Hi He]]]]]; auto.
  apply Hy in Hi. lia.
Qed.

Lemma submitted_kept_all : forall ttl ops tx before t s later,
  timeline 0 ops = before ++ (t, tx, s) :: later -> published later tx = false ->
  is_prunable s = false ->
  get_status (snd (run ttl ops)) tx = Some s.
Proof.
  intros ttl ops tx before t s later Ht Hl Hy.
  destruct (status_latest_all ttl ops tx before t s later Ht Hl) as [H|[_ [Hp _]]]; auto.
  congruence.
Qed.

Lemma forgotten_after_ttl_all : forall ttl ops tx before t s later,
  timeline 0 ops = before ++ (t, tx, s) :: later -> published later tx = false ->
  is_prunable s = true -> (exists e, In e later /\ ttl <= ev_time e - t) ->
  get_status (snd (run ttl ops)) tx = None.
Proof.
  intros ttl ops tx before t s later Ht Hl Hp He.
  rewrite status_is_spec_all, Ht, spec_status_last by auto.
  apply expired_by_iff in He. rewrite Hp, He. auto.
Qed.

Lemma unpublished_unknown_all : forall ttl ops tx,
  published (timeline 0 ops) tx = false -> get_status (snd (run ttl ops)) tx = None.
Proof. intros. rewrite status_is_spec_all. apply spec_status_unpublished. auto. Qed.

(* times of a history never decrease, so "age" = later time - publication time *)
Lemma timeline_times : forall ops now, Forall (fun e => now <= ev_time e) (timeline now ops).
Proof.
  induction ops as [|[tx s|dt] r IH]; intros now; cbn [timeline]; auto.
  - constructor; auto. cbn. lia.
  - eapply Forall_impl; [|apply IH]. cbn. intros. lia.
Qed.

(* ---------------- the checker ---------------- *)
Fixpoint trace_ok (ttl ntx now : N) (evs : list event) (ops : list op)
         (obs : list (list (option status) * data)) : Prop :=
  match ops, obs with
  | [], [] => True
  | o :: r, (ans, d) :: obs' =>
      let now' := match o with Advance dt => now + dt | _ => now end in
      let evs' := match o with Publish tx s => evs ++ [(now, tx, s)] | _ => evs end in
      ans = map (spec_status ttl evs') (txs ntx) /\ Consistent d /\
      trace_ok ttl ntx now' evs' r obs'
  | _, _ => False
  end.

Lemma ostatus_eqb_iff : forall a b, ostatus_eqb a b = true <-> a = b.
Proof.
  intros [a|] [b|]; cbn; try (split; congruence).
  rewrite pair_eqb_iff. split; congruence.
Qed.

Lemma answers_eqb_iff : forall a b, answers_eqb a b = true <-> a = b.
Proof.
  induction a as [|x a IH]; destruct b as [|y b]; cbn; try (split; congruence).
  rewrite andb_true_iff, ostatus_eqb_iff, IH. split; [intros [? ?]; congruence | intros H; inversion H; auto].
Qed.

Lemma c23_okb_iff : forall ttl ntx ops now evs obs,
  c23_okb ttl ntx now evs ops obs = true <-> trace_ok ttl ntx now evs ops obs.
Proof.
  induction ops as [|o r IH]; intros now evs obs; destruct obs as [|[ans d] obs']; cbn [c23_okb trace_ok];
    try (split; [discriminate | contradiction]); try tauto.
  rewrite !andb_true_iff, answers_eqb_iff, consistentb_iff, IH. tauto.
Qed.

(* the model's own trace *)
Fixpoint run_states (ttl : N) (st : N * data) (ops : list op) : list data :=
  match ops with
  | [] => []
  | o :: r => let st' := step ttl st o in snd st' :: run_states ttl st' r
  end.
Definition model_obs (ntx : N) (d : data) : list (option status) * data :=
  (map (get_status d) (txs ntx), d).

Lemma model_trace_ok_gen : forall ttl ntx ops now evs d,
  Inv ttl now evs d ->
  trace_ok ttl ntx now evs ops (map (model_obs ntx) (run_states ttl (now, d) ops)).
Proof.
  induction ops as [|o r IH]; intros now evs d H; cbn [run_states map trace_ok]; auto.
  destruct o as [tx s|dt]; cbn [step snd model_obs].
  - pose proof (Inv_register ttl now evs d tx s H) as H'.
    repeat split.
    + apply map_ext. intros. eapply Inv_status; eauto.
    + eapply Inv_consistent; eauto.
    + eapply Inv_consistent; eauto.
    + apply IH. auto.
  - pose proof (Inv_advance ttl now evs d dt H) as H'.
    repeat split.
    + apply map_ext. intros. eapply Inv_status; eauto.
    + eapply Inv_consistent; eauto.
    + eapply Inv_consistent; eauto.
    + apply IH. auto.
Qed.

Lemma model_trace_ok_all : forall ttl ntx ops,
  c23_okb ttl ntx 0 [] ops (map (model_obs ntx) (run_states ttl (0, empty) ops)) = true.
Proof. intros. apply c23_okb_iff. apply model_trace_ok_gen. apply Inv_empty. Qed.

(* ---------------- non-vacuity ---------------- *)
(* ttl 5: tx 0 gets Success at time 0, tx 1 Submitted at 0; at time 4 both are still
   answered; a register call at time 5 forgets tx 0's Success but keeps tx 1's Submitted. *)
Example c23_nonvacuous :
  let ops := [Publish 0 (1, 1); Publish 1 (0, 2); Advance 4; Publish 2 (2, 3)] in
  get_status (snd (run 5 ops)) 0 = Some (1, 1) /\
  get_status (snd (run 5 (ops ++ [Advance 1; Publish 2 (2, 4)]))) 0 = None /\
  get_status (snd (run 5 (ops ++ [Advance 1; Publish 2 (2, 4)]))) 1 = Some (0, 2) /\
  timeline 0 (ops ++ [Advance 1; Publish 2 (2, 4)]) =
    [(0, 0, (1, 1)); (0, 1, (0, 2)); (4, 2, (2, 3)); (5, 2, (2, 4))].
Proof. vm_compute. repeat split. Qed.
