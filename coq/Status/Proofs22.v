(* Proofs for C22: what a status subscriber reads.  A per-subscription invariant is
   carried through every interleaving of publish / subscribe / read / drop / clock
   advance; [model_views] lifts it to the whole UpdateSender model. *)
From Coq Require Import ZifyBool ZifyN ZifyNat.
From FC Require Import Status.Model22 Status.Proofs23.
Open Scope N_scope.

(* ---------------- subsequences ---------------- *)
Inductive Subseq {A : Type} : list A -> list A -> Prop :=
| ss_nil : Subseq [] []
| ss_skip : forall l p y, Subseq l p -> Subseq l (y :: p)
| ss_take : forall l p x, Subseq l p -> Subseq (x :: l) (x :: p).

Lemma Subseq_nil_l : forall A (p : list A), Subseq [] p.
Proof. induction p; constructor; auto. Qed.

Lemma Subseq_refl : forall A (p : list A), Subseq p p.
Proof. induction p; [constructor | apply ss_take; auto]. Qed.

Lemma Subseq_app : forall A (a b c d : list A), Subseq a b -> Subseq c d -> Subseq (a ++ c) (b ++ d).
Proof.
  induction 1; intros; cbn; auto.
  - apply ss_skip; auto.
  - apply ss_take; auto.
Qed.

Lemma Subseq_app_r : forall A (l p q : list A), Subseq l p -> Subseq l (p ++ q).
Proof.
  intros. rewrite <- (app_nil_r l). apply Subseq_app; auto. apply Subseq_nil_l.
Qed.

Lemma Subseq_app_l : forall A (l p q : list A), Subseq l p -> Subseq l (q ++ p).
Proof. induction q; cbn; intros; auto. constructor; auto. Qed.

Lemma Subseq_tail : forall A (x : A) l p, Subseq (x :: l) p -> Subseq l p.
Proof.
  intros A x l p H. remember (x :: l) as xl eqn:E. revert x l E.
  induction H; intros; try discriminate.
  - constructor. eapply IHSubseq; eauto.
  - inversion E; subst. constructor. auto.
Qed.

Lemma status_eqb_iff : forall a b, status_eqb a b = true <-> a = b.
Proof. intros. apply pair_eqb_iff. Qed.

Lemma subseqb_iff : forall p l, subseqb l p = true <-> Subseq l p.
Proof.
  induction p as [|y p IH]; intros l.
  - cbn. destruct l; split; intros H; try discriminate; try constructor. inversion H.
  - cbn [subseqb]. destruct l as [|x l].
    + split; intros; auto. apply Subseq_nil_l.
    + destruct (status_eqb x y) eqn:E.
      * apply status_eqb_iff in E. subst y. rewrite IH. split; intros H.
        -- apply ss_take; auto.
        -- inversion H; subst; auto. eapply Subseq_tail; eauto.
      * rewrite IH. split; intros H.
        -- constructor; auto.
        -- inversion H; subst; auto.
           assert (status_eqb y y = true) by (apply status_eqb_iff; auto). congruence.
Qed.

(* first occurrence *)
Fixpoint cut (s : status) (avail : list status) : option (list status) :=
  match avail with
  | [] => None
  | y :: r => if status_eqb y s then Some r else cut s r
  end.

Lemma cut_subseq : forall s X avail, Subseq (s :: X) avail ->
  exists post, cut s avail = Some post /\ Subseq X post.
Proof.
  induction avail as [|y r IH]; intros H.
  - inversion H.
  - cbn [cut]. destruct (status_eqb y s) eqn:E.
    + apply status_eqb_iff in E. subst y. exists r. split; auto.
      inversion H; subst; auto. eapply Subseq_tail; eauto.
    + assert (Hss : status_eqb s s = true) by (apply status_eqb_iff; auto).
      inversion H; subst; auto. congruence.
Qed.

Lemma cut_split : forall s avail post, cut s avail = Some post ->
  exists pre, avail = pre ++ s :: post.
Proof.
  induction avail as [|y r IH]; cbn [cut]; intros post H; [discriminate|].
  destruct (status_eqb y s) eqn:E.
  - apply status_eqb_iff in E. subst y. inversion H; subst. exists []. auto.
  - destruct (IH _ H) as [pre Hp]. exists (y :: pre). cbn. f_equal. auto.
Qed.

(* ---------------- the streaming form of the safety check ---------------- *)
(* [avail] = published (up to the first final one) and not yet delivered or skipped *)
Fixpoint safe_run (avail : list status) (fin ended : bool) (v : list vev) : bool :=
  match v with
  | [] => true
  | VPub s :: r => if fin then safe_run avail fin ended r
                   else safe_run (avail ++ [s]) (st_final s) ended r
  | VRead (RMsg (MStatus s)) :: r =>
      negb ended && match cut s avail with
                    | Some post => safe_run post fin (st_final s) r
                    | None => false
                    end
  | VRead (RMsg MFailed) :: r => negb ended && safe_run avail fin true r
  | VRead RPending :: r => negb ended && safe_run avail fin false r
  | VRead REnd :: r => safe_run avail fin true r
  | VRead RNone :: r => safe_run avail fin ended r
  | VDrop :: r => safe_run avail fin true r
  | VExpire :: r => safe_run avail fin ended r
  end.

Lemma safe_run_sound : forall v avail fin ended,
  safe_run avail fin ended v = true ->
  exists l, msgs_statuses (view_msgs v) = Some l /\
            Subseq l (avail ++ if fin then [] else upto_final (view_pubs v)) /\
            (ended = true -> view_msgs v = []) /\
            reads_shapeb ended v = true.
Proof.
  induction v as [|e r IH]; intros avail fin ended H.
  - exists []. cbn. repeat split; auto. apply Subseq_nil_l.
  - destruct e as [s|[m| | |]| |]; cbn [safe_run] in H.
    + (* VPub *)
      cbn [view_pubs view_msgs reads_shapeb]. destruct fin.
      * apply IH in H. exact H.
      * apply IH in H. destruct H as [l [H1 [H2 [H3 H4]]]]. exists l. repeat split; auto.
        cbn [upto_final]. rewrite <- app_assoc in H2. cbn [app] in H2.
        destruct (st_final s); auto.
    + (* RMsg *)
      destruct m as [s|]; apply andb_true_iff in H; destruct H as [He H];
        (destruct ended; [discriminate|]).
      * destruct (cut s avail) as [post|] eqn:Ec; [|discriminate].
        apply IH in H. destruct H as [l [H1 [H2 [H3 H4]]]].
        exists (s :: l). cbn [view_msgs view_pubs msgs_statuses reads_shapeb msg_final negb andb].
        rewrite H1. repeat split; auto; try discriminate.
        destruct (cut_split _ _ _ Ec) as [pre Hp]. subst avail.
        rewrite <- app_assoc. apply Subseq_app_l. cbn [app]. apply ss_take. auto.
      * apply IH in H. destruct H as [l [H1 [H2 [H3 H4]]]].
        specialize (H3 eq_refl).
        exists []. cbn [view_msgs view_pubs reads_shapeb msg_final negb andb]. rewrite H3.
        cbn [msgs_statuses]. repeat split; auto; try discriminate. apply Subseq_nil_l.
    + (* RPending *)
      apply andb_true_iff in H. destruct H as [He H]. destruct ended; [discriminate|].
      apply IH in H. destruct H as [l [H1 [H2 [H3 H4]]]]. exists l.
      cbn [view_msgs view_pubs reads_shapeb negb andb]. repeat split; auto; discriminate.
    + (* REnd *)
      apply IH in H. destruct H as [l [H1 [H2 [H3 H4]]]]. exists l.
      cbn [view_msgs view_pubs reads_shapeb]. repeat split; auto.
    + (* RNone *)
      apply IH in H. destruct H as [l [H1 [H2 [H3 H4]]]]. exists l.
      cbn [view_msgs view_pubs reads_shapeb]. repeat split; auto.
    + (* VDrop *)
      apply IH in H. destruct H as [l [H1 [H2 [H3 H4]]]]. exists l.
      cbn [view_msgs view_pubs reads_shapeb]. repeat split; auto.
    + (* VExpire *)
      apply IH in H. destruct H as [l [H1 [H2 [H3 H4]]]]. exists l.
      cbn [view_msgs view_pubs reads_shapeb]. repeat split; auto.
Qed.

Lemma safe_run_view_safeb : forall v, safe_run [] false false v = true -> view_safeb v = true.
Proof.
  intros v H. apply safe_run_sound in H. destruct H as [l [H1 [H2 [_ H4]]]].
  unfold view_safeb. rewrite H1. cbn [app] in H2. apply subseqb_iff in H2. rewrite H2, H4. auto.
Qed.

(* ---------------- status kinds ---------------- *)
Definition wf_status (s : status) : Prop := st_kind s <= 6.

Lemma st_final_kinds : forall s, wf_status s ->
  st_final s = negb (is_submitted_kind s || is_preconf_kind s).
Proof.
  intros [k p]. unfold wf_status, st_final, is_submitted_kind, is_preconf_kind, st_kind. cbn [fst].
  intros H.
  assert (k = 0 \/ k = 1 \/ k = 2 \/ k = 3 \/ k = 4 \/ k = 5 \/ k = 6) as Hk by lia.
  destruct Hk as [->|[->|[->|[->|[->|[->| ->]]]]]]; reflexivity.
Qed.

(* ---------------- one subscription: transitions ---------------- *)
Definition expire_evs (ttl nw : N) (s : sub) : list vev :=
  if ttl <=? nw - created s then [VExpire] else [].

Inductive sub_trans (ttl : N) : sub -> list vev -> sub -> Prop :=
| tr_id : forall s, sub_trans ttl s [] s
| tr_publish : forall s nw tx st, wf_status st ->
    sub_trans ttl s (expire_evs ttl nw s ++ (if tx =? stx s then [VPub st] else []))
              (sub_publish nw ttl tx st s)
| tr_expire : forall s nw, sub_trans ttl s (expire_evs ttl nw s) (expire nw ttl s)
| tr_read : forall s, sub_trans ttl s [VRead (snd (sub_read s))] (fst (sub_read s))
| tr_drop : forall s, sub_trans ttl s [VDrop] (sub_drop s).

(* ---------------- invariant for the safety part ---------------- *)
Definition stream_ok (st : sstate) : Prop := st = SEmpty \/ st = SFailed \/ st = SClosed.

Fixpoint buf_shape (im : bool) (b : list msg) : Prop :=
  match b with
  | [] => True
  | m :: r => (msg_final m = true -> r = [] /\ im = false) /\ buf_shape im r
  end.

Fixpoint buf_statuses (b : list msg) : list status :=
  match b with
  | [] => []
  | MStatus s :: r => s :: buf_statuses r
  | MFailed :: r => buf_statuses r
  end.

Record SafeInv (s : sub) (avail : list status) (fin ended : bool) : Prop := {
  si_stream : stream_ok (stream s);
  si_open : in_map s = true -> stream s <> SClosed /\ fin = false;
  si_shape : buf_shape (in_map s) (buf s);
  si_sub : Subseq (buf_statuses (buf s)) avail;
  si_ended : ended = true -> buf s = [] /\ (in_map s = false \/ rx_alive s = false);
  si_dropped : rx_alive s = false -> ended = true
}.

Lemma buf_shape_false : forall im b, buf_shape im b -> buf_shape false b.
Proof.
  induction b as [|m r IH]; cbn; auto. intros [H1 H2]. split; auto.
  intros Hf. destruct (H1 Hf). auto.
Qed.

Lemma buf_shape_nofinal : forall b, buf_shape true b -> Forall (fun m => msg_final m = false) b.
Proof.
  induction b as [|m r IH]; cbn; auto. intros [H1 H2]. constructor; auto.
  destruct (msg_final m); auto. destruct H1; auto.
Qed.

Lemma nofinal_snoc : forall im b m, Forall (fun m => msg_final m = false) b ->
  (msg_final m = true -> im = false) -> buf_shape im (b ++ [m]).
Proof.
  induction b as [|x r IH]; cbn; intros m Hf Hm.
  - split; auto.
  - inversion Hf; subst. split; auto. intros; congruence.
Qed.

Lemma nofinal_shape : forall im b, Forall (fun m => msg_final m = false) b -> buf_shape im b.
Proof.
  induction b as [|x r IH]; cbn; intros Hf; auto. inversion Hf; subst. split; auto. intros; congruence.
Qed.

Lemma buf_statuses_app : forall a b, buf_statuses (a ++ b) = buf_statuses a ++ buf_statuses b.
Proof. induction a as [|[s|] r IH]; intros; cbn; auto. f_equal. auto. Qed.

Lemma SafeInv_expire : forall nw ttl s avail fin ended,
  SafeInv s avail fin ended -> SafeInv (expire nw ttl s) avail fin ended.
Proof.
  intros nw ttl s avail fin ended H. unfold expire.
  destruct (in_map s && negb (negb (is_closed (stream s)) && (nw - created s <? ttl))); auto.
  destruct H as [H1 H2 H3 H4 H5 H6]. constructor; cbn [stream in_map buf rx_alive]; auto.
  - discriminate.
  - eapply buf_shape_false; eauto.
  - intros E. destruct (H5 E). auto.
Qed.

Lemma expire_in_map : forall nw ttl s, in_map (expire nw ttl s) = true ->
  expire nw ttl s = s /\ in_map s = true /\ is_closed (stream s) = false /\ (nw - created s <? ttl) = true.
Proof.
  intros nw ttl s. unfold expire.
  destruct (in_map s) eqn:E1; cbn [andb]; [|rewrite E1; discriminate].
  destruct (is_closed (stream s)) eqn:E2; cbn [negb andb in_map]; [discriminate|].
  destruct (nw - created s <? ttl) eqn:E3; cbn [negb in_map]; [|discriminate].
  rewrite E1. auto.
Qed.

(* publishing to a sender that is in the map *)
Lemma SafeInv_try_send : forall s st avail ended,
  wf_status st -> in_map s = true ->
  SafeInv s avail false ended ->
  SafeInv (sender_try_send (MStatus st) s) (avail ++ [st]) (st_final st) ended.
Proof.
  intros s st avail ended Hwf Him [H1 H2 H3 H4 H5 H6].
  destruct (H2 Him) as [Hnc _].
  rewrite Him in H3. pose proof (buf_shape_nofinal _ H3) as Hnf.
  pose proof (st_final_kinds st Hwf) as Hk.
  assert (Hdrop : ended = true -> rx_alive s = false /\ buf s = []).
  { intros E. destruct (H5 E) as [Hb [Hc|Hc]]; [congruence|auto]. }
  assert (Hst : stream s = SEmpty \/ stream s = SFailed).
  { destruct H1 as [Hs|[Hs|Hs]]; auto. congruence. }
  clear H1 H2 H3 H5.
  unfold sender_try_send, chan_try_send.
  destruct Hst as [Hs|Hs]; rewrite Hs; cbn [add_msg].
  - destruct (is_submitted_kind st) eqn:Ek1; [|destruct (is_preconf_kind st) eqn:Ek2];
      cbn [orb negb] in Hk; cbn [try_next];
      (destruct (rx_alive s) eqn:Erx; cbn [negb];
       [destruct (Nat.leb BUFFER_SIZE (length (buf s)))|]);
      cbn [add_failure close_recv is_closed negb];
      (constructor; cbn [stream in_map buf rx_alive];
       first [ solve [unfold stream_ok; auto]
             | solve [intros; split; [discriminate | auto]]
             | solve [intros; discriminate]
             | solve [apply nofinal_shape; auto]
             | solve [apply nofinal_snoc; auto; cbn [msg_final]; intros; congruence]
             | solve [apply Subseq_app_r; auto]
             | solve [rewrite buf_statuses_app; apply Subseq_app; [auto | apply Subseq_refl]]
             | solve [intros E; destruct (Hdrop E); split; auto; congruence]
             | solve [intros E; destruct (Hdrop E); congruence]
             | solve [auto] ]).
  - cbn [try_next];
      (destruct (rx_alive s) eqn:Erx; cbn [negb];
       [destruct (Nat.leb BUFFER_SIZE (length (buf s)))|]);
      cbn [add_failure close_recv is_closed negb];
      (constructor; cbn [stream in_map buf rx_alive];
       first [ solve [unfold stream_ok; auto]
             | solve [intros; discriminate]
             | solve [apply nofinal_shape; auto]
             | solve [apply nofinal_snoc; auto]
             | solve [apply Subseq_app_r; auto]
             | solve [rewrite buf_statuses_app; cbn [buf_statuses]; rewrite app_nil_r;
                      apply Subseq_app_r; auto]
             | solve [intros E; destruct (Hdrop E); split; auto; congruence]
             | solve [intros E; destruct (Hdrop E); congruence]
             | solve [auto] ]).
Qed.

Lemma safe_run_expire_evs : forall ttl nw s avail fin ended rest,
  safe_run avail fin ended (expire_evs ttl nw s ++ rest) = safe_run avail fin ended rest.
Proof. intros. unfold expire_evs. destruct (ttl <=? nw - created s); auto. Qed.

(* preservation, continuation-passing form *)
Lemma SafeInv_trans : forall ttl s evs s' avail fin ended rest,
  SafeInv s avail fin ended -> sub_trans ttl s evs s' ->
  (forall avail' fin' ended', SafeInv s' avail' fin' ended' -> safe_run avail' fin' ended' rest = true) ->
  safe_run avail fin ended (evs ++ rest) = true.
Proof.
  intros ttl s evs s' avail fin ended rest Hinv Htr Hk.
  destruct Htr as [s|s nw tx st Hwf|s nw|s|s].
  - cbn [app]. eauto.
  - rewrite <- app_assoc, safe_run_expire_evs.
    pose proof (SafeInv_expire nw ttl s avail fin ended Hinv) as He.
    unfold sub_publish in Hk.
    assert (Hstx : stx (expire nw ttl s) = stx s).
    { unfold expire. destruct (in_map s && _); auto. }
    rewrite Hstx in Hk. rewrite (N.eqb_sym (stx s) tx) in Hk.
    destruct (tx =? stx s) eqn:Etx; cbn [app].
    + cbn [safe_run].
      destruct (in_map (expire nw ttl s)) eqn:Eim; cbn [andb] in Hk.
      * destruct (si_open _ _ _ _ He Eim) as [_ Hfin]. subst fin.
        apply Hk. apply SafeInv_try_send; auto.
      * destruct fin; [apply Hk; auto|].
        apply Hk. destruct He as [H1 H2 H3 H4 H5 H6]. constructor; auto.
        -- intros E. congruence.
        -- apply Subseq_app_r; auto.
    + rewrite andb_false_r in Hk. apply Hk; auto.
  - rewrite safe_run_expire_evs. apply Hk. apply SafeInv_expire; auto.
  - (* read *)
    destruct Hinv as [H1 H2 H3 H4 H5 H6]. unfold sub_read in *.
    destruct (rx_alive s) eqn:Erx; cbn [negb fst snd app] in *.
    + destruct (buf s) as [|m r] eqn:Eb; cbn [fst snd app] in *.
      * destruct (in_map s) eqn:Eim; cbn [safe_run].
        -- assert (ended = false).
           { destruct ended; auto. destruct (H5 eq_refl) as [_ [?|?]]; congruence. }
           subst ended. cbn [negb andb]. apply Hk. constructor; auto; try congruence.
        -- apply Hk. constructor; auto; try congruence; try (intros _; split; auto).
      * assert (ended = false).
        { destruct ended; auto. destruct (H5 eq_refl). discriminate. }
        subst ended. cbn [buf_shape] in H3. destruct H3 as [Hfin Hsh].
        destruct m as [st|]; cbn [safe_run negb andb].
        -- cbn [buf_statuses] in H4. destruct (cut_subseq _ _ _ H4) as [post [Hc Hs]].
           rewrite Hc. apply Hk. constructor; cbn [stream in_map buf rx_alive]; auto; try discriminate.
           intros E. cbn [msg_final] in Hfin. destruct (Hfin E). auto.
        -- cbn [buf_statuses] in H4. destruct (Hfin eq_refl) as [Hr Him]. subst r.
           apply Hk. constructor; cbn [stream in_map buf rx_alive]; auto; try discriminate.
    + cbn [safe_run]. apply Hk. constructor; auto; try (rewrite Erx; auto).
  - (* drop *)
    cbn [app safe_run]. apply Hk.
    destruct Hinv as [H1 H2 H3 H4 H5 H6].
    constructor; cbn [stream in_map buf rx_alive sub_drop buf_shape buf_statuses]; auto.
    apply Subseq_nil_l.
Qed.

Lemma SafeInv_new : forall nw tx, SafeInv (new_sub nw tx) [] false false.
Proof.
  intros. constructor; cbn; unfold stream_ok; auto; try discriminate.
  - split; [discriminate | auto].
  - constructor.
Qed.

(* ---------------- invariant for the drained part ---------------- *)
Record ExactInv (s : sub) (pend : list status) (fin : bool) : Prop := {
  ei_rx : rx_alive s = true;
  ei_buf : buf s = map MStatus pend;
  ei_map : in_map s = negb fin;
  ei_stream : stream s = SEmpty \/ (fin = true /\ stream s = SClosed)
}.

Lemma view_exactb_expire_evs : forall ttl nw s pend fin rest,
  (ttl <=? nw - created s) = false ->
  view_exactb pend fin (expire_evs ttl nw s ++ rest) = view_exactb pend fin rest.
Proof. intros. unfold expire_evs. rewrite H. auto. Qed.

Lemma ExactInv_expire_noop : forall nw ttl s pend fin,
  ExactInv s pend fin -> (ttl <=? nw - created s) = false -> expire nw ttl s = s.
Proof.
  intros nw ttl s pend fin [H1 H2 H3 H4] He. unfold expire.
  destruct fin; cbn [negb] in H3; rewrite H3; cbn [andb]; auto.
  destruct H4 as [H4|[H4 _]]; [|discriminate]. rewrite H4. cbn [is_closed negb andb].
  destruct (nw - created s <? ttl) eqn:E; auto. lia.
Qed.

Lemma ExactInv_trans : forall ttl s evs s' pend fin rest,
  ExactInv s pend fin -> sub_trans ttl s evs s' ->
  (forall pend' fin', ExactInv s' pend' fin' -> view_exactb pend' fin' rest = true) ->
  view_exactb pend fin (evs ++ rest) = true.
Proof.
  intros ttl s evs s' pend fin rest Hinv Htr Hk.
  destruct Htr as [s|s nw tx st Hwf|s nw|s|s].
  - cbn [app]. eauto.
  - destruct (ttl <=? nw - created s) eqn:Eex.
    + unfold expire_evs. rewrite Eex. cbn [app view_exactb]. auto.
    + rewrite <- app_assoc, view_exactb_expire_evs by auto.
      unfold sub_publish in Hk. rewrite (ExactInv_expire_noop _ _ _ _ _ Hinv Eex) in Hk.
      rewrite (N.eqb_sym (stx s) tx) in Hk.
      destruct (tx =? stx s) eqn:Etx; cbn [app].
      * destruct Hinv as [H1 H2 H3 H4]. cbn [view_exactb].
        destruct fin; cbn [negb] in H3; rewrite H3 in Hk; cbn [andb] in Hk.
        -- apply Hk. constructor; auto.
        -- destruct pend as [|x pend]; auto.
           destruct H4 as [H4|[H4 _]]; [|discriminate].
           apply Hk. pose proof (st_final_kinds st Hwf) as Hfk.
           unfold sender_try_send, chan_try_send. rewrite H4, H1, H2. cbn [add_msg map length negb].
           destruct (is_submitted_kind st) eqn:Ek1; [|destruct (is_preconf_kind st) eqn:Ek2];
             cbn [orb negb] in Hfk; rewrite Hfk; cbn [try_next Nat.leb BUFFER_SIZE is_closed negb app];
             constructor; cbn [stream in_map buf rx_alive map]; auto.
      * rewrite andb_false_r in Hk. apply Hk; auto.
  - destruct (ttl <=? nw - created s) eqn:Eex.
    + unfold expire_evs. rewrite Eex. cbn [app view_exactb]. auto.
    + rewrite view_exactb_expire_evs by auto.
      rewrite (ExactInv_expire_noop _ _ _ _ _ Hinv Eex) in Hk. apply Hk; auto.
  - destruct Hinv as [H1 H2 H3 H4]. unfold sub_read in *. rewrite H1 in *. cbn [negb] in *.
    rewrite H2 in *. destruct pend as [|x pend]; cbn [map fst snd app] in *.
    + rewrite H3. destruct fin; cbn [negb view_exactb andb]; apply Hk; constructor; auto.
    + cbn [view_exactb]. assert (status_eqb x x = true) as -> by (apply status_eqb_iff; auto).
      cbn [andb]. apply Hk. constructor; cbn [stream in_map buf rx_alive]; auto.
  - cbn [app view_exactb]. auto.
Qed.

Lemma ExactInv_new : forall nw tx, ExactInv (new_sub nw tx) [] false.
Proof. intros. constructor; cbn; auto. Qed.

(* ---------------- the whole UpdateSender ---------------- *)
Definition wf_op (o : op22) : Prop :=
  match o with OPublish _ st => wf_status st | _ => True end.

Definition sub_key (s : sub) : N * N := (stx s, created s).
Definition RelV (st : state) (vs : vstate) : Prop :=
  v_now vs = now st /\ v_info vs = map sub_key (subs st).

Lemma sub_key_expire : forall nw ttl s, sub_key (expire nw ttl s) = sub_key s.
Proof. intros. unfold expire. destruct (in_map s && _); auto. Qed.

Lemma sub_key_try_send : forall m s, sub_key (sender_try_send m s) = sub_key s.
Proof.
  intros. unfold sender_try_send. destruct (try_next _) as [st2 nx].
  destruct nx; [destruct (chan_try_send s)|]; auto.
Qed.

Lemma sub_key_publish : forall nw ttl tx st s, sub_key (sub_publish nw ttl tx st s) = sub_key s.
Proof.
  intros. unfold sub_publish. destruct (in_map _ && _).
  - rewrite sub_key_try_send. apply sub_key_expire.
  - apply sub_key_expire.
Qed.

Lemma sub_key_read : forall s, sub_key (fst (sub_read s)) = sub_key s.
Proof. intros. unfold sub_read. destruct (negb (rx_alive s)); auto. destruct (buf s); auto. Qed.

Lemma map_key_map : forall f l, (forall s, sub_key (f s) = sub_key s) ->
  map sub_key (map f l) = map sub_key l.
Proof. intros. rewrite map_map. apply map_ext. auto. Qed.

Lemma map_key_update_nth : forall f n l, (forall s, sub_key (f s) = sub_key s) ->
  map sub_key (update_nth n f l) = map sub_key l.
Proof.
  intros f n l Hf. revert n. induction l as [|x r IH]; intros [|n]; cbn [update_nth map]; auto.
  - rewrite Hf. auto.
  - rewrite IH. auto.
Qed.

Lemma nth_error_update_nth_eq : forall A (f : A -> A) n l x,
  nth_error l n = Some x -> nth_error (update_nth n f l) n = Some (f x).
Proof.
  intros A f n l. revert n. induction l as [|y r IH]; intros [|n] x H; cbn in *; try discriminate.
  - inversion H; auto.
  - auto.
Qed.

Lemma nth_error_update_nth_neq : forall A (f : A -> A) n m l,
  n <> m -> nth_error (update_nth n f l) m = nth_error l m.
Proof.
  intros A f n m l. revert n m. induction l as [|y r IH]; intros [|n] [|m] H; cbn; auto.
  - congruence.
Qed.

Lemma nth_error_update_nth_none : forall A (f : A -> A) n m l,
  nth_error l m = None -> nth_error (update_nth n f l) m = None.
Proof.
  intros A f n m l. revert n m. induction l as [|y r IH]; intros [|n] [|m] H; cbn in *; auto; discriminate.
Qed.

(* what one global step does to the subscription [id] and to its view *)
Lemma global_step : forall cap ttl st vs o id,
  wf_op o -> RelV st vs ->
  let st' := fst (step22 cap ttl st o) in
  let out := snd (step22 cap ttl st o) in
  RelV st' (vstate_step vs o out) /\
  match nth_error (subs st) id with
  | Some s => exists s', nth_error (subs st') id = Some s' /\
                         sub_trans ttl s (vev_of ttl id vs o out) s'
  | None => vev_of ttl id vs o out = [] /\
            (nth_error (subs st') id = None \/
             exists nw tx, nth_error (subs st') id = Some (new_sub nw tx))
  end.
Proof.
  intros cap ttl st vs o id Hwf [Hnow Hinfo].
  assert (Hvi : nth_error (v_info vs) id = option_map sub_key (nth_error (subs st) id)).
  { rewrite Hinfo. apply nth_error_map. }
  destruct o as [tx s0|tx|id'|id'|dt]; cbn [step22].
  - (* publish *)
    cbn [fst snd now subs vstate_step]. split.
    + split; auto. cbn [subs]. rewrite map_key_map; auto. intros; apply sub_key_publish.
    + rewrite nth_error_map. unfold vev_of. rewrite Hvi.
      destruct (nth_error (subs st) id) as [s|]; cbn [option_map]; auto.
      exists (sub_publish (now st) ttl tx s0 s). split; auto.
      unfold sub_key. rewrite Hnow.
      apply (tr_publish ttl s (now st) tx s0). exact Hwf.
  - (* subscribe *)
    set (l := map (expire (now st) ttl) (subs st)).
    assert (Hl : map sub_key l = map sub_key (subs st)).
    { unfold l. apply map_key_map. intros; apply sub_key_expire. }
    assert (Hlen : length l = length (subs st)) by (unfold l; apply map_length).
    destruct (Nat.ltb (permits_used l) cap); cbn [fst snd now subs vstate_step].
    + split.
      * split; cbn [v_now v_info now subs]; auto.
        rewrite map_app, Hl, Hinfo, Hnow. auto.
      * unfold vev_of. rewrite Hvi.
        destruct (nth_error (subs st) id) as [s|] eqn:En; cbn [option_map].
        -- exists (expire (now st) ttl s). split.
           ++ rewrite nth_error_app1.
              ** unfold l. rewrite nth_error_map, En. auto.
              ** rewrite Hlen. apply nth_error_Some. congruence.
           ++ unfold sub_key. rewrite Hnow. apply (tr_expire ttl s (now st)).
        -- split; auto. apply nth_error_None in En.
           destruct (Nat.eq_dec id (length l)) as [->|Hne].
           ++ right. exists (now st), tx. rewrite nth_error_app2 by lia.
              rewrite Nat.sub_diag. auto.
           ++ left. apply nth_error_None. rewrite app_length. cbn. lia.
    + split.
      * split; cbn [v_now v_info now subs]; auto. rewrite Hl. auto.
      * unfold vev_of. rewrite Hvi. unfold l. rewrite nth_error_map.
        destruct (nth_error (subs st) id) as [s|] eqn:En; cbn [option_map]; auto.
        exists (expire (now st) ttl s). split; auto.
        unfold sub_key. rewrite Hnow. apply (tr_expire ttl s (now st)).
  - (* read *)
    destruct (nth_error (subs st) id') as [s0|] eqn:En'; cbn [fst snd now subs vstate_step].
    + split.
      * split; cbn [now subs]; auto. rewrite map_key_update_nth; auto. intros; apply sub_key_read.
      * unfold vev_of. rewrite Hvi.
        destruct (Nat.eqb id' id) eqn:Eid.
        -- apply Nat.eqb_eq in Eid. subst id'. rewrite En'. cbn [option_map].
           exists (fst (sub_read s0)). split.
           ++ exact (nth_error_update_nth_eq _ (fun s => fst (sub_read s)) id (subs st) s0 En').
           ++ apply tr_read.
        -- apply Nat.eqb_neq in Eid.
           rewrite nth_error_update_nth_neq by auto.
           destruct (nth_error (subs st) id) as [s|]; cbn [option_map]; auto.
           exists s. split; auto. constructor.
    + split; [split; auto|].
      unfold vev_of. rewrite Hvi.
      destruct (nth_error (subs st) id) as [s|] eqn:En; cbn [option_map]; auto.
      destruct (Nat.eqb id' id) eqn:Eid.
      * apply Nat.eqb_eq in Eid. subst id'. congruence.
      * exists s. split; auto. constructor.
  - (* drop *)
    cbn [fst snd now subs vstate_step]. split.
    + split; cbn [now subs]; auto. rewrite map_key_update_nth; auto.
    + unfold vev_of. rewrite Hvi.
      destruct (Nat.eqb id' id) eqn:Eid.
      * apply Nat.eqb_eq in Eid. subst id'.
        destruct (nth_error (subs st) id) as [s|] eqn:En; cbn [option_map].
        -- exists (sub_drop s). split; [apply nth_error_update_nth_eq; auto | apply tr_drop].
        -- split; auto. left. apply nth_error_update_nth_none; auto.
      * apply Nat.eqb_neq in Eid. rewrite nth_error_update_nth_neq by auto.
        destruct (nth_error (subs st) id) as [s|]; cbn [option_map]; auto.
        exists s. split; auto. constructor.
  - (* advance *)
    cbn [fst snd now subs vstate_step]. split.
    + split; cbn [v_now v_info now subs]; auto. rewrite Hnow. auto.
    + unfold vev_of. destruct (nth_error (v_info vs) id) as [[? ?]|] eqn:E; rewrite Hvi in E.
      * destruct (nth_error (subs st) id) as [s|]; [|discriminate]. exists s. split; auto. constructor.
      * destruct (nth_error (subs st) id) as [s|]; [discriminate|]. auto.
Qed.

Lemma run22_cons : forall cap ttl st o r,
  run22 cap ttl st (o :: r) =
  snd (step22 cap ttl st o) :: run22 cap ttl (fst (step22 cap ttl st o)) r.
Proof. intros. cbn [run22]. destruct (step22 cap ttl st o). auto. Qed.

(* generic lifting of a per-subscription invariant to the views of the model *)
Section Lift.
  Variables (C : Type) (chk : C -> list vev -> bool) (CInv : sub -> C -> Prop) (c0 : C).
  Variable ttl : N.
  Hypothesis chk_nil : forall c, chk c [] = true.
  Hypothesis inv_new : forall nw tx, CInv (new_sub nw tx) c0.
  Hypothesis inv_trans : forall s evs s' c rest,
    CInv s c -> sub_trans ttl s evs s' ->
    (forall c', CInv s' c' -> chk c' rest = true) -> chk c (evs ++ rest) = true.

  Lemma lift_views : forall cap ops st vs id c,
    Forall wf_op ops -> RelV st vs ->
    match nth_error (subs st) id with Some s => CInv s c | None => c = c0 end ->
    chk c (view_of ttl id vs ops (run22 cap ttl st ops)) = true.
  Proof.
    induction ops as [|o r IH]; intros st vs id c Hwf Hrel Hc.
    - cbn. auto.
    - inversion Hwf; subst. rewrite run22_cons. cbn [view_of].
      destruct (global_step cap ttl st vs o id H1 Hrel) as [Hrel' Hid].
      destruct (nth_error (subs st) id) as [s|].
      + destruct Hid as [s' [Hn Htr]].
        eapply inv_trans; eauto. intros c' Hc'. apply IH; auto. rewrite Hn. auto.
      + destruct Hid as [Hev Hn]. rewrite Hev. cbn [app]. subst c.
        apply IH; auto. destruct Hn as [Hn|[nw [tx Hn]]]; rewrite Hn; auto.
  Qed.
End Lift.

Lemma model_safe_run : forall cap ttl ops id, Forall wf_op ops ->
  safe_run [] false false (view_of ttl id vinit ops (run22 cap ttl init22 ops)) = true.
Proof.
  intros cap ttl ops id H.
  set (chk := fun (c : list status * bool * bool) v => safe_run (fst (fst c)) (snd (fst c)) (snd c) v).
  set (CI := fun s (c : list status * bool * bool) => SafeInv s (fst (fst c)) (snd (fst c)) (snd c)).
  assert (Hnil : forall c, chk c [] = true) by (intros; reflexivity).
  assert (Hnew : forall nw tx, CI (new_sub nw tx) ([], false, false)) by (intros; apply SafeInv_new).
  assert (Htr : forall s evs s' c rest, CI s c -> sub_trans ttl s evs s' ->
                (forall c', CI s' c' -> chk c' rest = true) -> chk c (evs ++ rest) = true).
  { intros s evs s' [[a f] e] rest Hi Ht Hk. unfold chk, CI in *. cbn [fst snd] in *.
    eapply SafeInv_trans; eauto. intros a' f' e' Hi'. apply (Hk (a', f', e')). auto. }
  assert (Hrel : RelV init22 vinit) by (split; auto).
  assert (Hc : match nth_error (subs init22) id with
               | Some s => CI s ([], false, false)
               | None => (@nil status, false, false) = ([], false, false) end).
  { destruct id; cbn; reflexivity. }
  exact (lift_views _ chk CI ([], false, false) ttl Hnil Hnew Htr cap ops init22 vinit id _ H Hrel Hc).
Qed.

Lemma model_view_safe_all : forall cap ttl ops id, Forall wf_op ops ->
  view_safeb (view_of ttl id vinit ops (run22 cap ttl init22 ops)) = true.
Proof. intros. apply safe_run_view_safeb. apply model_safe_run; auto. Qed.

Lemma model_view_exact_all : forall cap ttl ops id, Forall wf_op ops ->
  view_exactb [] false (view_of ttl id vinit ops (run22 cap ttl init22 ops)) = true.
Proof.
  intros cap ttl ops id H.
  set (chk := fun (c : list status * bool) v => view_exactb (fst c) (snd c) v).
  set (CI := fun s (c : list status * bool) => ExactInv s (fst c) (snd c)).
  assert (Hnil : forall c, chk c [] = true) by (intros; reflexivity).
  assert (Hnew : forall nw tx, CI (new_sub nw tx) ([], false)) by (intros; apply ExactInv_new).
  assert (Htr : forall s evs s' c rest, CI s c -> sub_trans ttl s evs s' ->
                (forall c', CI s' c' -> chk c' rest = true) -> chk c (evs ++ rest) = true).
  { intros s evs s' [p f] rest Hi Ht Hk. unfold chk, CI in *. cbn [fst snd] in *.
    eapply ExactInv_trans; eauto. intros p' f' Hi'. apply (Hk (p', f')). auto. }
  assert (Hrel : RelV init22 vinit) by (split; auto).
  assert (Hc : match nth_error (subs init22) id with
               | Some s => CI s ([], false) | None => (@nil status, false) = ([], false) end).
  { destruct id; cbn; reflexivity. }
  exact (lift_views _ chk CI ([], false) ttl Hnil Hnew Htr cap ops init22 vinit id _ H Hrel Hc).
Qed.

(* subscriber ids are handed out consecutively *)
Lemma model_ids_ok : forall cap ttl ops st,
  ids_okb (length (subs st)) ops (run22 cap ttl st ops) = true.
Proof.
  induction ops as [|o r IH]; intros st; auto.
  rewrite run22_cons. destruct o as [tx s0|tx|id'|id'|dt]; cbn [step22 ids_okb].
  - cbn [fst snd]. specialize (IH {| now := now st; subs := map (sub_publish (now st) ttl tx s0) (subs st) |}).
    cbn [subs] in IH. rewrite map_length in IH. auto.
  - destruct (Nat.ltb _ cap); cbn [fst snd].
    + rewrite map_length, Nat.eqb_refl. cbn [andb].
      specialize (IH {| now := now st; subs := map (expire (now st) ttl) (subs st) ++ [new_sub (now st) tx] |}).
      cbn [subs] in IH. rewrite app_length, map_length in IH. cbn [length] in IH.
      rewrite Nat.add_1_r in IH. auto.
    + specialize (IH {| now := now st; subs := map (expire (now st) ttl) (subs st) |}).
      cbn [subs] in IH. rewrite map_length in IH. auto.
  - destruct (nth_error (subs st) id'); cbn [fst snd]; auto.
    specialize (IH {| now := now st; subs := update_nth id' (fun s => fst (sub_read s)) (subs st) |}).
    cbn [subs] in IH.
    assert (Hl : forall A (f : A -> A) n l, length (update_nth n f l) = length l).
    { intros A f n l. revert n. induction l; intros [|n]; cbn; auto. }
    rewrite Hl in IH. auto.
  - cbn [fst snd].
    specialize (IH {| now := now st; subs := update_nth id' sub_drop (subs st) |}).
    cbn [subs] in IH.
    assert (Hl : forall A (f : A -> A) n l, length (update_nth n f l) = length l).
    { intros A f n l. revert n. induction l; intros [|n]; cbn; auto. }
    rewrite Hl in IH. auto.
  - cbn [fst snd]. specialize (IH {| now := now st + dt; subs := subs st |}). auto.
Qed.

Lemma model_passes_c22 : forall cap ttl ops, Forall wf_op ops ->
  c22_okb ttl ops (run22 cap ttl init22 ops) = true.
Proof.
  intros. unfold c22_okb. pose proof (model_ids_ok cap ttl ops init22) as Hi.
  cbn [init22 subs length] in Hi. rewrite Hi. cbn [andb].
  apply forallb_forall. intros id _.
  rewrite model_view_safe_all, model_view_exact_all; auto.
Qed.
