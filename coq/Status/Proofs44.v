(* Proofs for C44: preconfirmation gossip is accepted only under a live delegation. *)
From Coq Require Import ZifyBool ZifyN ZifyNat.
From FC Require Import Status.Model44 Status.Proofs23.
Open Scope N_scope.

Lemma aget_filter_key : forall (p : N -> bool) (m : keymap) exp,
  aget exp (filter (fun e => p (fst e)) m) = if p exp then aget exp m else None.
Proof.
  induction m as [|[k v] r IH]; intros exp; cbn [filter aget fst].
  - destruct (p exp); auto.
  - destruct (p k) eqn:Ek; cbn [aget]; rewrite IH.
    + destruct (k =? exp) eqn:E; auto. assert (k = exp) by lia. subst. rewrite Ek. auto.
    + destruct (k =? exp) eqn:E; auto. assert (k = exp) by lia. subst. rewrite Ek. auto.
Qed.

(* ---------------- the invariant: the key map is a function of the history ---------------- *)
Definition Inv44 (s : st44) (hist : list ev44) : Prop :=
  forall exp, aget exp (keys s) = reg_rev (rev hist) exp.

Lemma Inv44_init : Inv44 init44 [].
Proof. intros exp. reflexivity. Qed.

Definition hist_step (hist : list ev44) (now : N) (o : op44) : list ev44 :=
  match o with OClock _ => hist | _ => hist ++ [(now, o)] end.

Lemma Inv44_step : forall s hist o,
  Inv44 s hist -> Inv44 (fst (step44 s o)) (hist_step hist (clock s) o).
Proof.
  intros s hist o H exp. destruct o as [e k ok|e b oks|t|k]; cbn [step44 hist_step].
  - unfold add_new_delegate, remove_expired_delegates.
    rewrite rev_app_distr. cbn [rev app reg_rev].
    destruct ok; cbn [fst keys andb].
    + destruct (e =? exp) eqn:E.
      * assert (e = exp) by lia. subst. apply aget_aput_eq.
      * rewrite aget_aput_neq by lia.
        rewrite (aget_filter_key (fun x => clock s <? x)). rewrite H. auto.
    + rewrite (aget_filter_key (fun x => clock s <? x)). rewrite H. auto.
  - destruct (check_preconfirmation_signature _ _ _ _); cbn [fst];
      rewrite rev_app_distr; cbn [rev app reg_rev]; apply H.
  - cbn [fst keys]. apply H.
  - cbn [fst]. rewrite rev_app_distr. cbn [rev app reg_rev]. apply H.
Qed.

Lemma check_is_spec : forall s hist exp oks,
  Inv44 s hist ->
  check_preconfirmation_signature (clock s) exp oks (keys s) = spec_accept hist (clock s) exp oks.
Proof.
  intros s hist exp oks H. unfold check_preconfirmation_signature, spec_accept. rewrite H.
  destruct (exp <? clock s) eqn:E1; destruct (clock s <=? exp) eqn:E2; try lia; auto.
Qed.

Definition final44 (ops : list op44) : st44 := fold_left (fun s o => fst (step44 s o)) ops init44.

Lemma clock_step : forall s o,
  clock (fst (step44 s o)) = match o with OClock t => t | _ => clock s end.
Proof.
  intros s [e k ok|e b oks|t|k]; cbn [step44]; auto.
  - unfold add_new_delegate. destruct ok; auto.
  - destruct (check_preconfirmation_signature _ _ _ _); auto.
Qed.

Lemma timeline44_snoc : forall ops now0 o,
  timeline44 now0 (ops ++ [o]) =
  hist_step (timeline44 now0 ops)
            (clock (fold_left (fun s o => fst (step44 s o)) ops {| clock := now0; keys := [] |})) o.
Proof.
  assert (G : forall ops s o,
            timeline44 (clock s) (ops ++ [o]) =
            hist_step (timeline44 (clock s) ops)
                      (clock (fold_left (fun s o => fst (step44 s o)) ops s)) o).
  { induction ops as [|a r IH]; intros s o.
    - cbn [app timeline44 fold_left]. destruct o; auto.
    - cbn [app fold_left]. specialize (IH (fst (step44 s a)) o). rewrite clock_step in IH.
      destruct a as [e k ok|e b oks|t|k]; cbn [timeline44]; rewrite IH;
        destruct o; cbn [hist_step app]; auto. }
  intros. apply (G ops {| clock := now0; keys := [] |} o).
Qed.

Lemma Inv44_final : forall ops, Inv44 (final44 ops) (timeline44 0 ops).
Proof.
  intros ops. induction ops as [|o r IH] using rev_ind.
  - apply Inv44_init.
  - unfold final44 in *. rewrite fold_left_app. cbn [fold_left].
    rewrite (timeline44_snoc r 0 o). apply Inv44_step. exact IH.
Qed.

(* ---------------- declarative reading of [reg_rev] ---------------- *)
(* [key] is registered for [exp] by the history: some accepted delegation (exp, key) was
   received, every delegation message received after it (accepted or not: each one prunes)
   came while the clock was < exp, and none of them was an accepted delegation for exp. *)
Definition Registered (hist : list ev44) (exp key : N) : Prop :=
  exists h1 t h2, hist = h1 ++ (t, ODelegate exp key true) :: h2 /\
    forall t' e' k' ok', In (t', ODelegate e' k' ok') h2 ->
      t' < exp /\ ~ (ok' = true /\ e' = exp).

Lemma last_or_nil : forall A (l : list A), l = [] \/ exists l' a, l = l' ++ [a].
Proof.
  intros A l. destruct l as [|x r]; auto. right.
  destruct (@exists_last A (x :: r)) as [l' [a H]]; [discriminate|]. eauto.
Qed.

Lemma snoc_split : forall A (hist h1 h2 : list A) x d,
  hist ++ [x] = h1 ++ d :: h2 ->
  (h2 = [] /\ h1 = hist /\ d = x) \/ (exists h2', h2 = h2' ++ [x] /\ hist = h1 ++ d :: h2').
Proof.
  intros A hist h1 h2 x d H.
  destruct (last_or_nil A h2) as [->|[h2' [y ->]]].
  - left. apply app_inj_tail in H. destruct H. auto.
  - right. exists h2'.
    replace (h1 ++ d :: h2' ++ [y]) with ((h1 ++ d :: h2') ++ [y]) in H
      by (rewrite <- app_assoc; auto).
    apply app_inj_tail in H. destruct H. subst. auto.
Qed.

Lemma Registered_snoc_other : forall hist t o exp key,
  (forall e k ok, o = ODelegate e k ok -> t < exp /\ ~ (ok = true /\ e = exp)) ->
  (Registered (hist ++ [(t, o)]) exp key <-> Registered hist exp key).
Proof.
  intros hist t o exp key Ho. split.
  - intros [h1 [t0 [h2 [Hs Hc]]]]. apply snoc_split in Hs.
    destruct Hs as [[-> [-> Hd]]|[h2' [-> ->]]].
    + inversion Hd; subst. destruct (Ho _ _ _ eq_refl) as [_ Hn]. exfalso. apply Hn. auto.
    + exists h1, t0, h2'. split; auto. intros. apply (Hc t' e' k' ok').
      apply in_or_app. auto.
  - intros [h1 [t0 [h2 [-> Hc]]]]. exists h1, t0, (h2 ++ [(t, o)]). split.
    + rewrite <- app_assoc. auto.
    + intros t' e' k' ok' Hi. apply in_app_or in Hi. destruct Hi as [Hi|[Hi|[]]].
      * eapply Hc; eauto.
      * inversion Hi; subst. eapply Ho; eauto.
Qed.

Lemma reg_rev_iff : forall hist exp key,
  reg_rev (rev hist) exp = Some key <-> Registered hist exp key.
Proof.
  induction hist as [|[t o] hist IH] using rev_ind; intros exp key.
  - cbn. split; [discriminate|]. intros [h1 [t [h2 [H _]]]]. destruct h1; discriminate.
  - rewrite rev_app_distr. cbn [rev app reg_rev].
    destruct o as [e k ok|e b oks|t1|k].
    + destruct (ok && (e =? exp)) eqn:E1.
      * apply andb_true_iff in E1. destruct E1 as [-> E1]. assert (e = exp) by lia. subst e.
        split.
        -- intros Hk. inversion Hk; subst. exists hist, t, []. split; auto. intros ? ? ? ? [].
        -- intros [h1 [t0 [h2 [Hs Hc]]]]. apply snoc_split in Hs.
           destruct Hs as [[-> [-> Hd]]|[h2' [-> ->]]].
           ++ inversion Hd; subst. auto.
           ++ exfalso. destruct (Hc t exp k true) as [_ Hn]; [apply in_or_app; right; left; auto|].
              apply Hn. auto.
      * destruct (t <? exp) eqn:E2.
        -- rewrite IH. symmetry. apply Registered_snoc_other.
           intros e0 k0 ok0 Ho. inversion Ho; subst. split; [lia|].
           intros [-> ->]. rewrite N.eqb_refl in E1. discriminate.
        -- split; [discriminate|]. intros [h1 [t0 [h2 [Hs Hc]]]]. apply snoc_split in Hs.
           destruct Hs as [[-> [-> Hd]]|[h2' [-> ->]]].
           ++ inversion Hd; subst. rewrite N.eqb_refl in E1. discriminate.
           ++ destruct (Hc t e k ok) as [Hlt _]; [apply in_or_app; right; left; auto|]. lia.
    + rewrite IH. symmetry. apply Registered_snoc_other. intros; discriminate.
    + rewrite IH. symmetry. apply Registered_snoc_other. intros; discriminate.
    + rewrite IH. symmetry. apply Registered_snoc_other. intros; discriminate.
Qed.

Lemma memb_iff : forall k l, memb k l = true <-> In k l.
Proof.
  intros. unfold memb. rewrite existsb_exists. split.
  - intros [x [Hi He]]. assert (k = x) by lia. subst. auto.
  - intros H. exists k. split; auto. apply N.eqb_refl.
Qed.

(* the condition under which a batch may change statuses *)
Definition Delegated (hist : list ev44) (now exp : N) (ok_keys : list N) : Prop :=
  now <= exp /\ exists key, Registered hist exp key /\ In key ok_keys.

Lemma spec_accept_iff : forall hist now exp oks,
  spec_accept hist now exp oks = true <-> Delegated hist now exp oks.
Proof.
  intros. unfold spec_accept, Delegated. rewrite andb_true_iff.
  destruct (reg_rev (rev hist) exp) as [k|] eqn:E.
  - rewrite memb_iff. apply reg_rev_iff in E. split.
    + intros [H1 H2]. split; [lia|]. exists k. auto.
    + intros [H1 [key [Hr Hi]]]. split; [lia|].
      apply reg_rev_iff in E. apply reg_rev_iff in Hr. congruence.
  - split; [intros [_ H]; discriminate|].
    intros [_ [key [Hr _]]]. apply reg_rev_iff in Hr. congruence.
Qed.

(* ---------------- the property theorems ---------------- *)
Lemma preconf_step_spec : forall before exp batch oks,
  let s := final44 before in
  let acc := spec_accept (timeline44 0 before) (clock s) exp oks in
  step44 s (OPreconf exp batch oks) =
  (s, {| report := Some acc; updates := if acc then map preconf_status batch else [] |}).
Proof.
  intros. cbn [step44]. rewrite (check_is_spec s (timeline44 0 before)) by apply Inv44_final.
  fold acc. destruct acc; auto.
Qed.

Lemma status_change_requires_delegation_all : forall before exp batch oks,
  let s := final44 before in
  let out := snd (step44 s (OPreconf exp batch oks)) in
  (updates out <> [] \/ report out = Some true) ->
  Delegated (timeline44 0 before) (clock s) exp oks.
Proof.
  intros before exp batch oks s out H. unfold out, s in H. rewrite preconf_step_spec in H.
  cbn [snd updates report] in H. apply spec_accept_iff.
  destruct (spec_accept _ _ _ _); auto. destruct H as [H|H]; [congruence|discriminate].
Qed.

Lemma all_else_rejected_all : forall before exp batch oks,
  let s := final44 before in
  ~ Delegated (timeline44 0 before) (clock s) exp oks ->
  step44 s (OPreconf exp batch oks) = (s, {| report := Some false; updates := [] |}).
Proof.
  intros before exp batch oks s H. unfold s. rewrite preconf_step_spec.
  destruct (spec_accept _ _ _ _) eqn:E; auto. apply spec_accept_iff in E. contradiction.
Qed.

Lemma delegated_accepted_all : forall before exp batch oks,
  let s := final44 before in
  Delegated (timeline44 0 before) (clock s) exp oks ->
  step44 s (OPreconf exp batch oks) =
  (s, {| report := Some true; updates := map preconf_status batch |}).
Proof.
  intros before exp batch oks s H. unfold s. rewrite preconf_step_spec.
  apply spec_accept_iff in H. unfold s in H. rewrite H. auto.
Qed.

Lemma expired_unusable_all : forall before exp batch oks,
  exp < clock (final44 before) ->
  step44 (final44 before) (OPreconf exp batch oks) =
  (final44 before, {| report := Some false; updates := [] |}).
Proof.
  intros. apply all_else_rejected_all. intros [Hle _]. lia.
Qed.

(* a delegation is reported Accept exactly when its signature check succeeded, changes no
   status, and afterwards no key whose expiration has been reached is left except the one
   just registered *)
Lemma delegation_step_all : forall s exp key ok,
  let s' := fst (step44 s (ODelegate exp key ok)) in
  snd (step44 s (ODelegate exp key ok)) = {| report := Some ok; updates := [] |} /\
  clock s' = clock s /\
  (forall e k, aget e (keys s') = Some k ->
     (ok = true /\ e = exp /\ k = key) \/ (clock s < e /\ aget e (keys s) = Some k)) /\
  (ok = true -> aget exp (keys s') = Some key).
Proof.
  intros s exp key ok. cbn [step44]. unfold add_new_delegate, remove_expired_delegates.
  destruct ok; cbn [fst snd keys clock]; repeat split; auto; try discriminate.
  - intros e k H. destruct (N.eq_dec e exp) as [->|Hne].
    + rewrite aget_aput_eq in H. inversion H; subst. auto.
    + rewrite aget_aput_neq in H by auto.
      rewrite (aget_filter_key (fun x => clock s <? x)) in H.
      destruct (clock s <? e) eqn:E; [|discriminate]. right. split; [lia|auto].
  - intros _. apply aget_aput_eq.
  - intros e k H. rewrite (aget_filter_key (fun x => clock s <? x)) in H.
    destruct (clock s <? e) eqn:E; [|discriminate]. right. split; [lia|auto].
Qed.

Lemma registered_iff_all : forall before exp key,
  aget exp (keys (final44 before)) = Some key <-> Registered (timeline44 0 before) exp key.
Proof. intros. rewrite (Inv44_final before exp). apply reg_rev_iff. Qed.

(* ---------------- the checker ---------------- *)
Fixpoint trace44_ok (now : N) (hist : list ev44) (ops : list op44) (outs : list out44) : Prop :=
  match ops, outs with
  | [], [] => True
  | o :: r, out :: outs' =>
      match o with
      | ODelegate exp key sig_ok =>
          report out = Some sig_ok /\ updates out = [] /\
          trace44_ok now (hist ++ [(now, o)]) r outs'
      | OPreconf exp batch ok_keys =>
          (Delegated hist now exp ok_keys ->
             report out = Some true /\ updates out = map preconf_status batch) /\
          (~ Delegated hist now exp ok_keys -> report out = Some false /\ updates out = []) /\
          trace44_ok now (hist ++ [(now, o)]) r outs'
      | OClock t => report out = None /\ updates out = [] /\ trace44_ok t hist r outs'
      | ORotate _ => report out = None /\ updates out = [] /\
                     trace44_ok now (hist ++ [(now, o)]) r outs'
      end
  | _, _ => False
  end.

Lemma st_eqb_iff : forall a b, st_eqb a b = true <-> a = b.
Proof.
  intros [a1 a2] [b1 b2]. unfold st_eqb. cbn [fst snd]. rewrite andb_true_iff, pair_eqb_iff.
  split; [intros [? ?]; f_equal; auto; lia | intros H; inversion H; subst; split; auto; lia].
Qed.

Lemma upd_eqb_iff : forall a b, upd_eqb a b = true <-> a = b.
Proof.
  induction a as [|x a IH]; destruct b as [|y b]; cbn [upd_eqb]; try (split; congruence).
  rewrite andb_true_iff, st_eqb_iff, IH. split; [intros [? ?]; congruence | intros H; inversion H; auto].
Qed.

Lemma orep_eqb_iff : forall a b, orep_eqb a b = true <-> a = b.
Proof.
  intros [[|]|] [[|]|]; cbn; split; congruence.
Qed.

Lemma c44_okb_iff : forall ops now hist outs,
  c44_okb now hist ops outs = true <-> trace44_ok now hist ops outs.
Proof.
  induction ops as [|o r IH]; intros now hist outs; destruct outs as [|out outs'];
    cbn [c44_okb trace44_ok]; try tauto; try (split; [discriminate | contradiction]).
  destruct o as [e k ok|e b oks|t|k]; rewrite !andb_true_iff, orep_eqb_iff, upd_eqb_iff, IH; try tauto.
  pose proof (spec_accept_iff hist now e oks) as Hs.
  destruct (spec_accept hist now e oks).
  - assert (Delegated hist now e oks) by (apply Hs; auto). tauto.
  - assert (~ Delegated hist now e oks) by (intros Hd; apply Hs in Hd; discriminate). tauto.
Qed.

Lemma upd_eqb_refl : forall a, upd_eqb a a = true.
Proof. intros. apply upd_eqb_iff. auto. Qed.

Lemma model_passes_c44_gen : forall ops s hist,
  Inv44 s hist -> c44_okb (clock s) hist ops (map fst (run44 s ops)) = true.
Proof.
  induction ops as [|o r IH]; intros s hist H; auto.
  cbn [run44]. pose proof (Inv44_step s hist o H) as H'. pose proof (clock_step s o) as Hc.
  destruct (step44 s o) as [s' out] eqn:E. cbn [fst] in H', Hc. cbn [map fst c44_okb].
  destruct o as [e k ok|e b oks|t|k]; cbn [hist_step] in H'.
  - cbn [step44] in E. unfold add_new_delegate in E.
    destruct ok; inversion E; subst; cbn [report updates orep_eqb upd_eqb Bool.eqb andb];
      rewrite <- Hc; apply IH; auto.
  - cbn [step44] in E. rewrite (check_is_spec s hist) in E by auto.
    destruct (spec_accept hist (clock s) e oks); inversion E; subst;
      cbn [report updates orep_eqb Bool.eqb andb]; rewrite upd_eqb_refl; cbn [andb];
      apply IH; auto.
  - rewrite <- Hc. cbn [step44] in E. injection E as Es Eo. subst s' out.
    cbn [report updates orep_eqb upd_eqb andb]. apply IH. auto.
  - rewrite <- Hc. cbn [step44] in E. injection E as Es Eo. subst s' out.
    cbn [report updates orep_eqb upd_eqb andb]. apply IH. auto.
Qed.

Lemma model_passes_c44 : forall ops, c44_okb 0 [] ops (map fst (run44 init44 ops)) = true.
Proof. intros. apply (model_passes_c44_gen ops init44 []). apply Inv44_init. Qed.

(* ---------------- non-vacuity ---------------- *)
(* clock 10: delegation (exp 20, key 1) accepted; a batch for exp 20 verifying under key 1 is
   applied at clock 20 and rejected at clock 21; a batch verifying only under key 2 is rejected;
   a rejected delegation at clock 20 prunes the entry (retain exp > now). *)
Example c44_nonvacuous :
  let ops := [OClock 10; ODelegate 20 1 true; OPreconf 20 [(7, 0, 1)] [2]; OClock 20;
              OPreconf 20 [(7, 0, 2)] [1]; ODelegate 30 2 false; OPreconf 20 [(7, 1, 3)] [1]] in
  map (fun x => (report (fst x), updates (fst x))) (run44 init44 ops) =
    [(None, []); (Some true, []); (Some false, []); (None, []);
     (Some true, [(7, (2, 2))]); (Some false, []); (Some false, [])] /\
  Delegated (timeline44 0 (firstn 4 ops)) 20 20 [1].
Proof.
  split; [vm_compute; reflexivity|].
  apply spec_accept_iff. vm_compute. reflexivity.
Qed.
