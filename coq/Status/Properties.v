(* Property theorems of the Status cluster (fuel-core-tx-status-manager).  Nothing but
   statements, [exact], and Print Assumptions. *)
From FC Require Import Status.Model Status.Proofs23 Status.Proofs22 Status.Proofs22b Status.Proofs44.
Open Scope N_scope.

(* ------------------------------------------------------------------ *)
(* C23.  [run ttl ops] is the cache after any history of publications (each one a
   register_status call = prune_old_statuses + add_new_status at the current time) and
   clock advances; [timeline 0 ops] is that history as (time, tx, status) events.
   Times are unbounded naturals (Instant arithmetic does not overflow); time never
   decreases, so [ev_time e - t] is the age of a status published at [t] when the later
   event [e] is registered. *)

(* The answer of a status query is a function of the history alone: the last published
   status of the transaction, unless that status is prunable (anything but Submitted) and
   some later register call happened when its age was >= ttl. *)
Theorem status_is_spec : forall ttl ops tx,
  get_status (snd (run ttl ops)) tx = spec_status ttl (timeline 0 ops) tx.
Proof. exact status_is_spec_all. Qed.
Print Assumptions status_is_spec.

Theorem status_latest : forall ttl ops tx before t s later,
  timeline 0 ops = before ++ (t, tx, s) :: later -> published later tx = false ->
  get_status (snd (run ttl ops)) tx = Some s \/
  (get_status (snd (run ttl ops)) tx = None /\ is_prunable s = true /\
   exists e, In e later /\ ttl <= ev_time e - t).
Proof. exact status_latest_all. Qed.
Print Assumptions status_latest.

Theorem kept_at_least_ttl : forall ttl ops tx before t s later,
  timeline 0 ops = before ++ (t, tx, s) :: later -> published later tx = false ->
  (forall e, In e later -> ev_time e - t < ttl) ->
  get_status (snd (run ttl ops)) tx = Some s.
Proof. exact kept_at_least_ttl_all. Qed.
Print Assumptions kept_at_least_ttl.

Theorem submitted_kept_until_replaced : forall ttl ops tx before t s later,
  timeline 0 ops = before ++ (t, tx, s) :: later -> published later tx = false ->
  is_prunable s = false ->
  get_status (snd (run ttl ops)) tx = Some s.
Proof. exact submitted_kept_all. Qed.
Print Assumptions submitted_kept_until_replaced.

Theorem forgotten_after_ttl : forall ttl ops tx before t s later,
  timeline 0 ops = before ++ (t, tx, s) :: later -> published later tx = false ->
  is_prunable s = true -> (exists e, In e later /\ ttl <= ev_time e - t) ->
  get_status (snd (run ttl ops)) tx = None.
Proof. exact forgotten_after_ttl_all. Qed.
Print Assumptions forgotten_after_ttl.

Theorem unpublished_unknown : forall ttl ops tx,
  published (timeline 0 ops) tx = false -> get_status (snd (run ttl ops)) tx = None.
Proof. exact unpublished_unknown_all. Qed.
Print Assumptions unpublished_unknown.

Theorem timeline_monotone : forall ops now, Forall (fun e => now <= ev_time e) (timeline now ops).
Proof. exact timeline_times. Qed.
Print Assumptions timeline_monotone.

(* queue/map consistency (Data::assert_consistency of the crate's tests) in every
   reachable state *)
Theorem cache_consistent : forall ttl ops, Consistent (snd (run ttl ops)).
Proof. exact cache_consistent_all. Qed.
Print Assumptions cache_consistent.

(* Pcheck of C23: meaning of the checker evaluated on the implementation's trace, and
   the model's own trace passes it. *)
Theorem c23_checker_sound : forall ttl ntx ops now evs obs,
  c23_okb ttl ntx now evs ops obs = true <-> trace_ok ttl ntx now evs ops obs.
Proof. exact c23_okb_iff. Qed.
Print Assumptions c23_checker_sound.

Theorem c23_model_passes : forall ttl ntx ops,
  c23_okb ttl ntx 0 [] ops (map (model_obs ntx) (run_states ttl (0, empty) ops)) = true.
Proof. exact model_trace_ok_all. Qed.
Print Assumptions c23_model_passes.

(* ------------------------------------------------------------------ *)
(* C22.  [run22 cap ttl init22 ops] are the outputs of the UpdateSender model for ANY
   interleaving [ops] of publish / subscribe / read / drop / clock-advance operations
   (cap = subscription limit, ttl = subscription ttl).  [view_of ttl id vinit ops outs] is
   what concerns subscription [id]: the statuses published for its transaction after it
   subscribed (VPub), the results of its reads (VRead), its drop, and the moments its
   sender was expired.  tokio's mpsc channel is modelled as a bounded FIFO of capacity 3
   (see Model22.v).  Hypothesis: published statuses are one of the seven variants. *)

(* The statuses a subscriber reads are, in order and each at most once, statuses published
   for its transaction after it subscribed, none of them published after the first final
   one; the FailedStatus marker can only be the very last message. *)
Theorem delivered_is_subsequence : forall cap ttl ops id, Forall wf_op ops ->
  let v := view_of ttl id vinit ops (run22 cap ttl init22 ops) in
  exists l, msgs_statuses (view_msgs v) = Some l /\ Subseq l (upto_final (view_pubs v)).
Proof. exact delivered_is_subsequence_all. Qed.
Print Assumptions delivered_is_subsequence.

(* After a final message (final status or FailedStatus), after the end of the stream, or
   after the drop, a subscriber never reads a message or "pending" again. *)
Theorem nothing_after_final : forall cap ttl ops id, Forall wf_op ops ->
  NothingAfterEnd (view_of ttl id vinit ops (run22 cap ttl init22 ops)).
Proof. exact nothing_after_final_all. Qed.
Print Assumptions nothing_after_final.

(* A subscriber that has read everything sent so far before each publication (and has not
   dropped its stream nor outlived the subscription ttl) reads exactly the published
   statuses, in order, up to and including the first final one, sees "pending" only
   before and the end of the stream only after that final status. *)
Theorem drained_gets_all : forall cap ttl ops id, Forall wf_op ops ->
  ViewExact [] false (view_of ttl id vinit ops (run22 cap ttl init22 ops)).
Proof. exact drained_gets_all_all. Qed.
Print Assumptions drained_gets_all.

(* Pcheck of C22 *)
Theorem c22_checker_sound : forall ttl ops outs, c22_okb ttl ops outs = true <-> C22Spec ttl ops outs.
Proof. exact c22_okb_iff. Qed.
Print Assumptions c22_checker_sound.

Theorem c22_model_passes : forall cap ttl ops, Forall wf_op ops ->
  c22_okb ttl ops (run22 cap ttl init22 ops) = true.
Proof. exact model_passes_c22. Qed.
Print Assumptions c22_model_passes.

(* ------------------------------------------------------------------ *)
(* C44.  [final44 before] is the SignatureVerification state (clock, delegate-key map)
   after ANY sequence [before] of delegation messages, preconfirmation batches, clock
   changes and protocol-key rotations; [timeline44 0 before] is that history with the
   clock value at which each message was received.  Signature checks are oracle inputs of
   the messages (see Model44.v); no unforgeability is assumed.
   [Delegated hist now exp ok_keys] :=  now <= exp  and some key [k] is [Registered] for
   [exp] by the history (an accepted delegation (exp, k) was received -- accepted = signed
   by the protocol key current at that moment --, every later delegation message arrived
   while the clock was < exp, none of them was an accepted delegation for exp) and the
   batch verifies under [k]. *)

(* a batch changes statuses (or is reported Accept) only under a live delegation *)
Theorem status_change_requires_delegation : forall before exp batch oks,
  let s := final44 before in
  let out := snd (step44 s (OPreconf exp batch oks)) in
  (updates out <> [] \/ report out = Some true) ->
  Delegated (timeline44 0 before) (clock s) exp oks.
Proof. exact status_change_requires_delegation_all. Qed.
Print Assumptions status_change_requires_delegation.

(* every other batch is rejected, reported as invalid, and changes nothing *)
Theorem all_else_rejected : forall before exp batch oks,
  let s := final44 before in
  ~ Delegated (timeline44 0 before) (clock s) exp oks ->
  step44 s (OPreconf exp batch oks) = (s, {| report := Some false; updates := [] |}).
Proof. exact all_else_rejected_all. Qed.
Print Assumptions all_else_rejected.

(* and a properly delegated batch is applied in full and reported valid *)
Theorem delegated_accepted : forall before exp batch oks,
  let s := final44 before in
  Delegated (timeline44 0 before) (clock s) exp oks ->
  step44 s (OPreconf exp batch oks) =
  (s, {| report := Some true; updates := map preconf_status batch |}).
Proof. exact delegated_accepted_all. Qed.
Print Assumptions delegated_accepted.

(* once the clock has passed an expiration no batch for it is accepted *)
Theorem expired_unusable : forall before exp batch oks,
  exp < clock (final44 before) ->
  step44 (final44 before) (OPreconf exp batch oks) =
  (final44 before, {| report := Some false; updates := [] |}).
Proof. exact expired_unusable_all. Qed.
Print Assumptions expired_unusable.

(* a delegation is reported Accept exactly when its signature check against the current
   protocol key succeeded; it changes no status; after it no key whose expiration has been
   reached remains registered, except the one just registered *)
Theorem delegation_step : forall s exp key ok,
  let s' := fst (step44 s (ODelegate exp key ok)) in
  snd (step44 s (ODelegate exp key ok)) = {| report := Some ok; updates := [] |} /\
  clock s' = clock s /\
  (forall e k, aget e (keys s') = Some k ->
     (ok = true /\ e = exp /\ k = key) \/ (clock s < e /\ aget e (keys s) = Some k)) /\
  (ok = true -> aget exp (keys s') = Some key).
Proof. exact delegation_step_all. Qed.
Print Assumptions delegation_step.

(* the key map is a function of the history, with a declarative reading *)
Theorem registered_iff : forall before exp key,
  aget exp (keys (final44 before)) = Some key <-> Registered (timeline44 0 before) exp key.
Proof. exact registered_iff_all. Qed.
Print Assumptions registered_iff.

(* Pcheck of C44 *)
Theorem c44_checker_sound : forall ops now hist outs,
  c44_okb now hist ops outs = true <-> trace44_ok now hist ops outs.
Proof. exact c44_okb_iff. Qed.
Print Assumptions c44_checker_sound.

Theorem c44_model_passes : forall ops, c44_okb 0 [] ops (map fst (run44 init44 ops)) = true.
Proof. exact model_passes_c44. Qed.
Print Assumptions c44_model_passes.
