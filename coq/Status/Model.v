(* Executable model of fuel-core-tx-status-manager, entry point of the correspondence
   check.  The definitions live in Model23.v (status cache, C23), Model22.v
   (subscriptions, C22) and Model44.v (preconfirmation signatures, C44); no proofs here. *)
From FC Require Export Common.T Status.Model23 Status.Model22 Status.Model44.

Definition main_T (req : T) : T :=
  match req with
  | L [I 23%Z; input; observed] => main23 input observed
  | L [I 22%Z; input; observed] => main22 input observed
  | L [I 44%Z; input; observed] => main44 input observed
  | _ => tErr 0
  end.
