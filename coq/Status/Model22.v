(* Executable model of the status subscriptions of fuel-core-tx-status-manager (C22):
     crates/services/tx_status_manager/src/tx_status_stream.rs   TxUpdateStream
     crates/services/tx_status_manager/src/update_sender.rs      Sender::try_send,
        UpdateSender::{try_subscribe, send}, remove_closed_and_expired, MpscChannel
   tokio's mpsc channel is modelled as a bounded FIFO of capacity BUFFER_SIZE = 3 whose
   try_send answers Closed when the receiver was dropped (checked first), Full when 3
   messages are waiting, and whose receiver still gets the buffered messages after the
   sender was dropped and then sees the end of the stream.  The tokio scheduler is
   replaced by "any interleaving of the atomic operations publish / subscribe / read /
   drop / clock advance".  Definitions only; proofs are in Proofs22.v. *)
From FC Require Export Common.T Status.Model23.
Open Scope N_scope.

(* TransactionStatus::is_final : Success, SqueezedOut, PreConfirmationSqueezedOut, Failure *)
Definition st_final (s : status) : bool :=
  let k := st_kind s in (k =? 1) || (k =? 3) || (k =? 4) || (k =? 5).

Inductive msg := MStatus (s : status) | MFailed.          (* TxStatusMessage *)
Definition msg_final (m : msg) : bool :=
  match m with MStatus s => st_final s | MFailed => true end.

(* tx_status_stream.rs : State *)
Inductive sstate :=
| SEmpty
| SSubmitted (s : status)
| SPreconfirmed (s : status)
| SEarlySuccess (s : status)
| SSuccess (s1 s2 : status)
| SFailed
| SLateFailed (s : status)
| SSenderClosed (s : status)
| SClosed.

Definition is_submitted_kind (s : status) : bool := st_kind s =? 0.
(* PreConfirmationSuccess | PreConfirmationFailure *)
Definition is_preconf_kind (s : status) : bool := (st_kind s =? 2) || (st_kind s =? 6).

Definition add_msg (st : sstate) (m : msg) : sstate :=
  match st with
  | SEmpty =>
      match m with
      | MStatus s => if is_submitted_kind s then SSubmitted s
                     else if is_preconf_kind s then SPreconfirmed s
                     else SEarlySuccess s
      | MFailed => SFailed
      end
  | SSubmitted s1 =>
      match m with
      | MStatus s2 => if is_submitted_kind s2 then SSubmitted s2
                      else if is_preconf_kind s2 then SPreconfirmed s2
                      else SSuccess s1 s2
      | MFailed => SLateFailed s1
      end
  | SPreconfirmed s1 =>
      match m with
      | MStatus s2 => SSuccess s1 s2
      | MFailed => SLateFailed s1
      end
  | s => s
  end.

Definition add_failure (st : sstate) : sstate :=
  match st with
  | SSubmitted s | SPreconfirmed s => SLateFailed s
  | SEmpty => SFailed
  | s => s
  end.

Definition close_recv (st : sstate) : sstate := SClosed.

Definition try_next (st : sstate) : sstate * option msg :=
  match st with
  | SSubmitted s => (SEmpty, Some (MStatus s))
  | SPreconfirmed s => (SEmpty, Some (MStatus s))
  | SEmpty => (SEmpty, None)
  | SEarlySuccess s | SSenderClosed s => (SClosed, Some (MStatus s))
  | SFailed => (SClosed, Some MFailed)
  | SLateFailed s => (SFailed, Some (MStatus s))
  | SSuccess s1 s2 => (SSenderClosed s2, Some (MStatus s1))
  | SClosed => (SClosed, None)
  end.

Definition is_closed (st : sstate) : bool :=
  match st with SClosed => true | _ => false end.

Definition BUFFER_SIZE : nat := 3.

(* One subscription: the Sender kept in UpdateSender::senders (while [in_map]), its
   channel buffer and the receiving end held by the subscriber (while [rx_alive]). *)
Record sub := {
  stx : N;                 (* transaction the subscription is for *)
  stream : sstate;         (* Sender::stream *)
  buf : list msg;          (* messages waiting in the mpsc channel, oldest first *)
  rx_alive : bool;         (* the subscriber has not dropped its TxStatusStream *)
  in_map : bool;           (* the Sender (and its permit) is still in the senders map *)
  created : N              (* Sender::created *)
}.

Inductive chan_result := ChanOk | ChanFull | ChanClosed.

(* mpsc::Sender::try_send *)
Definition chan_try_send (s : sub) : chan_result :=
  if negb (rx_alive s) then ChanClosed
  else if Nat.leb BUFFER_SIZE (length (buf s)) then ChanFull
  else ChanOk.

(* impl SendStatus for Sender: try_send; the result Err(Closed) = "remove from the map" *)
Definition sender_try_send (m : msg) (s : sub) : sub :=
  let st1 := add_msg (stream s) m in
  let '(st2, next) := try_next st1 in
  let '(st3, buf') :=
    match next with
    | Some m' =>
        match chan_try_send s with
        | ChanOk => (st2, buf s ++ [m'])
        | ChanFull => (add_failure st2, buf s)
        | ChanClosed => (close_recv st2, buf s)
        end
    | None => (st2, buf s)
    end in
  {| stx := stx s; stream := st3; buf := buf'; rx_alive := rx_alive s;
     in_map := negb (is_closed st3); created := created s |}.

(* remove_closed_and_expired, for one sender *)
Definition expire (now ttl : N) (s : sub) : sub :=
  if in_map s && negb (negb (is_closed (stream s)) && (now - created s <? ttl))
  then {| stx := stx s; stream := stream s; buf := buf s; rx_alive := rx_alive s;
          in_map := false; created := created s |}
  else s.

(* UpdateSender::send, for one sender *)
Definition sub_publish (now ttl tx : N) (st : status) (s : sub) : sub :=
  let s1 := expire now ttl s in
  if in_map s1 && (stx s1 =? tx) then sender_try_send (MStatus st) s1 else s1.

Inductive rresult := RMsg (m : msg) | RPending | REnd | RNone.

(* polling the TxStatusStream once *)
Definition sub_read (s : sub) : sub * rresult :=
  if negb (rx_alive s) then (s, RNone)
  else match buf s with
       | m :: r => ({| stx := stx s; stream := stream s; buf := r; rx_alive := true;
                       in_map := in_map s; created := created s |}, RMsg m)
       | [] => (s, if in_map s then RPending else REnd)
       end.

(* dropping the TxStatusStream: the buffered messages are discarded *)
Definition sub_drop (s : sub) : sub :=
  {| stx := stx s; stream := stream s; buf := []; rx_alive := false;
     in_map := in_map s; created := created s |}.

Inductive op22 :=
| OPublish (tx : N) (st : status)
| OSubscribe (tx : N)
| ORead (id : nat)
| ODrop (id : nat)
| OAdvance (dt : N).

Record state := { now : N; subs : list sub }.      (* subscriber id = position in [subs] *)

Definition new_sub (now tx : N) : sub :=
  {| stx := tx; stream := SEmpty; buf := []; rx_alive := true; in_map := true; created := now |}.

Definition permits_used (l : list sub) : nat := length (filter in_map l).

Fixpoint update_nth {A} (n : nat) (f : A -> A) (l : list A) : list A :=
  match l, n with
  | [], _ => []
  | x :: r, O => f x :: r
  | x :: r, S n' => x :: update_nth n' f r
  end.

Inductive out22 := OutUnit | OutSub (id : option nat) | OutRead (r : rresult).

Definition step22 (cap : nat) (ttl : N) (st : state) (o : op22) : state * out22 :=
  match o with
  | OPublish tx s =>
      ({| now := now st; subs := map (sub_publish (now st) ttl tx s) (subs st) |}, OutUnit)
  | OSubscribe tx =>
      let l := map (expire (now st) ttl) (subs st) in
      if Nat.ltb (permits_used l) cap
      then ({| now := now st; subs := l ++ [new_sub (now st) tx] |}, OutSub (Some (length l)))
      else ({| now := now st; subs := l |}, OutSub None)
  | ORead id =>
      match nth_error (subs st) id with
      | Some s => ({| now := now st; subs := update_nth id (fun s => fst (sub_read s)) (subs st) |},
                   OutRead (snd (sub_read s)))
      | None => (st, OutRead RNone)
      end
  | ODrop id => ({| now := now st; subs := update_nth id sub_drop (subs st) |}, OutUnit)
  | OAdvance dt => ({| now := now st + dt; subs := subs st |}, OutUnit)
  end.

Fixpoint run22 (cap : nat) (ttl : N) (st : state) (ops : list op22) : list out22 :=
  match ops with
  | [] => []
  | o :: r => let '(st', out) := step22 cap ttl st o in out :: run22 cap ttl st' r
  end.

Definition init22 : state := {| now := 0; subs := [] |}.

(* ------------------------------------------------------------------ *)
(* The subscriber's view of a history and the specification on views.
   A view is the sequence of things that concern one subscription, after it was made:
   publications for its transaction, the results of its reads, its drop, and the
   moments at which remove_closed_and_expired ran when its age was >= ttl. *)
Inductive vev := VPub (s : status) | VRead (r : rresult) | VDrop | VExpire.

(* publications up to and including the first final one *)
Fixpoint upto_final (p : list status) : list status :=
  match p with
  | [] => []
  | s :: r => if st_final s then [s] else s :: upto_final r
  end.

Fixpoint view_pubs (v : list vev) : list status :=
  match v with
  | [] => []
  | VPub s :: r => s :: view_pubs r
  | _ :: r => view_pubs r
  end.
Fixpoint view_msgs (v : list vev) : list msg :=
  match v with
  | [] => []
  | VRead (RMsg m) :: r => m :: view_msgs r
  | _ :: r => view_msgs r
  end.

Definition status_eqb (a b : status) : bool := pair_eqb a b.

(* [l] is a subsequence of [p] (greedy matching), decidable *)
Fixpoint subseqb (l p : list status) : bool :=
  match p with
  | [] => match l with [] => true | _ => false end
  | y :: p' =>
      match l with
      | [] => true
      | x :: l' => if status_eqb x y then subseqb l' p' else subseqb l p'
      end
  end.

(* the delivered messages: statuses, then possibly the FailedStatus marker at the very end *)
Fixpoint msgs_statuses (l : list msg) : option (list status) :=
  match l with
  | [] => Some []
  | [MFailed] => Some []
  | MFailed :: _ => None
  | MStatus s :: r => option_map (cons s) (msgs_statuses r)
  end.

(* shape of the read results: after the end of the stream or after a final message
   only end-of-stream is observed *)
Fixpoint reads_shapeb (ended : bool) (v : list vev) : bool :=
  match v with
  | [] => true
  | VRead (RMsg m) :: r => negb ended && reads_shapeb (msg_final m) r
  | VRead RPending :: r => negb ended && reads_shapeb false r
  | VRead REnd :: r => reads_shapeb true r
  | VRead RNone :: r => reads_shapeb ended r
  | VDrop :: r => reads_shapeb true r      (* nothing is read after the drop *)
  | _ :: r => reads_shapeb ended r
  end.

(* Part 1 of the property, on a view *)
Definition view_safeb (v : list vev) : bool :=
  match msgs_statuses (view_msgs v) with
  | Some l => subseqb l (upto_final (view_pubs v)) && reads_shapeb false v
  | None => false
  end.

(* Part 2: a subscriber that drains (saw Pending/End, or has not been sent anything since)
   before each publication behaves like a lossless unbounded FIFO cut after the first
   final status.  [pend] = what the ideal FIFO still holds, [fin] = a final status was
   published.  The check stops (true) when the subscriber stops draining, drops its
   stream, or its subscription expires. *)
Fixpoint view_exactb (pend : list status) (fin : bool) (v : list vev) : bool :=
  match v with
  | [] => true
  | VPub s :: r =>
      if fin then view_exactb pend fin r
      else match pend with
           | [] => view_exactb [s] (st_final s) r
           | _ => true                                      (* not drained: no claim *)
           end
  | VRead (RMsg (MStatus s)) :: r =>
      match pend with
      | x :: pend' => status_eqb x s && view_exactb pend' fin r
      | [] => false
      end
  | VRead (RMsg MFailed) :: r => false
  | VRead RPending :: r =>
      match pend with [] => negb fin && view_exactb pend fin r | _ => false end
  | VRead REnd :: r =>
      match pend with [] => fin && view_exactb pend fin r | _ => false end
  | VRead RNone :: r => false
  | VDrop :: r => true
  | VExpire :: r => true
  end.

(* ------------------------------------------------------------------ *)
(* Views are computed from the ops and the outputs (of the model or of the
   implementation): view of subscription [id]. [live] = id has been handed out. *)
Record vstate := { v_now : N;
                   v_info : list (N * N) }.                 (* id -> (tx, created) *)

Definition vev_of (ttl : N) (id : nat) (vs : vstate) (o : op22) (out : out22) : list vev :=
  match nth_error (v_info vs) id with
  | None => []
  | Some (tx, cr) =>
      let ex := if ttl <=? v_now vs - cr then [VExpire] else [] in
      match o with
      | OPublish tx' s => ex ++ (if tx' =? tx then [VPub s] else [])
      | OSubscribe _ => ex
      | ORead id' => if Nat.eqb id' id then
                       match out with OutRead r => [VRead r] | _ => [] end
                     else []
      | ODrop id' => if Nat.eqb id' id then [VDrop] else []
      | OAdvance _ => []
      end
  end.

Definition vstate_step (vs : vstate) (o : op22) (out : out22) : vstate :=
  match o, out with
  | OSubscribe tx, OutSub (Some _) =>
      {| v_now := v_now vs; v_info := v_info vs ++ [(tx, v_now vs)] |}
  | OAdvance dt, _ => {| v_now := v_now vs + dt; v_info := v_info vs |}
  | _, _ => vs
  end.

Fixpoint view_of (ttl : N) (id : nat) (vs : vstate) (ops : list op22) (outs : list out22)
  : list vev :=
  match ops, outs with
  | o :: r, out :: outs' => vev_of ttl id vs o out ++ view_of ttl id (vstate_step vs o out) r outs'
  | _, _ => []
  end.

Definition vinit : vstate := {| v_now := 0; v_info := [] |}.

(* subscriber ids handed out must be consecutive: 0, 1, 2, ... *)
Fixpoint ids_okb (next : nat) (ops : list op22) (outs : list out22) : bool :=
  match ops, outs with
  | [], [] => true
  | o :: r, out :: outs' =>
      match o, out with
      | OSubscribe _, OutSub (Some id) => Nat.eqb id next && ids_okb (S next) r outs'
      | OSubscribe _, OutSub None => ids_okb next r outs'
      | OSubscribe _, _ => false
      | ORead _, OutRead _ => ids_okb next r outs'
      | ORead _, _ => false
      | _, OutUnit => ids_okb next r outs'
      | _, _ => false
      end
  | _, _ => false
  end.

Fixpoint count_subs (outs : list out22) : nat :=
  match outs with
  | [] => O
  | OutSub (Some _) :: r => S (count_subs r)
  | _ :: r => count_subs r
  end.

(* Pcheck of C22 on a trace (ops, outputs) *)
Definition c22_okb (ttl : N) (ops : list op22) (outs : list out22) : bool :=
  ids_okb 0 ops outs &&
  forallb (fun id => let v := view_of ttl id vinit ops outs in
                     view_safeb v && view_exactb [] false v)
          (seq 0 (count_subs outs)).

(* ------------------------------------------------------------------ *)
(* T codecs *)
(* ids and the permit count are small; anything >= 100000 behaves like 100000 (there are
   never that many subscriptions), which keeps [nat] small in the extracted code *)
Definition small_nat (n : N) : nat := N.to_nat (N.min n 100000).

Definition msg_T (m : msg) : T :=
  match m with MStatus s => status_T s | MFailed => L [I 7] end.
Definition T_msg (t : T) : option msg :=
  match t with
  | L [I 7%Z] => Some MFailed
  | _ => option_map MStatus (T_status t)
  end.
Definition rresult_T (r : rresult) : T :=
  match r with
  | RMsg m => L [I 0; msg_T m]
  | RPending => L [I 1]
  | REnd => L [I 2]
  | RNone => L [I 3]
  end.
Definition T_rresult (t : T) : option rresult :=
  match t with
  | L [I 0%Z; m] => option_map RMsg (T_msg m)
  | L [I 1%Z] => Some RPending
  | L [I 2%Z] => Some REnd
  | L [I 3%Z] => Some RNone
  | _ => None
  end.
Definition out22_T (o : out22) : T :=
  match o with
  | OutUnit => L []
  | OutSub None => L [I 5]
  | OutSub (Some id) => L [I 4; tN (N.of_nat id)]
  | OutRead r => rresult_T r
  end.
Definition T_out22 (t : T) : option out22 :=
  match t with
  | L [] => Some OutUnit
  | L [I 5%Z] => Some (OutSub None)
  | L [I 4%Z; id] => option_map (fun n => OutSub (Some (small_nat n))) (getN id)
  | _ => option_map OutRead (T_rresult t)
  end.
Definition T_op22 (t : T) : option op22 :=
  match t with
  | L [I 0%Z; tx; k; p] =>
      match getN tx, getN k, getN p with
      | Some tx, Some k, Some p => Some (OPublish tx (k, p))
      | _, _, _ => None
      end
  | L [I 1%Z; tx] => option_map OSubscribe (getN tx)
  | L [I 2%Z; id] => option_map (fun n => ORead (small_nat n)) (getN id)
  | L [I 3%Z; id] => option_map (fun n => ODrop (small_nat n)) (getN id)
  | L [I 4%Z; dt] => option_map OAdvance (getN dt)
  | _ => None
  end.

Definition main22 (input observed : T) : T :=
  match input with
  | L [cap; ttl; L ops] =>
      match getN cap, getN ttl, mapM T_op22 ops with
      | Some cap, Some ttl, Some ops =>
          let model := L (map out22_T (run22 (small_nat cap) ttl init22 ops)) in
          let pc := match observed with
                    | L obs => match mapM T_out22 obs with
                               | Some outs => c22_okb ttl ops outs
                               | None => false
                               end
                    | _ => false
                    end in
          L [model; tB pc]
      | _, _, _ => tErr 2
      end
  | _ => tErr 1
  end.
