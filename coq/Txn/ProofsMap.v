(* Association-list maps: lookup after insert/delete, sortedness (BTreeMap order) and the
   structural equality on the exchange format. *)
From FC Require Import Txn.Model.
From Coq Require Import ZifyBool ZifyN.
Open Scope N_scope.

Section Maps.
Context {V : Type}.
Implicit Types (m : amap V) (k : N) (v : V).

Lemma find_ins k k' v m :
  find k' (ins k v m) = if k =? k' then Some v else find k' m.
Proof.
  induction m as [|[k0 v0] r IH]; cbn [ins find]; [reflexivity|].
  destruct (k <? k0) eqn:E1; cbn [find]; [reflexivity|].
  destruct (k =? k0) eqn:E2; cbn [find].
  - apply N.eqb_eq in E2. subst k0. destruct (k =? k'); reflexivity.
  - rewrite IH. destruct (k0 =? k') eqn:E3, (k =? k') eqn:E4; try reflexivity. lia.
Qed.

Lemma find_del k k' m :
  find k' (del k m) = if k =? k' then None else find k' m.
Proof.
  induction m as [|[k0 v0] r IH]; cbn [del find]; [destruct (k =? k'); reflexivity|].
  destruct (k0 =? k) eqn:E1; cbn [find].
  - rewrite IH. destruct (k =? k') eqn:E2, (k0 =? k') eqn:E3; try reflexivity. lia.
  - rewrite IH. destruct (k =? k') eqn:E2, (k0 =? k') eqn:E3; try reflexivity. lia.
Qed.

Lemma find_app k (a b : amap V) :
  find k (a ++ b) = match find k a with Some o => Some o | None => find k b end.
Proof.
  induction a as [|[k0 v0] r IH]; cbn [app find]; [reflexivity|].
  destruct (k0 =? k); [reflexivity|exact IH].
Qed.

Lemma find_notin k m : ~ In k (keys m) -> find k m = None.
Proof.
  induction m as [|[k0 v0] r IH]; cbn; intro H; [reflexivity|].
  destruct (k0 =? k) eqn:E; [exfalso; apply H; left; lia|].
  apply IH. intro; apply H; now right.
Qed.

Lemma find_in_keys k m : find k m <> None -> In k (keys m).
Proof.
  induction m as [|[k0 v0] r IH]; cbn; intro H; [congruence|].
  destruct (k0 =? k) eqn:E; [left; lia|right; now apply IH].
Qed.

Lemma find_In k m x : find k m = Some x -> In (k, x) m.
Proof.
  induction m as [|[k0 v0] r IH]; cbn; intro H; [discriminate|].
  destruct (k0 =? k) eqn:E.
  - injection H as ->. left. f_equal. lia.
  - right. now apply IH.
Qed.

(* sortedness of the key list *)
Fixpoint lt_all (k : N) (l : list N) : Prop :=
  match l with [] => True | x :: r => k < x /\ lt_all k r end.
Fixpoint sortedk (l : list N) : Prop :=
  match l with [] => True | x :: r => lt_all x r /\ sortedk r end.

Lemma lt_all_trans a b l : a < b -> lt_all b l -> lt_all a l.
Proof. induction l; cbn; intros; [exact Logic.I|]. split; [lia|apply IHl; tauto]. Qed.

Lemma lt_all_in k l x : lt_all k l -> In x l -> k < x.
Proof. induction l; cbn; [tauto|]. intros [H1 H2] [->|H]; [exact H1|now apply IHl]. Qed.

Lemma sortedk_nodup l : sortedk l -> NoDup l.
Proof.
  induction l as [|x r IH]; cbn; [constructor|]. intros [H1 H2]. constructor; [|now apply IH].
  intro Hin. pose proof (lt_all_in _ _ _ H1 Hin). lia.
Qed.

Lemma lt_all_ins x k v m : lt_all x (keys m) -> x < k -> lt_all x (keys (ins k v m)).
Proof.
  induction m as [|[k0 v0] r IH]; cbn [ins keys map fst lt_all]; intros H Hx; [tauto|].
  destruct (k <? k0) eqn:E1; [cbn; tauto|].
  destruct (k =? k0) eqn:E2; [cbn; tauto|].
  cbn [keys map fst lt_all]. split; [tauto|]. apply IH; tauto.
Qed.

Lemma sortedk_ins k v m : sortedk (keys m) -> sortedk (keys (ins k v m)).
Proof.
  induction m as [|[k0 v0] r IH]; cbn [ins keys map fst sortedk]; intros H; [cbn; tauto|].
  destruct H as [H1 H2].
  destruct (k <? k0) eqn:E1.
  - cbn [keys map fst sortedk lt_all]. repeat split; try tauto; try lia.
    apply lt_all_trans with k0; [lia|exact H1].
  - destruct (k =? k0) eqn:E2.
    + apply N.eqb_eq in E2. subst k0. cbn [keys map fst sortedk]. tauto.
    + cbn [keys map fst sortedk]. split; [|now apply IH].
      apply lt_all_ins; [exact H1|lia].
Qed.

Lemma lt_all_del x k m : lt_all x (keys m) -> lt_all x (keys (del k m)).
Proof.
  induction m as [|[k0 v0] r IH]; cbn [del keys map fst lt_all]; intros H; [tauto|].
  destruct (k0 =? k); [apply IH; tauto|]. cbn [keys map fst lt_all]. split; [tauto|apply IH; tauto].
Qed.

Lemma sortedk_del k m : sortedk (keys m) -> sortedk (keys (del k m)).
Proof.
  induction m as [|[k0 v0] r IH]; cbn [del keys map fst sortedk]; intros H; [tauto|].
  destruct H as [H1 H2]. destruct (k0 =? k); [now apply IH|].
  cbn [keys map fst sortedk]. split; [now apply lt_all_del|now apply IH].
Qed.

Lemma Forall_ins (P : N * V -> Prop) k v m : Forall P m -> P (k, v) -> Forall P (ins k v m).
Proof.
  induction m as [|[k0 v0] r IH]; cbn [ins]; intros H Hp; [constructor; auto|].
  inversion H as [|? ? Hh Ht]; subst.
  destruct (k <? k0); [constructor; auto|].
  destruct (k =? k0); constructor; auto.
Qed.

End Maps.

Lemma find2_ins2 {V} (m : amap (amap V)) c k (v : V) c' k' :
  find2 (ins2 m c k v) c' k' = if (c =? c') && (k =? k') then Some v else find2 m c' k'.
Proof.
  unfold find2, ins2. rewrite find_ins. destruct (c =? c') eqn:E; cbn [andb]; [|reflexivity].
  apply N.eqb_eq in E. subst c'. rewrite find_ins.
  destruct (k =? k'); [reflexivity|]. destruct (find c m); reflexivity.
Qed.

(* ------------------------------------------------------------------ *)
(* T_eqb decides equality                                              *)

Lemma T_eqb_eq : forall a b, T_eqb a b = true -> a = b.
Proof.
  fix IH 1. intros [x|xs] [y|ys]; cbn; intro H; try discriminate.
  - apply Z.eqb_eq in H. now subst.
  - f_equal. revert ys H. induction xs as [|x xs IHxs]; intros [|y ys] H; try discriminate; auto.
    apply andb_true_iff in H as [H1 H2]. f_equal; [apply IH; exact H1 | apply IHxs; exact H2].
Qed.

Lemma T_eqb_refl : forall a, T_eqb a a = true.
Proof.
  fix IH 1. intros [x|xs]; cbn.
  - apply Z.eqb_refl.
  - induction xs as [|x xs IHxs]; [reflexivity|].
    apply andb_true_iff. split; [apply IH|exact IHxs].
Qed.

Lemma T_eqb_iff a b : T_eqb a b = true <-> a = b.
Proof. split; [apply T_eqb_eq|intros ->; apply T_eqb_refl]. Qed.
