(* Read-your-writes: every read method of a transaction at any nesting depth returns the
   flat view; writes update the view at exactly one key; the code-level interpreter equals
   the flat-spec interpreter on every op sequence. *)
From FC Require Import Txn.Model Txn.ProofsMap.
From Coq Require Import ZifyBool ZifyN.
Open Scope N_scope.

Lemma view_cons lv s b c k :
  view (lv :: s) b c k =
  match find2 (chg lv) c k with
  | Some (Insert v) => Some v
  | Some Remove => None
  | None => view s b c k
  end.
Proof. reflexivity. Qed.

Lemma tx_get_view s b c k : tx_get s b c k = view s b c k.
Proof.
  induction s as [|lv r IH]; [reflexivity|].
  rewrite view_cons. cbn [tx_get]. unfold get_from_changes.
  destruct (find2 (chg lv) c k) as [[v|]|]; auto.
Qed.

Lemma tx_exists_view s b c k : tx_exists s b c k = spec_exists (view s b c k).
Proof.
  induction s as [|lv r IH].
  - cbn. unfold base_exists, base_size, base_get, base_view. now destruct (find2 b c k).
  - rewrite view_cons. cbn [tx_exists]. unfold get_from_changes.
    destruct (find2 (chg lv) c k) as [[v|]|]; auto.
Qed.

Lemma tx_size_view s b c k : tx_size s b c k = spec_size (view s b c k).
Proof.
  induction s as [|lv r IH]; [reflexivity|].
  rewrite view_cons. cbn [tx_size]. unfold get_from_changes.
  destruct (find2 (chg lv) c k) as [[v|]|]; auto.
Qed.

Lemma tx_read_exact_view s b c k off buf :
  tx_read_exact s b c k off buf = spec_read_exact (view s b c k) off buf.
Proof.
  induction s as [|lv r IH]; [reflexivity|].
  rewrite view_cons. cbn [tx_read_exact]. unfold get_from_changes.
  destruct (find2 (chg lv) c k) as [[v|]|]; auto.
Qed.

Lemma tx_read_zerofill_view s b c k off buf :
  tx_read_zerofill s b c k off buf = spec_read_zerofill (view s b c k) off buf.
Proof.
  induction s as [|lv r IH]; [reflexivity|].
  rewrite view_cons. cbn [tx_read_zerofill]. unfold get_from_changes.
  destruct (find2 (chg lv) c k) as [[v|]|]; auto.
Qed.

Lemma tx_prev_view s b c k : tx_prev s b c k = view s b c k.
Proof.
  destruct s as [|lv r]; [reflexivity|].
  rewrite view_cons. cbn [tx_prev]. unfold find2.
  destruct (find c (chg lv)) as [col|]; cbn [or_default find].
  - destruct (find k col) as [[v|]|]; auto using tx_get_view.
  - apply tx_get_view.
Qed.

(* all read methods at once *)
Definition ReadYourWrites : Prop :=
  forall s b c k,
    tx_get s b c k = view s b c k /\
    tx_exists s b c k = spec_exists (view s b c k) /\
    tx_size s b c k = spec_size (view s b c k) /\
    (forall off buf, tx_read_exact s b c k off buf = spec_read_exact (view s b c k) off buf) /\
    (forall off buf, tx_read_zerofill s b c k off buf = spec_read_zerofill (view s b c k) off buf).

Lemma read_your_writes_all : ReadYourWrites.
Proof.
  intros s b c k. repeat split; intros.
  - apply tx_get_view.
  - apply tx_exists_view.
  - apply tx_size_view.
  - apply tx_read_exact_view.
  - apply tx_read_zerofill_view.
Qed.

(* ---- what the spec read functions say, in arithmetic terms ---- *)

Definition fits (v : value) : Prop := len v < usize_max.

Lemma slice_get_spec v off n : fits v ->
  slice_get v off n =
  if off + n <=? len v then Some (firstn (N.to_nat n) (skipn (N.to_nat off) v)) else None.
Proof.
  unfold fits, slice_get, sat_add. intro Hf.
  destruct (off + n <=? len v) eqn:E.
  - replace (N.min usize_max (off + n)) with (off + n) by lia.
    replace ((off <=? off + n) && (off + n <=? len v)) with true by lia. reflexivity.
  - replace ((off <=? N.min usize_max (off + n)) && (N.min usize_max (off + n) <=? len v))
      with false by lia. reflexivity.
Qed.

Definition ReadExactCases : Prop :=
  forall (ov : option value) off buf,
    match ov with
    | None => spec_read_exact ov off buf = RR 1 0 buf                      (* KeyNotFound *)
    | Some v =>
        fits v ->
        (len v < off + len buf -> spec_read_exact ov off buf = RR 2 0 buf) /\   (* OutOfBounds *)
        (off + len buf <= len v ->
         spec_read_exact ov off buf =
         RR 0 (len buf) (firstn (length buf) (skipn (N.to_nat off) v)))
    end.

Lemma read_exact_cases_all : ReadExactCases.
Proof.
  intros [v|] off buf; [|reflexivity]. intro Hf.
  unfold spec_read_exact, read_exact_of. rewrite slice_get_spec by exact Hf.
  split; intro H.
  - replace (off + len buf <=? len v) with false by lia. reflexivity.
  - replace (off + len buf <=? len v) with true by lia.
    replace (N.to_nat (len buf)) with (length buf) by (unfold len; lia). reflexivity.
Qed.

Definition ReadZerofillCases : Prop :=
  forall (ov : option value) off buf,
    match ov with
    | None => spec_read_zerofill ov off buf = RR 1 0 buf
    | Some v =>
        (len v < off -> spec_read_zerofill ov off buf = RR 2 0 buf) /\
        (off <= len v ->
         exists d, spec_read_zerofill ov off buf = RR 0 (len v) d /\
                   length d = length buf /\
                   forall i, (i < length buf)%nat ->
                             nth i d 0 = nth (N.to_nat off + i) v 0)
    end.

Lemma nth_firstn_lt {A} (l : list A) n i d : (i < n)%nat -> nth i (firstn n l) d = nth i l d.
Proof.
  revert l i. induction n; intros l i H; [lia|].
  destruct l; [destruct i; reflexivity|]. destruct i; cbn; [reflexivity|]. apply IHn. lia.
Qed.

Lemma nth_skipn {A} (l : list A) n i d : nth i (skipn n l) d = nth (n + i) l d.
Proof.
  revert l. induction n; intros l; [reflexivity|].
  destruct l; cbn; [destruct i; reflexivity|]. apply IHn.
Qed.

Lemma read_zerofill_cases_all : ReadZerofillCases.
Proof.
  intros [v|] off buf; [|reflexivity].
  unfold spec_read_zerofill, read_zerofill_of, zerofill_get. split; intro H.
  - replace (off <=? len v) with false by lia. reflexivity.
  - replace (off <=? len v) with true by lia.
    eexists. split; [reflexivity|].
    set (after := skipn (N.to_nat off) v).
    assert (Hla : length after = (length v - N.to_nat off)%nat) by apply skipn_length.
    assert (Hm : N.to_nat (N.min (len buf) (len after)) = Nat.min (length buf) (length after)).
    { unfold len. lia. }
    assert (Hr : N.to_nat (len buf - N.min (len buf) (len after))
                 = (length buf - Nat.min (length buf) (length after))%nat).
    { unfold len. lia. }
    rewrite Hm, Hr. split.
    + rewrite app_length, firstn_length, repeat_length. lia.
    + intros i Hi.
      destruct (Nat.ltb i (Nat.min (length buf) (length after))) eqn:E.
      * apply Nat.ltb_lt in E. rewrite app_nth1 by (rewrite firstn_length; lia).
        rewrite nth_firstn_lt by lia. unfold after. apply nth_skipn.
      * apply Nat.ltb_ge in E. rewrite app_nth2 by (rewrite firstn_length; lia).
        rewrite firstn_length.
        rewrite nth_repeat.
        symmetry. apply nth_overflow. lia.
Qed.

(* ---- writes: the view changes at exactly the written key ---- *)

Definition op_value (o : wop) : option value :=
  match o with Insert v => Some v | Remove => None end.

Lemma view_set lv r b c k o c' k' :
  view (lv_set lv c k o :: r) b c' k' =
  if (c =? c') && (k =? k') then op_value o else view (lv :: r) b c' k'.
Proof.
  rewrite !view_cons. cbn [lv_set chg]. rewrite find2_ins2.
  destruct ((c =? c') && (k =? k')); [destruct o; reflexivity|reflexivity].
Qed.

Lemma fold_ins_find (es : list (N * wop)) : forall m0 k,
  find k (fold_left (fun m e => ins (fst e) (snd e) m) es m0) =
  match find k (rev es) with Some o => Some o | None => find k m0 end.
Proof.
  induction es as [|[k0 o0] r IH]; intros m0 k; cbn [fold_left rev]; [reflexivity|].
  rewrite IH, find_app, find_ins. cbn [fst snd find].
  destruct (find k (rev r)); [reflexivity|]. destruct (k0 =? k); reflexivity.
Qed.

(* batch_write: the last entry of the batch for a key wins, other keys keep their view *)
Lemma view_batch lv r b c es c' k' :
  view (lv_batch lv c es :: r) b c' k' =
  match (if c =? c' then find k' (rev es) else None) with
  | Some o => op_value o
  | None => view (lv :: r) b c' k'
  end.
Proof.
  rewrite !view_cons. cbn [lv_batch chg]. unfold find2. rewrite find_ins.
  destruct (c =? c') eqn:E; [|reflexivity].
  apply N.eqb_eq in E. subst c'. rewrite fold_ins_find.
  destruct (find k' (rev es)) as [[v|]|]; try reflexivity.
  destruct (find c (chg lv)); reflexivity.
Qed.

(* replace / take return the previous view value and then behave as put / delete *)
Definition ReplaceTakeReturnView : Prop :=
  forall st lv r c k v,
    stack st = lv :: r ->
    snd (step code_reader st (OReplace c k v)) = RVal (view (stack st) (base st) c k) /\
    snd (step code_reader st (OTake c k)) = RVal (view (stack st) (base st) c k) /\
    (forall c' k', view (stack (fst (step code_reader st (OReplace c k v)))) (base st) c' k' =
                   if (c =? c') && (k =? k') then Some v else view (stack st) (base st) c' k') /\
    (forall c' k', view (stack (fst (step code_reader st (OTake c k)))) (base st) c' k' =
                   if (c =? c') && (k =? k') then None else view (stack st) (base st) c' k').
Lemma replace_take_return_view_all : ReplaceTakeReturnView.
Proof.
  intros st lv r c k v Hs. cbn [step]. rewrite Hs. cbn [snd fst set_top stack r_prev code_reader].
  rewrite tx_prev_view. repeat split; intros; apply view_set.
Qed.

Definition WritesUpdateView : Prop :=
  forall st lv r, stack st = lv :: r ->
    (forall c k v c' k',
        view (stack (fst (step code_reader st (OPut c k v)))) (base st) c' k' =
        if (c =? c') && (k =? k') then Some v else view (stack st) (base st) c' k') /\
    (forall c k v c' k',
        view (stack (fst (step code_reader st (OWrite c k v)))) (base st) c' k' =
        if (c =? c') && (k =? k') then Some v else view (stack st) (base st) c' k') /\
    (forall c k v, snd (step code_reader st (OWrite c k v)) = RLen (len v)) /\
    (forall c k c' k',
        view (stack (fst (step code_reader st (ODelete c k)))) (base st) c' k' =
        if (c =? c') && (k =? k') then None else view (stack st) (base st) c' k') /\
    (forall c es c' k',
        view (stack (fst (step code_reader st (OBatch c es)))) (base st) c' k' =
        match (if c =? c' then find k' (rev es) else None) with
        | Some o => op_value o
        | None => view (stack st) (base st) c' k'
        end).
Lemma writes_update_view_all : WritesUpdateView.
Proof.
  intros st lv r Hs. cbn [step]. rewrite Hs. cbn [snd fst set_top stack].
  repeat split; intros; try apply view_set. apply view_batch.
Qed.

(* ---- refinement: code interpreter = flat-spec interpreter, any op sequence ---- *)

Lemma step_refines st o : step code_reader st o = step spec_reader st o.
Proof.
  destruct o; cbn [step code_reader spec_reader r_exists r_size r_get r_read_exact
                     r_read_zerofill r_prev]; try reflexivity.
  - now rewrite tx_exists_view.
  - now rewrite tx_size_view.
  - now rewrite tx_get_view.
  - now rewrite tx_read_exact_view.
  - now rewrite tx_read_zerofill_view.
  - now rewrite tx_prev_view.
  - now rewrite tx_prev_view.
Qed.

Lemma run_refines ops : forall st, run code_reader st ops = run spec_reader st ops.
Proof.
  induction ops as [|o r IH]; intro st; cbn [run]; [reflexivity|].
  rewrite step_refines. destruct (step spec_reader st o) as [st1 x]. now rewrite IH.
Qed.

Lemma trace_refines ops : trace_T code_reader ops = trace_T spec_reader ops.
Proof. unfold trace_T. now rewrite run_refines. Qed.

Lemma trace_okb_sound ops observed :
  trace_okb ops observed = true <-> observed = trace_T spec_reader ops.
Proof. unfold trace_okb. apply T_eqb_iff. Qed.

Lemma model_trace_ok ops : trace_okb ops (trace_T code_reader ops) = true.
Proof. apply trace_okb_sound, trace_refines. Qed.
