(* Executable model of fuel-core-storage transactions (C10):
     crates/storage/src/transactional.rs   InMemoryTransaction: KeyValueInspect / KeyValueMutate /
                                           BatchOperations / Modifiable::commit_changes (ConflictPolicy)
     crates/storage/src/kv_store.rs        default methods of KeyValueInspect (used by InMemoryStorage)
     crates/storage/src/structured_storage.rs  test::InMemoryStorage, Modifiable for it
   Maps are association lists kept sorted by key (BTreeMap order); HashMap iteration order of
   the change set handed to commit_changes is an explicit argument ([order]).
   No proofs in this file. *)
From FC Require Export Common.T.
Open Scope N_scope.

(* ------------------------------------------------------------------ *)
(* finite maps with N keys: sorted association lists                    *)

Definition amap (V : Type) := list (N * V).

Fixpoint find {V} (k : N) (m : amap V) : option V :=
  match m with
  | [] => None
  | (k', v) :: r => if k' =? k then Some v else find k r
  end.

(* BTreeMap::insert / entry().insert : sorted position, replaces an equal key *)
Fixpoint ins {V} (k : N) (v : V) (m : amap V) : amap V :=
  match m with
  | [] => [(k, v)]
  | (k', v') :: r =>
      if k <? k' then (k, v) :: (k', v') :: r
      else if k =? k' then (k, v) :: r
      else (k', v') :: ins k v r
  end.

Fixpoint del {V} (k : N) (m : amap V) : amap V :=
  match m with
  | [] => []
  | (k', v') :: r => if k' =? k then del k r else (k', v') :: del k r
  end.

Definition keys {V} (m : amap V) : list N := map fst m.

(* entry(c).or_default() *)
Definition or_default {V} (o : option (amap V)) : amap V :=
  match o with Some m => m | None => [] end.

Definition find2 {V} (m : amap (amap V)) (c k : N) : option V :=
  match find c m with Some col => find k col | None => None end.

Definition ins2 {V} (m : amap (amap V)) (c k : N) (v : V) : amap (amap V) :=
  ins c (ins k v (or_default (find c m))) m.

(* ------------------------------------------------------------------ *)
(* data                                                                 *)

Definition value := list N.                       (* bytes *)
Definition len (v : value) : N := N.of_nat (length v).
Definition usize_max : N := u64max.

Inductive wop := Insert (v : value) | Remove.      (* WriteOperation *)
Inductive policy := Fail | Overwrite.              (* ConflictPolicy *)

Definition changes := amap (amap wop).             (* Changes: column -> key -> op *)
Definition bmap := amap (amap value).              (* InMemoryStorage: column -> key -> value *)

Record level := { pol : policy; chg : changes }.   (* InMemoryTransaction minus its storage *)

(* stack: innermost transaction first; its storage is the rest of the stack over the base *)
Record state := { stack : list level; base : bmap; pending : list changes }.

(* ------------------------------------------------------------------ *)
(* kv_store.rs : default methods (this is what InMemoryStorage runs)    *)

Definition is_some {A} (o : option A) : bool := match o with Some _ => true | None => false end.

Definition base_get (b : bmap) (c k : N) : option value := find2 b c k.
Definition base_size (b : bmap) (c k : N) : option N := option_map len (base_get b c k).
Definition base_exists (b : bmap) (c k : N) : bool := is_some (base_size b c k).

(* value.get(offset..offset.saturating_add(buf_len)) *)
Definition slice_get (v : value) (off n : N) : option value :=
  let e := sat_add usize_max off n in
  if (off <=? e) && (e <=? len v)
  then Some (firstn (N.to_nat n) (skipn (N.to_nat off) v))
  else None.

(* split_at_checked(offset) + copy + zero fill; returns (bytes_len, buffer) *)
Definition zerofill_get (v : value) (off n : N) : option (N * value) :=
  if off <=? len v then
    let after := skipn (N.to_nat off) v in
    let m := N.min n (len after) in
    Some (len v, firstn (N.to_nat m) after ++ repeat 0 (N.to_nat (n - m)))
  else None.

(* result of read_exact / read_zerofill: tag 0 = Ok(n), 1 = KeyNotFound, 2 = OutOfBounds,
   together with the caller's buffer afterwards *)
Inductive rres := RR (tag n : N) (buf : value).

Definition read_exact_of (ov : option value) (off : N) (buf : value) : rres :=
  match ov with
  | None => RR 1 0 buf
  | Some v =>
      match slice_get v off (len buf) with
      | None => RR 2 0 buf
      | Some d => RR 0 (len buf) d
      end
  end.

Definition read_zerofill_of (ov : option value) (off : N) (buf : value) : rres :=
  match ov with
  | None => RR 1 0 buf
  | Some v =>
      match zerofill_get v off (len buf) with
      | None => RR 2 0 buf
      | Some (n, d) => RR 0 n d
      end
  end.

Definition base_read_exact (b : bmap) (c k off : N) (buf : value) : rres :=
  read_exact_of (base_get b c k) off buf.
Definition base_read_zerofill (b : bmap) (c k off : N) (buf : value) : rres :=
  read_zerofill_of (base_get b c k) off buf.

(* ------------------------------------------------------------------ *)
(* transactional.rs : KeyValueInspect for InMemoryTransaction, method by method;
   [self.storage.m(..)] is the recursive call on the rest of the stack *)

Definition get_from_changes (lv : level) (c k : N) : option wop := find2 (chg lv) c k.

Fixpoint tx_exists (s : list level) (b : bmap) (c k : N) : bool :=
  match s with
  | [] => base_exists b c k
  | lv :: r =>
      match get_from_changes lv c k with
      | Some (Insert _) => true
      | Some Remove => false
      | None => tx_exists r b c k
      end
  end.

Fixpoint tx_size (s : list level) (b : bmap) (c k : N) : option N :=
  match s with
  | [] => base_size b c k
  | lv :: r =>
      match get_from_changes lv c k with
      | Some (Insert v) => Some (len v)
      | Some Remove => None
      | None => tx_size r b c k
      end
  end.

Fixpoint tx_get (s : list level) (b : bmap) (c k : N) : option value :=
  match s with
  | [] => base_get b c k
  | lv :: r =>
      match get_from_changes lv c k with
      | Some (Insert v) => Some v
      | Some Remove => None
      | None => tx_get r b c k
      end
  end.

Fixpoint tx_read_exact (s : list level) (b : bmap) (c k off : N) (buf : value) : rres :=
  match s with
  | [] => base_read_exact b c k off buf
  | lv :: r =>
      match get_from_changes lv c k with
      | Some (Insert v) =>
          match slice_get v off (len buf) with
          | None => RR 2 0 buf
          | Some d => RR 0 (len buf) d
          end
      | Some Remove => RR 1 0 buf
      | None => tx_read_exact r b c k off buf
      end
  end.

Fixpoint tx_read_zerofill (s : list level) (b : bmap) (c k off : N) (buf : value) : rres :=
  match s with
  | [] => base_read_zerofill b c k off buf
  | lv :: r =>
      match get_from_changes lv c k with
      | Some (Insert v) =>
          match zerofill_get v off (len buf) with
          | None => RR 2 0 buf
          | Some (n, d) => RR 0 n d
          end
      | Some Remove => RR 1 0 buf
      | None => tx_read_zerofill r b c k off buf
      end
  end.

(* replace / take: the entry API on the own change set, else storage.get *)
Definition tx_prev (s : list level) (b : bmap) (c k : N) : option value :=
  match s with
  | [] => base_get b c k
  | lv :: r =>
      match find k (or_default (find c (chg lv))) with
      | Some (Insert v) => Some v
      | Some Remove => None
      | None => tx_get r b c k
      end
  end.

(* KeyValueMutate: every mutator ends in   changes.entry(col).or_default().insert(k, op) *)
Definition lv_set (lv : level) (c k : N) (o : wop) : level :=
  {| pol := pol lv; chg := ins2 (chg lv) c k o |}.

(* BatchOperations::batch_write *)
Definition lv_batch (lv : level) (c : N) (es : list (N * wop)) : level :=
  {| pol := pol lv;
     chg := ins c (fold_left (fun m e => ins (fst e) (snd e) m) es (or_default (find c (chg lv))))
                (chg lv) |}.

(* ------------------------------------------------------------------ *)
(* Modifiable::commit_changes                                           *)

(* inner loop over one column of the incoming change set; the boolean is "no conflict";
   the map is returned as it stands at the point of return (in-place mutation) *)
Fixpoint merge_col (p : policy) (bt : amap wop) (vals : amap wop) : amap wop * bool :=
  match vals with
  | [] => (bt, true)
  | (k, v) :: r =>
      match p with
      | Fail =>
          match find k bt with
          | Some _ => (bt, false)
          | None => merge_col p (ins k v bt) r
          end
      | Overwrite => merge_col p (ins k v bt) r
      end
  end.

(* outer loop: [incoming] in the iteration order of the HashMap *)
Fixpoint commit_changes (p : policy) (mine : changes) (incoming : list (N * amap wop))
  : changes * bool :=
  match incoming with
  | [] => (mine, true)
  | (c, value) :: r =>
      match find c mine with
      | None => commit_changes p (ins c value mine) r          (* Entry::Vacant: move the column *)
      | Some bt =>
          let '(bt', ok) := merge_col p bt value in
          let mine' := ins c bt' mine in
          if ok then commit_changes p mine' r else (mine', false)
      end
  end.

(* Modifiable for InMemoryStorage *)
Definition apply_col (col : amap value) (vals : amap wop) : amap value :=
  fold_left (fun m e => match snd e with
                        | Insert v => ins (fst e) v m
                        | Remove => del (fst e) m
                        end) vals col.
Definition base_commit (b : bmap) (incoming : list (N * amap wop)) : bmap :=
  fold_left (fun m e => ins (fst e) (apply_col (or_default (find (fst e) m)) (snd e)) m) incoming b.

(* the incoming change set in HashMap iteration order: [order] is used when it names
   exactly the columns of [ch] once each, otherwise the sorted order *)
Fixpoint memb (x : N) (l : list N) : bool :=
  match l with [] => false | y :: r => (y =? x) || memb x r end.
Fixpoint nodupb (l : list N) : bool :=
  match l with [] => true | x :: r => negb (memb x r) && nodupb r end.
Definition order_okb (order : list N) (ch : changes) : bool :=
  nodupb order && forallb (fun c => memb c order) (keys ch) &&
  forallb (fun c => memb c (keys ch)) order.
Definition reorder (order : list N) (ch : changes) : list (N * amap wop) :=
  if order_okb order ch
  then map (fun c => (c, or_default (find c ch))) order
  else ch.
Definition used_order (order : list N) (ch : changes) : list N := keys (reorder order ch).

(* ------------------------------------------------------------------ *)
(* the flat specification: view tx = overlay changes (view parent)      *)

Definition fview := N -> N -> option value.
Definition base_view (b : bmap) : fview := fun c k => find2 b c k.
Definition overlay (ch : changes) (pv : fview) : fview :=
  fun c k => match find2 ch c k with
             | Some (Insert v) => Some v
             | Some Remove => None
             | None => pv c k
             end.
Definition view (s : list level) (b : bmap) : fview :=
  fold_right (fun lv pv => overlay (chg lv) pv) (base_view b) s.

(* what each read must return, as a function of the flat view at that key *)
Definition spec_exists (ov : option value) : bool := is_some ov.
Definition spec_size (ov : option value) : option N := option_map len ov.
Definition spec_read_exact := read_exact_of.
Definition spec_read_zerofill := read_zerofill_of.

(* ------------------------------------------------------------------ *)
(* operations and results                                               *)

Inductive op :=
| OBegin (p : policy)
| OCommit (order : list N)
| ODrop
| ODetach
| OMerge (order : list N)
| OExists (c k : N)
| OSize (c k : N)
| OGet (c k : N)
| OReadExact (c k off n : N)
| OReadZerofill (c k off n : N)
| OPut (c k : N) (v : value)
| OReplace (c k : N) (v : value)
| OWrite (c k : N) (v : value)
| OTake (c k : N)
| ODelete (c k : N)
| OBatch (c : N) (es : list (N * wop))
| ODump.

Inductive res :=
| RNa
| RUnit
| RBool (x : bool)
| RSize (o : option N)
| RVal (o : option value)
| RRead (r : rres)
| RLen (n : N)
| RCommit (ok : bool) (order : list N)
| RDump (d : changes)
| RDumpBase (d : bmap).

(* the five read methods and the "previous value" of replace/take *)
Record reader := {
  r_exists : list level -> bmap -> N -> N -> bool;
  r_size : list level -> bmap -> N -> N -> option N;
  r_get : list level -> bmap -> N -> N -> option value;
  r_read_exact : list level -> bmap -> N -> N -> N -> value -> rres;
  r_read_zerofill : list level -> bmap -> N -> N -> N -> value -> rres;
  r_prev : list level -> bmap -> N -> N -> option value }.

(* the code *)
Definition code_reader : reader :=
  {| r_exists := tx_exists; r_size := tx_size; r_get := tx_get;
     r_read_exact := tx_read_exact; r_read_zerofill := tx_read_zerofill; r_prev := tx_prev |}.

(* the flat spec *)
Definition spec_reader : reader :=
  {| r_exists := fun s b c k => spec_exists (view s b c k);
     r_size := fun s b c k => spec_size (view s b c k);
     r_get := fun s b c k => view s b c k;
     r_read_exact := fun s b c k off buf => spec_read_exact (view s b c k) off buf;
     r_read_zerofill := fun s b c k off buf => spec_read_zerofill (view s b c k) off buf;
     r_prev := fun s b c k => view s b c k |}.

Definition max_depth : nat := 4.                    (* nesting limit of the harness *)
Definition sentinel : N := 170.
Definition fresh_buf (n : N) : value := repeat sentinel (N.to_nat n).

Definition set_top (st : state) (lv : level) (r : list level) : state :=
  {| stack := lv :: r; base := base st; pending := pending st |}.

(* commit [ch] (iteration order [order]) into the top of [s] / into the base *)
Definition commit_into (s : list level) (b : bmap) (order : list N) (ch : changes)
  : list level * bmap * bool :=
  match s with
  | [] => ([], base_commit b (reorder order ch), true)
  | parent :: r =>
      let '(m', ok) := commit_changes (pol parent) (chg parent) (reorder order ch) in
      ({| pol := pol parent; chg := m' |} :: r, b, ok)
  end.

Definition step (R : reader) (st : state) (o : op) : state * res :=
  let s := stack st in
  let b := base st in
  match o with
  | OBegin p =>
      if Nat.ltb (length s) max_depth
      then ({| stack := {| pol := p; chg := [] |} :: s; base := b; pending := pending st |}, RUnit)
      else (st, RNa)
  | OCommit order =>
      match s with
      | [] => (st, RNa)
      | child :: r =>
          let '(s', b', ok) := commit_into r b order (chg child) in
          ({| stack := s'; base := b'; pending := pending st |},
           RCommit ok (used_order order (chg child)))
      end
  | ODrop =>
      match s with
      | [] => (st, RNa)
      | _ :: r => ({| stack := r; base := b; pending := pending st |}, RUnit)
      end
  | ODetach =>
      match s with
      | [] => (st, RNa)
      | child :: r =>
          ({| stack := r; base := b; pending := pending st ++ [chg child] |}, RUnit)
      end
  | OMerge order =>
      match pending st with
      | [] => (st, RNa)
      | ch :: rest =>
          let '(s', b', ok) := commit_into s b order ch in
          ({| stack := s'; base := b'; pending := rest |}, RCommit ok (used_order order ch))
      end
  | OExists c k => (st, RBool (r_exists R s b c k))
  | OSize c k => (st, RSize (r_size R s b c k))
  | OGet c k => (st, RVal (r_get R s b c k))
  | OReadExact c k off n => (st, RRead (r_read_exact R s b c k off (fresh_buf n)))
  | OReadZerofill c k off n => (st, RRead (r_read_zerofill R s b c k off (fresh_buf n)))
  | OPut c k v =>
      match s with
      | [] => (st, RNa)
      | lv :: r => (set_top st (lv_set lv c k (Insert v)) r, RUnit)
      end
  | OReplace c k v =>
      match s with
      | [] => (st, RNa)
      | lv :: r => (set_top st (lv_set lv c k (Insert v)) r, RVal (r_prev R s b c k))
      end
  | OWrite c k v =>
      match s with
      | [] => (st, RNa)
      | lv :: r => (set_top st (lv_set lv c k (Insert v)) r, RLen (len v))
      end
  | OTake c k =>
      match s with
      | [] => (st, RNa)
      | lv :: r => (set_top st (lv_set lv c k Remove) r, RVal (r_prev R s b c k))
      end
  | ODelete c k =>
      match s with
      | [] => (st, RNa)
      | lv :: r => (set_top st (lv_set lv c k Remove) r, RUnit)
      end
  | OBatch c es =>
      match s with
      | [] => (st, RNa)
      | lv :: r => (set_top st (lv_batch lv c es) r, RUnit)
      end
  | ODump =>
      match s with
      | [] => (st, RDumpBase b)
      | lv :: _ => (st, RDump (chg lv))
      end
  end.

Fixpoint run (R : reader) (st : state) (ops : list op) : state * list res :=
  match ops with
  | [] => (st, [])
  | o :: r =>
      let '(st1, x) := step R st o in
      let '(st2, xs) := run R st1 r in
      (st2, x :: xs)
  end.

Definition init_state : state := {| stack := []; base := []; pending := [] |}.

(* ------------------------------------------------------------------ *)
(* T codecs                                                             *)

Definition value_T (v : value) : T := tListN v.
Definition optval_T (o : option value) : T :=
  match o with None => L [] | Some v => L [value_T v] end.
Definition wop_T (k : N) (o : wop) : T :=
  match o with Remove => L [tN k; I 0] | Insert v => L [tN k; I 1; value_T v] end.
Definition changes_T (d : changes) : T :=
  L (map (fun ce => L [tN (fst ce); L (map (fun e => wop_T (fst e) (snd e)) (snd ce))]) d).
Definition base_T (d : bmap) : T :=
  L (flat_map (fun ce => map (fun e => L [tN (fst ce); tN (fst e); value_T (snd e)]) (snd ce)) d).

Definition res_T (r : res) : T :=
  match r with
  | RNa => L [I (-1)]
  | RUnit => L [I 0]
  | RBool x => L [I 0; tB x]
  | RSize o => L [I 0; tOptN o]
  | RVal o => L [I 0; optval_T o]
  | RRead (RR tag n buf) => L [tN tag; tN n; value_T buf]
  | RLen n => L [I 0; tN n]
  | RCommit ok order => L [I (if ok then 0 else 1); tListN order]
  | RDump d => L [I 0; changes_T d]
  | RDumpBase d => L [I 0; base_T d]
  end.

Definition T_policy (t : T) : option policy :=
  match t with I 0%Z => Some Fail | I 1%Z => Some Overwrite | _ => None end.

Definition T_entry (t : T) : option (N * wop) :=
  match t with
  | L [k; I 0%Z] => option_map (fun k => (k, Remove)) (getN k)
  | L [k; I 1%Z; v] =>
      match getN k, getListN v with
      | Some k, Some v => Some (k, Insert v)
      | _, _ => None
      end
  | _ => None
  end.

(* the iteration order reported by the implementation for a commit / merge *)
Definition T_order (observed : T) : list N :=
  match observed with
  | L [_; o] => match getListN o with Some l => l | None => [] end
  | _ => []
  end.

(* ops carry a [via] flag (0 = KeyValue* methods, 1 = StructuredStorage table API), ignored here:
   for a Plain blueprint every table method is the KeyValue method of the same name *)
Definition T_op (t observed : T) : option op :=
  match t with
  | L [I 0%Z; p] => option_map OBegin (T_policy p)
  | L [I 1%Z] => Some (OCommit (T_order observed))
  | L [I 2%Z] => Some ODrop
  | L [I 3%Z] => Some ODetach
  | L [I 4%Z] => Some (OMerge (T_order observed))
  | L [I 10%Z; _; c; k] =>
      match getN c, getN k with Some c, Some k => Some (OExists c k) | _, _ => None end
  | L [I 11%Z; _; c; k] =>
      match getN c, getN k with Some c, Some k => Some (OSize c k) | _, _ => None end
  | L [I 12%Z; _; c; k] =>
      match getN c, getN k with Some c, Some k => Some (OGet c k) | _, _ => None end
  | L [I 13%Z; _; c; k; off; n] =>
      match getN c, getN k, getN off, getN n with
      | Some c, Some k, Some off, Some n => Some (OReadExact c k off n)
      | _, _, _, _ => None
      end
  | L [I 14%Z; _; c; k; off; n] =>
      match getN c, getN k, getN off, getN n with
      | Some c, Some k, Some off, Some n => Some (OReadZerofill c k off n)
      | _, _, _, _ => None
      end
  | L [I 20%Z; _; c; k; v] =>
      match getN c, getN k, getListN v with
      | Some c, Some k, Some v => Some (OPut c k v) | _, _, _ => None end
  | L [I 21%Z; _; c; k; v] =>
      match getN c, getN k, getListN v with
      | Some c, Some k, Some v => Some (OReplace c k v) | _, _, _ => None end
  | L [I 22%Z; _; c; k; v] =>
      match getN c, getN k, getListN v with
      | Some c, Some k, Some v => Some (OWrite c k v) | _, _, _ => None end
  | L [I 23%Z; _; c; k] =>
      match getN c, getN k with Some c, Some k => Some (OTake c k) | _, _ => None end
  | L [I 24%Z; _; c; k] =>
      match getN c, getN k with Some c, Some k => Some (ODelete c k) | _, _ => None end
  | L [I 25%Z; _; c; L es] =>
      match getN c, mapM T_entry es with
      | Some c, Some es => Some (OBatch c es) | _, _ => None end
  | L [I 30%Z] => Some ODump
  | _ => None
  end.

Fixpoint T_ops (ts obs : list T) : option (list op) :=
  match ts with
  | [] => Some []
  | t :: r =>
      let (o1, orest) := match obs with [] => (L [], []) | x :: xs => (x, xs) end in
      match T_op t o1, T_ops r orest with
      | Some o, Some os => Some (o :: os)
      | _, _ => None
      end
  end.

(* observation of a whole case: result of every op, then the final base contents
   (open transactions are dropped at the end, which leaves the base alone) *)
Definition trace_T (R : reader) (ops : list op) : T :=
  let '(st, rs) := run R init_state ops in
  L (map res_T rs ++ [base_T (base st)]).

(* Pcheck of C10: the implementation's trace is the trace of the flat specification *)
Definition trace_okb (ops : list op) (observed : T) : bool :=
  T_eqb observed (trace_T spec_reader ops).

Definition main10 (input observed : T) : T :=
  match input with
  | L ts =>
      let obs := match observed with L l => l | I _ => [] end in
      match T_ops ts obs with
      | Some ops => L [trace_T code_reader ops; tB (trace_okb ops observed)]
      | None => tErr 2
      end
  | _ => tErr 1
  end.

Definition main_T (req : T) : T :=
  match req with
  | L [I 10%Z; input; observed] => main10 input observed
  | _ => tErr 0
  end.
