From FC Require Import Txn.Model.
Require Extraction.
Require Import ExtrOcamlBasic.
Extraction "txn_model.ml" main_T.
