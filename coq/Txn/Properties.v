(* Property theorems of the Txn cluster (C10). Nothing but statements, [exact], and
   Print Assumptions. *)
From FC Require Import Txn.Model Txn.ProofsMap Txn.ProofsRead Txn.ProofsCommit Txn.ProofsState.
Open Scope N_scope.

(* Read-your-writes at any nesting depth: every read method of the code (own override per
   method in a transaction, default methods on the base) returns what the flat view
   [view s b = overlay changes (view parent)] prescribes, for every stack [s]. *)
Theorem read_your_writes : forall s b c k,
  tx_get s b c k = view s b c k /\
  tx_exists s b c k = spec_exists (view s b c k) /\
  tx_size s b c k = spec_size (view s b c k) /\
  (forall off buf, tx_read_exact s b c k off buf = spec_read_exact (view s b c k) off buf) /\
  (forall off buf, tx_read_zerofill s b c k off buf = spec_read_zerofill (view s b c k) off buf).
Proof. exact read_your_writes_all. Qed.
Print Assumptions read_your_writes.

(* the exact cases of read_exact: KeyNotFound iff the view has no value; OutOfBounds iff
   offset + buffer length exceeds the value; otherwise the slice at the offset *)
Theorem read_exact_cases : forall (ov : option value) off buf,
  match ov with
  | None => spec_read_exact ov off buf = RR 1 0 buf
  | Some v =>
      fits v ->
      (len v < off + len buf -> spec_read_exact ov off buf = RR 2 0 buf) /\
      (off + len buf <= len v ->
       spec_read_exact ov off buf =
       RR 0 (len buf) (firstn (length buf) (skipn (N.to_nat off) v)))
  end.
Proof. exact read_exact_cases_all. Qed.
Print Assumptions read_exact_cases.

(* read_zerofill: KeyNotFound / OutOfBounds iff offset beyond the value / otherwise the full
   value length is returned and the buffer holds the bytes from the offset, zero filled *)
Theorem read_zerofill_cases : forall (ov : option value) off buf,
  match ov with
  | None => spec_read_zerofill ov off buf = RR 1 0 buf
  | Some v =>
      (len v < off -> spec_read_zerofill ov off buf = RR 2 0 buf) /\
      (off <= len v ->
       exists d, spec_read_zerofill ov off buf = RR 0 (len v) d /\
                 length d = length buf /\
                 forall i, (i < length buf)%nat -> nth i d 0 = nth (N.to_nat off + i) v 0)
  end.
Proof. exact read_zerofill_cases_all. Qed.
Print Assumptions read_zerofill_cases.

(* replace / take return the previous view value, then act as put / delete on the view *)
Theorem replace_take_return_view : forall st lv r c k v,
  stack st = lv :: r ->
  snd (step code_reader st (OReplace c k v)) = RVal (view (stack st) (base st) c k) /\
  snd (step code_reader st (OTake c k)) = RVal (view (stack st) (base st) c k) /\
  (forall c' k', view (stack (fst (step code_reader st (OReplace c k v)))) (base st) c' k' =
                 if (c =? c') && (k =? k') then Some v else view (stack st) (base st) c' k') /\
  (forall c' k', view (stack (fst (step code_reader st (OTake c k)))) (base st) c' k' =
                 if (c =? c') && (k =? k') then None else view (stack st) (base st) c' k').
Proof. exact replace_take_return_view_all. Qed.
Print Assumptions replace_take_return_view.

(* put / write / delete / batch_write change the view at exactly the written keys *)
Theorem writes_update_view : forall st lv r, stack st = lv :: r ->
  (forall c k v c' k',
      view (stack (fst (step code_reader st (OPut c k v)))) (base st) c' k' =
      if (c =? c') && (k =? k') then Some v else view (stack st) (base st) c' k') /\
  (forall c k v c' k',
      view (stack (fst (step code_reader st (OWrite c k v)))) (base st) c' k' =
      if (c =? c') && (k =? k') then Some v else view (stack st) (base st) c' k') /\
  (forall c k v, snd (step code_reader st (OWrite c k v)) = RLen (len v)) /\
  (forall c k c' k',
      view (stack (fst (step code_reader st (ODelete c k)))) (base st) c' k' =
      if (c =? c') && (k =? k') then None else view (stack st) (base st) c' k') /\
  (forall c es c' k',
      view (stack (fst (step code_reader st (OBatch c es)))) (base st) c' k' =
      match (if c =? c' then find k' (rev es) else None) with
      | Some o => op_value o
      | None => view (stack st) (base st) c' k'
      end).
Proof. exact writes_update_view_all. Qed.
Print Assumptions writes_update_view.

(* commit: an accepted commit of change set [ch] into the receiver stack [s] (a transaction
   or the base) makes the receiver's view equal to the committed transaction's view
   [overlay ch (view s b)]; lower levels, the base under a transaction receiver and the
   receiver's policy are untouched; Overwrite receivers and the base always accept.
   [order] is any claimed HashMap iteration order. *)
Theorem commit_applies_net : forall s b order (ch : changes), wf_ch ch ->
  let '(s', b', ok) := commit_into s b order ch in
  (ok = true -> forall c k, view s' b' c k = overlay ch (view s b) c k) /\
  match s with
  | [] => ok = true /\ s' = []
  | parent :: r =>
      b' = b /\ (pol parent = Overwrite -> ok = true) /\
      exists m', s' = {| pol := pol parent; chg := m' |} :: r
  end.
Proof. exact commit_applies_net_all. Qed.
Print Assumptions commit_applies_net.

(* a commit into a Fail transaction is rejected iff both sides wrote a common (column, key) *)
Theorem merge_fail_iff_common_key : forall parent r b order (ch : changes),
  wf_ch ch -> pol parent = Fail ->
  (snd (commit_into (parent :: r) b order ch) = false <-> common_key (chg parent) ch).
Proof. exact merge_fail_iff_all. Qed.
Print Assumptions merge_fail_iff_common_key.

(* two siblings merged into a fresh Fail parent: first accepted, second rejected iff they
   wrote a common (column, key) *)
Theorem siblings_fail_iff_common_key : forall r b o1 o2 (c1 c2 : changes), wf_ch c1 -> wf_ch c2 ->
  let '(s1, b1, ok1) := commit_into ({| pol := Fail; chg := [] |} :: r) b o1 c1 in
  ok1 = true /\
  (snd (commit_into s1 b1 o2 c2) = false <-> common_key c1 c2).
Proof. exact siblings_fail_iff_all. Qed.
Print Assumptions siblings_fail_iff_common_key.

(* the failure of Fail is not atomic, but bounded: the receiver keeps every entry it had,
   and anything new is an entry of the rejected change set *)
Theorem fail_leak_bounded : forall parent r b order (ch : changes), wf_ch ch -> pol parent = Fail ->
  exists m', fst (fst (commit_into (parent :: r) b order ch)) = {| pol := Fail; chg := m' |} :: r /\
  forall c k, find2 m' c k = find2 (chg parent) c k \/
              (find2 (chg parent) c k = None /\ find2 m' c k = find2 ch c k).
Proof. exact fail_leak_bounded_all. Qed.
Print Assumptions fail_leak_bounded.

(* whatever happens above level n (nested begins, commits, drops, merges to any depth), the
   lowest n levels and the base are untouched *)
Theorem lower_levels_untouched : forall R ops st n,
  (n <= length (stack st))%nat -> keeps R n st ops ->
  let st' := fst (run R st ops) in
  lower n st' = lower n st /\ base st' = base st.
Proof. exact lower_levels_untouched_all. Qed.
Print Assumptions lower_levels_untouched.

(* dropping a transaction changes nothing *)
Theorem drop_noop : forall R st p ops,
  let st1 := fst (step R st (OBegin p)) in
  keeps R (length (stack st)) st1 (ops ++ [ODrop]) ->
  let st' := fst (run R st1 (ops ++ [ODrop])) in
  length (stack st') = length (stack st) ->
  stack st' = stack st /\ base st' = base st.
Proof. exact drop_noop_all. Qed.
Print Assumptions drop_noop.

(* every state reachable by any op sequence (any reader, any claimed orders) is well formed,
   so the [wf_ch] hypotheses above hold at every commit of every run *)
Theorem reachable_wf : forall R ops, wf_state (fst (run R init_state ops)).
Proof. exact reachable_wf_all. Qed.
Print Assumptions reachable_wf.

(* nesting to any depth, all op sequences: the interpreter built from the code's methods
   and the interpreter built from the flat view produce the same states and results *)
Theorem nested_depth_any : forall ops st, run code_reader st ops = run spec_reader st ops.
Proof. exact run_refines. Qed.
Print Assumptions nested_depth_any.

(* Pcheck: the checker evaluated on the implementation's trace holds iff that trace is the
   trace of the flat specification; the model's own trace passes it *)
Theorem trace_checker_sound : forall ops observed,
  trace_okb ops observed = true <-> observed = trace_T spec_reader ops.
Proof. exact trace_okb_sound. Qed.
Print Assumptions trace_checker_sound.

Theorem model_trace_accepted : forall ops, trace_okb ops (trace_T code_reader ops) = true.
Proof. exact model_trace_ok. Qed.
Print Assumptions model_trace_accepted.
