(* State-level results: commits into the base, HashMap order, well-formedness of every
   reachable state, commit = "parent's view becomes the child's view", sibling merges,
   dropping a transaction, levels below the active one are never touched. *)
From FC Require Import Txn.Model Txn.ProofsMap Txn.ProofsRead Txn.ProofsCommit.
From Coq Require Import ZifyBool ZifyN.
Open Scope N_scope.

(* ---- commits into InMemoryStorage ---- *)

Lemma apply_col_cons col k0 o0 r :
  apply_col col ((k0, o0) :: r) =
  apply_col (match o0 with Insert v => ins k0 v col | Remove => del k0 col end) r.
Proof. reflexivity. Qed.

Lemma apply_col_find vals : forall col k, NoDup (keys vals) ->
  find k (apply_col col vals) =
  match find k vals with
  | Some (Insert v) => Some v
  | Some Remove => None
  | None => find k col
  end.
Proof.
  induction vals as [|[k0 o0] r IH]; intros col k Hnd; [reflexivity|].
  cbn in Hnd. inversion Hnd as [|? ? Hni Hnd']; subst.
  rewrite apply_col_cons, (IH _ _ Hnd'). cbn [find].
  destruct (k0 =? k) eqn:E.
  - apply N.eqb_eq in E. subst k. rewrite (find_notin _ _ Hni).
    destruct o0; [rewrite find_ins|rewrite find_del]; now rewrite N.eqb_refl.
  - destruct (find k r) as [[v|]|]; try reflexivity.
    destruct o0; [rewrite find_ins|rewrite find_del]; now rewrite E.
Qed.

Lemma base_commit_cons b c0 val r :
  base_commit b ((c0, val) :: r) =
  base_commit (ins c0 (apply_col (or_default (find c0 b)) val) b) r.
Proof. reflexivity. Qed.

Lemma base_commit_find inc : forall b c k, wf_inc inc ->
  find2 (base_commit b inc) c k =
  match find2 inc c k with
  | Some (Insert v) => Some v
  | Some Remove => None
  | None => find2 b c k
  end.
Proof.
  induction inc as [|[c0 val] r IH]; intros b c k Hwf; [reflexivity|].
  apply wf_inc_cons in Hwf as [Hni [Hnd Hwf]].
  rewrite base_commit_cons, (IH _ _ _ Hwf), find2_cons, find2_ins.
  destruct (c0 =? c) eqn:E; [|reflexivity].
  apply N.eqb_eq in E. subst c. rewrite (find2_notin _ _ _ Hni).
  rewrite (apply_col_find _ _ _ Hnd).
  destruct (find k val) as [[v|]|]; try reflexivity.
  unfold find2. now destruct (find c0 b).
Qed.

(* ---- the iteration order of the incoming HashMap ---- *)

Lemma memb_In x l : memb x l = true <-> In x l.
Proof.
  induction l as [|y r IH]; cbn; [split; [discriminate|tauto]|].
  rewrite orb_true_iff, IH. split; intros [H|H]; auto; left; lia.
Qed.

Lemma nodupb_NoDup l : nodupb l = true -> NoDup l.
Proof.
  induction l as [|x r IH]; cbn; [constructor|].
  rewrite andb_true_iff, negb_true_iff. intros [H1 H2]. constructor; [|auto].
  intro Hin. apply memb_In in Hin. congruence.
Qed.

Lemma find_map_order {V} (f : N -> V) order c :
  find c (map (fun c => (c, f c)) order) = if memb c order then Some (f c) else None.
Proof.
  induction order as [|x r IH]; cbn [map find memb]; [reflexivity|].
  destruct (x =? c) eqn:E; cbn [orb]; [|exact IH].
  apply N.eqb_eq in E. now subst.
Qed.

Lemma keys_map_order {V} (f : N -> V) order : keys (map (fun c => (c, f c)) order) = order.
Proof. unfold keys. rewrite map_map. cbn. apply map_id. Qed.

Lemma reorder_find2 order (ch : changes) c k : find2 (reorder order ch) c k = find2 ch c k.
Proof.
  unfold reorder. destruct (order_okb order ch) eqn:Eok; [|reflexivity].
  unfold find2 at 1. rewrite find_map_order.
  destruct (memb c order) eqn:Em.
  - unfold find2. now destruct (find c ch).
  - unfold order_okb in Eok. rewrite !andb_true_iff in Eok. destruct Eok as [[_ Hall] _].
    rewrite forallb_forall in Hall.
    unfold find2. destruct (find c ch) eqn:Ef; [|reflexivity].
    assert (Hin : In c (keys ch)) by (apply find_in_keys; congruence).
    apply Hall in Hin. congruence.
Qed.

(* ---- well-formedness: BTreeMap / sorted order everywhere ---- *)

Definition inner_sorted {V} (l : list (N * amap V)) : Prop :=
  Forall (fun ce => sortedk (keys (snd ce))) l.
Definition wf_ch {V} (ch : amap (amap V)) : Prop := sortedk (keys ch) /\ inner_sorted ch.

Lemma inner_sorted_inc {V} (l : list (N * amap V)) :
  NoDup (keys l) -> inner_sorted l -> wf_inc l.
Proof.
  intros H1 H2. split; [exact H1|]. unfold inner_sorted in H2.
  rewrite Forall_forall in *. intros x Hx. apply sortedk_nodup. now apply H2.
Qed.

Lemma wf_ch_inc {V} (ch : amap (amap V)) : wf_ch ch -> wf_inc ch.
Proof. intros [H1 H2]. apply inner_sorted_inc; [now apply sortedk_nodup|exact H2]. Qed.

Lemma wf_ch_find {V} (ch : amap (amap V)) c col :
  inner_sorted ch -> find c ch = Some col -> sortedk (keys col).
Proof.
  intros H Hf. apply find_In in Hf. unfold inner_sorted in H. rewrite Forall_forall in H.
  exact (H _ Hf).
Qed.

Lemma wf_ch_or_default {V} (ch : amap (amap V)) c :
  inner_sorted ch -> sortedk (keys (or_default (find c ch))).
Proof.
  intro H. destruct (find c ch) eqn:E; cbn; [eapply wf_ch_find; eauto|exact Logic.I].
Qed.

Lemma wf_ch_ins {V} (ch : amap (amap V)) c col :
  wf_ch ch -> sortedk (keys col) -> wf_ch (ins c col ch).
Proof.
  intros [H1 H2] Hc. split; [now apply sortedk_ins|]. now apply Forall_ins.
Qed.

Lemma reorder_inner order (ch : changes) : wf_ch ch -> inner_sorted (reorder order ch).
Proof.
  intros [H1 H2]. unfold reorder. destruct (order_okb order ch); [|exact H2].
  unfold inner_sorted. rewrite Forall_forall. intros x Hx. apply in_map_iff in Hx as [c [<- _]].
  cbn [snd]. now apply wf_ch_or_default.
Qed.

Lemma reorder_wf order (ch : changes) : wf_ch ch -> wf_inc (reorder order ch).
Proof.
  intro Hwf. apply inner_sorted_inc; [|now apply reorder_inner].
  unfold reorder. destruct (order_okb order ch) eqn:Eok.
  - rewrite keys_map_order. unfold order_okb in Eok. rewrite !andb_true_iff in Eok.
    now apply nodupb_NoDup.
  - apply sortedk_nodup, Hwf.
Qed.

Lemma merge_col_sorted p vals : forall bt,
  sortedk (keys bt) -> sortedk (keys (fst (merge_col p bt vals))).
Proof.
  induction vals as [|[k v] r IH]; intros bt H; [exact H|]. cbn [merge_col].
  destruct p; [destruct (find k bt); [exact H|]|]; apply IH; now apply sortedk_ins.
Qed.

Lemma commit_wf p inc : forall mine,
  wf_ch mine -> inner_sorted inc -> wf_ch (fst (commit_changes p mine inc)).
Proof.
  induction inc as [|[c val] r IH]; intros mine Hm Hi; [exact Hm|].
  inversion Hi as [|? ? Hv Hr]; subst. cbn [snd] in Hv. cbn [commit_changes].
  destruct (find c mine) as [bt|] eqn:E.
  - pose proof (merge_col_sorted p val bt (wf_ch_find _ _ _ (proj2 Hm) E)) as Hs.
    destruct (merge_col p bt val) as [bt' ok]. cbn [fst] in Hs.
    assert (Hw : wf_ch (ins c bt' mine)) by now apply wf_ch_ins.
    destruct ok; [now apply IH|exact Hw].
  - apply IH; [now apply wf_ch_ins|exact Hr].
Qed.

Lemma apply_col_sorted vals : forall col, sortedk (keys col) -> sortedk (keys (apply_col col vals)).
Proof.
  induction vals as [|[k o] r IH]; intros col H; [exact H|].
  rewrite apply_col_cons. apply IH. destruct o; [now apply sortedk_ins|now apply sortedk_del].
Qed.

Lemma base_commit_wf inc : forall b, wf_ch b -> wf_ch (base_commit b inc).
Proof.
  induction inc as [|[c val] r IH]; intros b H; [exact H|].
  rewrite base_commit_cons. apply IH. apply wf_ch_ins; [exact H|].
  apply apply_col_sorted, wf_ch_or_default, H.
Qed.

Lemma fold_ins_sorted (es : list (N * wop)) : forall m0,
  sortedk (keys m0) -> sortedk (keys (fold_left (fun m e => ins (fst e) (snd e) m) es m0)).
Proof.
  induction es as [|e r IH]; intros m0 H; [exact H|]. cbn [fold_left]. apply IH.
  now apply sortedk_ins.
Qed.

Definition wf_state (st : state) : Prop :=
  Forall (fun lv => wf_ch (chg lv)) (stack st) /\ wf_ch (base st) /\ Forall wf_ch (pending st).

Lemma commit_into_wf s b order ch :
  Forall (fun lv => wf_ch (chg lv)) s -> wf_ch b -> wf_ch ch ->
  Forall (fun lv => wf_ch (chg lv)) (fst (fst (commit_into s b order ch))) /\
  wf_ch (snd (fst (commit_into s b order ch))).
Proof.
  intros Hs Hb Hc. destruct s as [|parent r]; cbn [commit_into].
  - cbn. split; [constructor|]. now apply base_commit_wf.
  - inversion Hs as [|? ? Hp Hr]; subst.
    pose proof (commit_wf (pol parent) (reorder order ch) (chg parent) Hp (reorder_inner _ _ Hc)) as H.
    destruct (commit_changes (pol parent) (chg parent) (reorder order ch)) as [m' ok].
    cbn in *. split; [constructor; [exact H|exact Hr]|exact Hb].
Qed.

Lemma step_wf R st o : wf_state st -> wf_state (fst (step R st o)).
Proof.
  intros [Hs [Hb Hp]]. unfold step.
  destruct o; try exact (conj Hs (conj Hb Hp)).
  - (* begin *)
    destruct (Nat.ltb (length (stack st)) max_depth); [|exact (conj Hs (conj Hb Hp))].
    split; [|exact (conj Hb Hp)]. cbn. constructor; [|exact Hs].
    split; [exact Logic.I|constructor].
  - (* commit *)
    destruct (stack st) as [|child r] eqn:E; [rewrite <- E in Hs; exact (conj Hs (conj Hb Hp))|].
    inversion Hs as [|? ? Hc Hr]; subst.
    pose proof (commit_into_wf r (base st) order (chg child) Hr Hb Hc) as [H1 H2].
    destruct (commit_into r (base st) order (chg child)) as [[s' b'] ok]. cbn in *.
    exact (conj H1 (conj H2 Hp)).
  - destruct (stack st) as [|child r] eqn:E; [rewrite <- E in Hs; exact (conj Hs (conj Hb Hp))|].
    inversion Hs as [|? ? Hc Hr]; subst. exact (conj Hr (conj Hb Hp)).
  - destruct (stack st) as [|child r] eqn:E; [rewrite <- E in Hs; exact (conj Hs (conj Hb Hp))|].
    inversion Hs as [|? ? Hc Hr]; subst. split; [exact Hr|split; [exact Hb|]].
    cbn [fst pending]. apply Forall_app. split; [exact Hp|].
    constructor; [exact Hc|constructor].
  - (* merge *)
    destruct (pending st) as [|ch rest] eqn:E; [rewrite <- E in Hp; exact (conj Hs (conj Hb Hp))|].
    inversion Hp as [|? ? Hc Hrest]; subst.
    pose proof (commit_into_wf (stack st) (base st) order ch Hs Hb Hc) as [H1 H2].
    destruct (commit_into (stack st) (base st) order ch) as [[s' b'] ok]. cbn in *.
    exact (conj H1 (conj H2 Hrest)).
  - destruct (stack st) as [|lv r] eqn:E; [rewrite <- E in Hs; exact (conj Hs (conj Hb Hp))|].
    inversion Hs as [|? ? Hl Hr]; subst.
    split; [|exact (conj Hb Hp)]. cbn [fst set_top stack]. constructor; [|exact Hr].
    cbn [lv_set chg]. unfold ins2. apply wf_ch_ins; [exact Hl|].
    apply sortedk_ins, wf_ch_or_default, Hl.
  - destruct (stack st) as [|lv r] eqn:E; [rewrite <- E in Hs; exact (conj Hs (conj Hb Hp))|].
    inversion Hs as [|? ? Hl Hr]; subst.
    split; [|exact (conj Hb Hp)]. cbn [fst set_top stack]. constructor; [|exact Hr].
    cbn [lv_set chg]. unfold ins2. apply wf_ch_ins; [exact Hl|].
    apply sortedk_ins, wf_ch_or_default, Hl.
  - destruct (stack st) as [|lv r] eqn:E; [rewrite <- E in Hs; exact (conj Hs (conj Hb Hp))|].
    inversion Hs as [|? ? Hl Hr]; subst.
    split; [|exact (conj Hb Hp)]. cbn [fst set_top stack]. constructor; [|exact Hr].
    cbn [lv_set chg]. unfold ins2. apply wf_ch_ins; [exact Hl|].
    apply sortedk_ins, wf_ch_or_default, Hl.
  - destruct (stack st) as [|lv r] eqn:E; [rewrite <- E in Hs; exact (conj Hs (conj Hb Hp))|].
    inversion Hs as [|? ? Hl Hr]; subst.
    split; [|exact (conj Hb Hp)]. cbn [fst set_top stack]. constructor; [|exact Hr].
    cbn [lv_set chg]. unfold ins2. apply wf_ch_ins; [exact Hl|].
    apply sortedk_ins, wf_ch_or_default, Hl.
  - destruct (stack st) as [|lv r] eqn:E; [rewrite <- E in Hs; exact (conj Hs (conj Hb Hp))|].
    inversion Hs as [|? ? Hl Hr]; subst.
    split; [|exact (conj Hb Hp)]. cbn [fst set_top stack]. constructor; [|exact Hr].
    cbn [lv_set chg]. unfold ins2. apply wf_ch_ins; [exact Hl|].
    apply sortedk_ins, wf_ch_or_default, Hl.
  - destruct (stack st) as [|lv r] eqn:E; [rewrite <- E in Hs; exact (conj Hs (conj Hb Hp))|].
    inversion Hs as [|? ? Hl Hr]; subst.
    split; [|exact (conj Hb Hp)]. cbn [fst set_top stack]. constructor; [|exact Hr].
    cbn [lv_batch chg]. apply wf_ch_ins; [exact Hl|]. apply fold_ins_sorted, wf_ch_or_default, Hl.
  - destruct (stack st) eqn:E; rewrite <- E in Hs; exact (conj Hs (conj Hb Hp)).
Qed.

Lemma run_wf R ops : forall st, wf_state st -> wf_state (fst (run R st ops)).
Proof.
  induction ops as [|o r IH]; intros st H; [exact H|]. cbn [run].
  pose proof (step_wf R st o H) as H1. destruct (step R st o) as [st1 x]. cbn [fst] in H1.
  specialize (IH st1 H1). destruct (run R st1 r) as [st2 xs]. exact IH.
Qed.

Definition ReachableWf : Prop := forall R ops, wf_state (fst (run R init_state ops)).
Lemma reachable_wf_all : ReachableWf.
Proof.
  intros R ops. apply run_wf. repeat split; constructor.
Qed.

(* ---- commit: the receiver's view becomes the view of the committed transaction ---- *)

Definition CommitAppliesNet : Prop :=
  forall s b order (ch : changes), wf_ch ch ->
    let '(s', b', ok) := commit_into s b order ch in
    (ok = true -> forall c k, view s' b' c k = overlay ch (view s b) c k) /\
    match s with
    | [] => ok = true /\ s' = []
    | parent :: r =>
        b' = b /\ (pol parent = Overwrite -> ok = true) /\
        exists m', s' = {| pol := pol parent; chg := m' |} :: r
    end.

Lemma commit_applies_net_all : CommitAppliesNet.
Proof.
  intros s b order ch Hwf. destruct s as [|parent r]; cbn [commit_into].
  - split; [|split; reflexivity]. intros _ c k. cbn [view fold_right]. unfold base_view, overlay.
    rewrite (base_commit_find _ _ _ _ (reorder_wf order ch Hwf)), reorder_find2. reflexivity.
  - pose proof (commit_find (pol parent) (reorder order ch) (chg parent)) as Hf.
    pose proof (commit_overwrite_ok (reorder order ch) (chg parent)) as Ho.
    destruct (commit_changes (pol parent) (chg parent) (reorder order ch)) as [m' ok] eqn:E.
    split; [|split; [reflexivity|split; [|now exists m']]].
    + intros -> c k. rewrite view_cons. cbn [chg]. unfold overlay at 1.
      rewrite (Hf m' (reorder_wf order ch Hwf) eq_refl c k), reorder_find2, view_cons.
      destruct (find2 ch c k) as [[v|]|]; reflexivity.
    + intro Hp. rewrite Hp in E. rewrite E in Ho. exact Ho.
Qed.

(* the step function on OCommit is commit_into on the rest of the stack *)
Lemma step_commit R st child r order :
  stack st = child :: r ->
  step R st (OCommit order) =
  (let '(s', b', ok) := commit_into r (base st) order (chg child) in
   ({| stack := s'; base := b'; pending := pending st |},
    RCommit ok (used_order order (chg child)))).
Proof. intro H. unfold step. now rewrite H. Qed.

(* ---- fail-on-conflict ---- *)

Definition common_key (a b : changes) : Prop :=
  exists c k, find2 a c k <> None /\ find2 b c k <> None.

Definition MergeFailIff : Prop :=
  forall parent r b order (ch : changes), wf_ch ch -> pol parent = Fail ->
    (snd (commit_into (parent :: r) b order ch) = false <-> common_key (chg parent) ch).

Lemma merge_fail_iff_all : MergeFailIff.
Proof.
  intros parent r b order ch Hwf Hp. cbn [commit_into]. rewrite Hp.
  pose proof (commit_fail_iff (reorder order ch) (chg parent) (reorder_wf order ch Hwf)) as H.
  destruct (commit_changes Fail (chg parent) (reorder order ch)) as [m' ok]. cbn [snd] in *.
  rewrite H. unfold common_key. split; intros [c [k [H1 H2]]]; exists c, k.
  - now rewrite reorder_find2 in H2.
  - now rewrite reorder_find2.
Qed.

(* two siblings merged one after the other into a fresh Fail parent: the first is accepted,
   the second is rejected iff both wrote a common (column, key) *)
Definition SiblingsFailIff : Prop :=
  forall r b o1 o2 (c1 c2 : changes), wf_ch c1 -> wf_ch c2 ->
    let '(s1, b1, ok1) := commit_into ({| pol := Fail; chg := [] |} :: r) b o1 c1 in
    ok1 = true /\
    (snd (commit_into s1 b1 o2 c2) = false <-> common_key c1 c2).

Lemma siblings_fail_iff_all : SiblingsFailIff.
Proof.
  intros r b o1 o2 c1 c2 H1 H2.
  pose proof (merge_fail_iff_all {| pol := Fail; chg := [] |} r b o1 c1 H1 eq_refl) as Hfirst.
  cbn [commit_into pol chg] in *.
  pose proof (commit_find Fail (reorder o1 c1) [] ) as Hf.
  destruct (commit_changes Fail [] (reorder o1 c1)) as [m1 ok1] eqn:E1. cbn [snd] in Hfirst.
  assert (Hok : ok1 = true).
  { destruct ok1; [reflexivity|]. destruct Hfirst as [Hx _]. destruct (Hx eq_refl) as [c [k [Hc _]]].
    exfalso. now apply Hc. }
  split; [exact Hok|]. subst ok1.
  pose proof (merge_fail_iff_all {| pol := Fail; chg := m1 |} r b o2 c2 H2 eq_refl) as Hsecond.
  cbn [commit_into pol chg] in Hsecond. rewrite Hsecond. unfold common_key. cbn [chg].
  assert (Hm1 : forall c k, find2 m1 c k = find2 c1 c k).
  { intros c k. rewrite (Hf m1 (reorder_wf o1 c1 H1) eq_refl c k), reorder_find2.
    now destruct (find2 c1 c k). }
  split; intros [c [k [Ha Hb]]]; exists c, k; [rewrite <- Hm1|rewrite Hm1]; tauto.
Qed.

(* non-atomic failure: a Fail receiver never loses or changes an entry it had; anything new
   after a rejected commit is an entry of the rejected change set *)
Definition FailLeakBounded : Prop :=
  forall parent r b order (ch : changes), wf_ch ch -> pol parent = Fail ->
    exists m', fst (fst (commit_into (parent :: r) b order ch)) = {| pol := Fail; chg := m' |} :: r /\
    forall c k, find2 m' c k = find2 (chg parent) c k \/
                (find2 (chg parent) c k = None /\ find2 m' c k = find2 ch c k).

Lemma fail_leak_bounded_all : FailLeakBounded.
Proof.
  intros parent r b order ch Hwf Hp. cbn [commit_into]. rewrite Hp.
  pose proof (commit_fail_bound (reorder order ch) (chg parent) (reorder_wf order ch Hwf)) as H.
  destruct (commit_changes Fail (chg parent) (reorder order ch)) as [m' ok]. cbn [fst] in *.
  exists m'. split; [reflexivity|]. intros c k. specialize (H c k).
  now rewrite reorder_find2 in H.
Qed.

(* ---- levels below the active transaction are never touched; drop is a no-op ---- *)

(* depth the op needs above the protected part: a commit writes into the level below *)
Definition guard (o : op) (above : nat) : Prop :=
  match o with
  | OCommit _ => (2 <= above)%nat
  | ODrop | ODetach | OMerge _ | OPut _ _ _ | OReplace _ _ _ | OWrite _ _ _
  | OTake _ _ | ODelete _ _ | OBatch _ _ => (1 <= above)%nat
  | _ => True
  end.

Fixpoint keeps (R : reader) (n : nat) (st : state) (ops : list op) : Prop :=
  match ops with
  | [] => True
  | o :: r => guard o (length (stack st) - n) /\ keeps R n (fst (step R st o)) r
  end.

Definition lower (n : nat) (st : state) : list level := skipn (length (stack st) - n) (stack st).

Lemma skipn_S_cons {A} (x : A) l n : (n <= length l)%nat ->
  skipn (S (length l) - n) (x :: l) = skipn (length l - n) l.
Proof.
  intro H. replace (S (length l) - n)%nat with (S (length l - n)) by lia. reflexivity.
Qed.

Lemma skipn_S_cons2 {A} (x y : A) l n : (n <= length l)%nat ->
  skipn (S (S (length l)) - n) (x :: y :: l) = skipn (length l - n) l.
Proof.
  intro H. replace (S (S (length l)) - n)%nat with (S (S (length l - n))) by lia. reflexivity.
Qed.

Lemma step_keeps R st o n :
  (n <= length (stack st))%nat -> guard o (length (stack st) - n) ->
  let st' := fst (step R st o) in
  lower n st' = lower n st /\ base st' = base st /\ (n <= length (stack st'))%nat.
Proof.
  intros Hn Hg. unfold lower, step.
  destruct o; cbn [guard] in Hg; try (cbn [fst]; tauto).
  - destruct (Nat.ltb (length (stack st)) max_depth); cbn [fst stack base]; [|tauto].
    cbn [length]. rewrite skipn_S_cons by lia. repeat split; try reflexivity; lia.
  - destruct (stack st) as [|child [|parent r]] eqn:E; cbn [length] in *; try lia.
    cbn [commit_into].
    destruct (commit_changes (pol parent) (chg parent) (reorder order (chg child))) as [m' ok].
    cbn [fst stack base]. cbn [length]. rewrite skipn_S_cons2, skipn_S_cons by lia.
    cbn [length]. repeat split; try reflexivity; lia.
  - destruct (stack st) as [|child r] eqn:E; cbn [length] in *; try lia.
    cbn [fst stack base length]. rewrite !skipn_S_cons by lia. repeat split; try reflexivity; lia.
  - destruct (stack st) as [|child r] eqn:E; cbn [length] in *; try lia.
    cbn [fst stack base length]. rewrite !skipn_S_cons by lia. repeat split; try reflexivity; lia.
  - destruct (pending st) as [|ch rest]; [cbn [fst]; tauto|].
    destruct (stack st) as [|parent r] eqn:E; cbn [length] in *; try lia.
    cbn [commit_into].
    destruct (commit_changes (pol parent) (chg parent) (reorder order ch)) as [m' ok].
    cbn [fst stack base length]. rewrite !skipn_S_cons by lia. cbn [length]. repeat split; try reflexivity; lia.
  - destruct (stack st) as [|lv r] eqn:E; cbn [length] in *; try lia.
    cbn [fst set_top stack base length]. rewrite !skipn_S_cons by lia. cbn [length]. repeat split; try reflexivity; lia.
  - destruct (stack st) as [|lv r] eqn:E; cbn [length] in *; try lia.
    cbn [fst set_top stack base length]. rewrite !skipn_S_cons by lia. cbn [length]. repeat split; try reflexivity; lia.
  - destruct (stack st) as [|lv r] eqn:E; cbn [length] in *; try lia.
    cbn [fst set_top stack base length]. rewrite !skipn_S_cons by lia. cbn [length]. repeat split; try reflexivity; lia.
  - destruct (stack st) as [|lv r] eqn:E; cbn [length] in *; try lia.
    cbn [fst set_top stack base length]. rewrite !skipn_S_cons by lia. cbn [length]. repeat split; try reflexivity; lia.
  - destruct (stack st) as [|lv r] eqn:E; cbn [length] in *; try lia.
    cbn [fst set_top stack base length]. rewrite !skipn_S_cons by lia. cbn [length]. repeat split; try reflexivity; lia.
  - destruct (stack st) as [|lv r] eqn:E; cbn [length] in *; try lia.
    cbn [fst set_top stack base length]. rewrite !skipn_S_cons by lia. cbn [length]. repeat split; try reflexivity; lia.
  - destruct (stack st) eqn:E; cbn [fst]; rewrite ?E; repeat split; try reflexivity; exact Hn.
Qed.

Definition LowerLevelsUntouched : Prop :=
  forall R ops st n, (n <= length (stack st))%nat -> keeps R n st ops ->
    let st' := fst (run R st ops) in
    lower n st' = lower n st /\ base st' = base st.

Lemma lower_levels_untouched_all : LowerLevelsUntouched.
Proof.
  intros R ops. induction ops as [|o r IH]; intros st n Hn Hk; [split; reflexivity|].
  destruct Hk as [Hg Hk]. cbn [run].
  pose proof (step_keeps R st o n Hn Hg) as [H1 [H2 H3]].
  destruct (step R st o) as [st1 x]. cbn [fst] in *.
  specialize (IH st1 n H3 Hk). destruct (run R st1 r) as [st2 xs]. cbn [fst] in *.
  destruct IH as [I1 I2]. split; congruence.
Qed.

(* begin a transaction, do anything inside it (nested commits included) that never pops
   below it, drop it: stack and base are exactly as before *)
Definition DropNoop : Prop :=
  forall R st p ops,
    let st1 := fst (step R st (OBegin p)) in
    keeps R (length (stack st)) st1 (ops ++ [ODrop]) ->
    let st' := fst (run R st1 (ops ++ [ODrop])) in
    length (stack st') = length (stack st) ->
    stack st' = stack st /\ base st' = base st.

Lemma drop_noop_all : DropNoop.
Proof.
  intros R st p ops st1 Hk st' Hlen.
  assert (Hn : (length (stack st) <= length (stack st1))%nat).
  { subst st1. unfold step. destruct (Nat.ltb (length (stack st)) max_depth); cbn; lia. }
  pose proof (lower_levels_untouched_all R (ops ++ [ODrop]) st1 (length (stack st)) Hn Hk) as [H1 H2].
  fold st' in H1, H2. unfold lower in H1. rewrite Hlen, Nat.sub_diag in H1. cbn [skipn] in H1.
  assert (Hb : base st1 = base st /\ skipn (length (stack st1) - length (stack st)) (stack st1) = stack st).
  { subst st1. unfold step. destruct (Nat.ltb (length (stack st)) max_depth); cbn [fst stack base].
    - split; [reflexivity|]. cbn [length]. rewrite skipn_S_cons by lia. now rewrite Nat.sub_diag.
    - split; [reflexivity|]. now rewrite Nat.sub_diag. }
  destruct Hb as [Hb1 Hb2]. split; congruence.
Qed.

(* ---- non-vacuity: concrete runs ---- *)

(* nested depth 3, take after replace, read_exact with an offset over a pending value *)
Example ex_nested :
  snd (run code_reader init_state
         [OBegin Overwrite; OPut 1 2 [1;2;3;4]; OBegin Fail; OReplace 1 2 [9;8];
          OBegin Fail; OTake 1 2; OGet 1 2; ODrop; OReadExact 1 2 1 1; OCommit [1];
          OReadZerofill 1 2 1 3; OCommit [1]; OGet 1 2])
  = [RUnit; RUnit; RUnit; RVal (Some [1;2;3;4]); RUnit; RVal (Some [9;8]); RVal None; RUnit;
     RRead (RR 0 1 [8]); RCommit true [1]; RRead (RR 0 2 [8;0;0]); RCommit true [1];
     RVal (Some [9;8])].
Proof. vm_compute. reflexivity. Qed.

(* two siblings under Fail writing the same key: the second merge is rejected, and the
   column merged before the conflict stays merged (order 0 then 1) *)
Example ex_siblings :
  snd (run code_reader init_state
         [OBegin Fail; OBegin Fail; OPut 0 0 [1]; OPut 1 1 [1]; ODetach;
          OBegin Fail; OPut 0 5 [2]; OPut 1 1 [2]; ODetach;
          OMerge [0;1]; OMerge [0;1]; ODump])
  = [RUnit; RUnit; RUnit; RUnit; RUnit; RUnit; RUnit; RUnit; RUnit;
     RCommit true [0;1]; RCommit false [0;1];
     RDump [(0, [(0, Insert [1]); (5, Insert [2])]); (1, [(1, Insert [1])])]].
Proof. vm_compute. reflexivity. Qed.
