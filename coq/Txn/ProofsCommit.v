(* commit_changes: on success the receiver holds exactly "incoming over own" at every
   (column, key); under Fail it is rejected iff a (column, key) is written on both sides;
   what a rejected commit may leave behind; commits into the base. *)
From FC Require Import Txn.Model Txn.ProofsMap Txn.ProofsRead.
From Coq Require Import ZifyBool ZifyN.
Open Scope N_scope.

(* well-formedness of a change set as handed over by a HashMap<_, BTreeMap<_, _>>:
   every column once, every key once per column *)
Definition wf_inc {V} (inc : list (N * amap V)) : Prop :=
  NoDup (keys inc) /\ Forall (fun ce => NoDup (keys (snd ce))) inc.

Lemma wf_inc_cons {V} c (val : amap V) r :
  wf_inc ((c, val) :: r) -> ~ In c (keys r) /\ NoDup (keys val) /\ wf_inc r.
Proof.
  intros [H1 H2]. cbn in H1. inversion H1; subst. inversion H2; subst. cbn in *.
  repeat split; auto.
Qed.

Lemma find2_cons {V} c0 (val : amap V) r c k :
  find2 ((c0, val) :: r) c k = if c0 =? c then find k val else find2 r c k.
Proof. unfold find2. cbn [find]. destruct (c0 =? c); reflexivity. Qed.

Lemma find2_ins {V} (m : amap (amap V)) c0 col c k :
  find2 (ins c0 col m) c k = if c0 =? c then find k col else find2 m c k.
Proof. unfold find2. rewrite find_ins. destruct (c0 =? c); reflexivity. Qed.

Lemma find2_notin {V} (m : amap (amap V)) c k : ~ In c (keys m) -> find2 m c k = None.
Proof. intro H. unfold find2. now rewrite find_notin. Qed.

(* ---- one column ---- *)

Lemma merge_col_overwrite_ok bt vals : snd (merge_col Overwrite bt vals) = true.
Proof. revert bt. induction vals as [|[k v] r IH]; intro bt; cbn; auto. Qed.

Lemma merge_col_find p vals : forall bt bt',
  NoDup (keys vals) -> merge_col p bt vals = (bt', true) ->
  forall k, find k bt' = match find k vals with Some o => Some o | None => find k bt end.
Proof.
  induction vals as [|[k0 v0] r IH]; intros bt bt' Hnd H k.
  - cbn in H. injection H as <-. reflexivity.
  - cbn in Hnd. inversion Hnd as [|? ? Hni Hnd']; subst.
    assert (Hrec : merge_col p (ins k0 v0 bt) r = (bt', true)).
    { cbn [merge_col] in H. destruct p; [destruct (find k0 bt); [discriminate|]|]; exact H. }
    rewrite (IH _ _ Hnd' Hrec k). cbn [find].
    destruct (k0 =? k) eqn:E.
    + apply N.eqb_eq in E. subst k. rewrite (find_notin _ _ Hni), find_ins, N.eqb_refl. reflexivity.
    + rewrite find_ins, E. reflexivity.
Qed.

Lemma merge_col_fail_iff vals : forall bt,
  NoDup (keys vals) ->
  (snd (merge_col Fail bt vals) = false <->
   exists k, find k bt <> None /\ find k vals <> None).
Proof.
  induction vals as [|[k0 v0] r IH]; intros bt Hnd.
  - cbn. split; [discriminate|]. intros [k [_ H]]. congruence.
  - cbn in Hnd. inversion Hnd as [|? ? Hni Hnd']; subst. cbn [merge_col].
    destruct (find k0 bt) eqn:E0.
    + cbn [snd]. split; [intros _|reflexivity].
      exists k0. split; [congruence|]. cbn [find]. rewrite N.eqb_refl. discriminate.
    + rewrite (IH _ Hnd'). split; intros [k [H1 H2]]; exists k.
      * assert (Hne : k0 <> k).
        { intro; subst k. apply find_in_keys in H2. contradiction. }
        rewrite find_ins in H1. cbn [find].
        replace (k0 =? k) with false in * by lia. tauto.
      * assert (Hne : k0 <> k) by (intro; subst k; congruence).
        cbn [find] in H2. rewrite find_ins.
        replace (k0 =? k) with false in * by lia. tauto.
Qed.

(* whatever happens, entries already present keep their operation under Fail, and every
   entry of the result comes from one of the two sides *)
Lemma merge_col_fail_bound vals : forall bt k,
  find k (fst (merge_col Fail bt vals)) = find k bt \/
  (find k bt = None /\ find k (fst (merge_col Fail bt vals)) = find k vals).
Proof.
  induction vals as [|[k0 v0] r IH]; intros bt k; [left; reflexivity|].
  cbn [merge_col]. destruct (find k0 bt) eqn:E0; [left; reflexivity|].
  destruct (IH (ins k0 v0 bt) k) as [H|[H1 H2]].
  - rewrite H, find_ins. destruct (k0 =? k) eqn:E; [|now left].
    apply N.eqb_eq in E. subst k. right. split; [exact E0|].
    cbn [find]. now rewrite N.eqb_refl.
  - rewrite find_ins in H1. destruct (k0 =? k) eqn:E; [discriminate|].
    right. split; [exact H1|]. rewrite H2. cbn [find]. now rewrite E.
Qed.

(* ---- all columns ---- *)

Lemma commit_overwrite_ok inc : forall mine, snd (commit_changes Overwrite mine inc) = true.
Proof.
  induction inc as [|[c val] r IH]; intro mine; cbn [commit_changes]; [reflexivity|].
  destruct (find c mine) as [bt|]; [|apply IH].
  pose proof (merge_col_overwrite_ok bt val) as Hok.
  destruct (merge_col Overwrite bt val) as [bt' ok]. cbn in Hok. subst ok. apply IH.
Qed.

Lemma commit_find p inc : forall mine mine',
  wf_inc inc -> commit_changes p mine inc = (mine', true) ->
  forall c k, find2 mine' c k =
              match find2 inc c k with Some o => Some o | None => find2 mine c k end.
Proof.
  induction inc as [|[c0 val] r IH]; intros mine mine' Hwf H c k.
  - cbn in H. injection H as <-. reflexivity.
  - apply wf_inc_cons in Hwf as [Hni [Hnd Hwf]]. cbn [commit_changes] in H.
    rewrite find2_cons.
    destruct (find c0 mine) as [bt|] eqn:E0.
    + destruct (merge_col p bt val) as [bt' ok] eqn:Em.
      destruct ok; [|discriminate].
      rewrite (IH _ _ Hwf H c k), find2_ins.
      destruct (c0 =? c) eqn:E.
      * apply N.eqb_eq in E. subst c. rewrite (find2_notin _ _ _ Hni).
        rewrite (merge_col_find _ _ _ _ Hnd Em k). unfold find2. now rewrite E0.
      * reflexivity.
    + rewrite (IH _ _ Hwf H c k), find2_ins.
      destruct (c0 =? c) eqn:E; [|reflexivity].
      apply N.eqb_eq in E. subst c. rewrite (find2_notin _ _ _ Hni).
      assert (Hm : find2 mine c0 k = None) by (unfold find2; now rewrite E0).
      rewrite Hm. now destruct (find k val).
Qed.

Lemma commit_fail_iff inc : forall mine,
  wf_inc inc ->
  (snd (commit_changes Fail mine inc) = false <->
   exists c k, find2 mine c k <> None /\ find2 inc c k <> None).
Proof.
  induction inc as [|[c0 val] r IH]; intros mine Hwf.
  - cbn. split; [discriminate|]. intros [c [k [_ H]]]. exfalso. now apply H.
  - apply wf_inc_cons in Hwf as [Hni [Hnd Hwf]]. cbn [commit_changes].
    destruct (find c0 mine) as [bt|] eqn:E0.
    + pose proof (merge_col_fail_iff val bt Hnd) as Hcol.
      destruct (merge_col Fail bt val) as [bt' ok] eqn:Em. cbn [snd] in Hcol.
      destruct ok.
      * (* column merged without conflict: continue *)
        rewrite (IH _ Hwf). split; intros [c [k [H1 H2]]]; exists c, k.
        -- assert (Hne : c0 <> c).
           { intro; subst c. rewrite (find2_notin _ _ _ Hni) in H2. congruence. }
           rewrite find2_ins in H1. rewrite find2_cons.
           replace (c0 =? c) with false in * by lia. tauto.
        -- rewrite find2_cons in H2. rewrite find2_ins.
           destruct (c0 =? c) eqn:E; [|tauto].
           apply N.eqb_eq in E. subst c. exfalso.
           assert (false = false -> False); [|tauto]. intros _.
           destruct Hcol as [_ Hcol]. discriminate Hcol.
           exists k. split; [|exact H2]. unfold find2 in H1. now rewrite E0 in H1.
      * cbn [snd]. split; [intros _|reflexivity].
        destruct Hcol as [Hcol _]. destruct (Hcol eq_refl) as [k [H1 H2]].
        exists c0, k. rewrite find2_cons, N.eqb_refl. split; [|exact H2].
        unfold find2. now rewrite E0.
    + rewrite (IH _ Hwf). split; intros [c [k [H1 H2]]]; exists c, k.
      * assert (Hne : c0 <> c).
        { intro; subst c. rewrite (find2_notin _ _ _ Hni) in H2. congruence. }
        rewrite find2_ins in H1. rewrite find2_cons.
        replace (c0 =? c) with false in * by lia. tauto.
      * assert (Hne : c0 <> c).
        { intro; subst c. unfold find2 in H1. rewrite E0 in H1. congruence. }
        rewrite find2_cons in H2. rewrite find2_ins.
        replace (c0 =? c) with false in * by lia. tauto.
Qed.

(* the non-atomic failure: a rejected (or accepted) Fail commit never changes an entry the
   receiver already had; anything new is an entry of the incoming change set *)
Lemma commit_fail_bound inc : forall mine,
  wf_inc inc -> forall c k,
  find2 (fst (commit_changes Fail mine inc)) c k = find2 mine c k \/
  (find2 mine c k = None /\ find2 (fst (commit_changes Fail mine inc)) c k = find2 inc c k).
Proof.
  induction inc as [|[c0 val] r IH]; intros mine Hwf c k; [left; reflexivity|].
  apply wf_inc_cons in Hwf as [Hni [Hnd Hwf]]. cbn [commit_changes]. rewrite find2_cons.
  destruct (find c0 mine) as [bt|] eqn:E0.
  - pose proof (merge_col_fail_bound val bt k) as Hb.
    destruct (merge_col Fail bt val) as [bt' ok] eqn:Em. cbn [fst] in Hb.
    set (res := fst (if ok then commit_changes Fail (ins c0 bt' mine) r
                     else (ins c0 bt' mine, false))).
    assert (Hres : find2 res c k = find2 (ins c0 bt' mine) c k \/
                   (find2 (ins c0 bt' mine) c k = None /\ find2 res c k = find2 r c k)).
    { subst res. destruct ok; [apply IH; exact Hwf|left; reflexivity]. }
    rewrite find2_ins in Hres. destruct (c0 =? c) eqn:E.
    + apply N.eqb_eq in E. subst c. rewrite (find2_notin _ _ _ Hni) in Hres.
      assert (Hm : find2 mine c0 k = find k bt) by (unfold find2; now rewrite E0).
      rewrite Hm.
      destruct Hres as [Hr|[Hr1 Hr2]]; rewrite ?Hr, ?Hr2.
      * exact Hb.
      * rewrite Hr1 in Hb. destruct Hb as [Hb|[Hb1 Hb2]]; [left; congruence|right; split; congruence].
    + exact Hres.
  - set (res := fst (commit_changes Fail (ins c0 val mine) r)).
    assert (Hres : find2 res c k = find2 (ins c0 val mine) c k \/
                   (find2 (ins c0 val mine) c k = None /\ find2 res c k = find2 r c k)).
    { subst res. apply IH; exact Hwf. }
    rewrite find2_ins in Hres. destruct (c0 =? c) eqn:E.
    + apply N.eqb_eq in E. subst c. rewrite (find2_notin _ _ _ Hni) in Hres.
      assert (Hm : find2 mine c0 k = None) by (unfold find2; now rewrite E0).
      rewrite Hm. right. split; [reflexivity|].
      destruct Hres as [Hr|[Hr1 Hr2]]; congruence.
    + exact Hres.
Qed.
