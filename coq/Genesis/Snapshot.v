(* Executable model of snapshot export followed by regenesis (C39):
     crates/fuel-core/src/service/genesis/exporter.rs       Exporter::write_full_snapshot (chunks(group_size))
     crates/chain-config/src/config/state/writer.rs         SnapshotWriter::write (json: StateConfigBuilder, parquet: row groups)
     crates/chain-config/src/config/state.rs                StateConfigBuilder::build, AsTable / AddTable
     crates/chain-config/src/config/state/reader.rs         SnapshotReader::read (json: chunks(json_group_size))
     crates/fuel-core/src/service/genesis/importer/on_chain.rs   the ImportTable handlers
   A table is the list of its entries in key order; an entry is (key, aux): aux = tx-pointer
   block height (coins, contract UTXOs), DA height (messages), 0 otherwise.  The value bytes
   are not modelled (the correspondence check compares them by digest).  The key of a
   contract state slot / balance is contract * 2^32 + index.  No proofs in this file. *)
From FC Require Export Genesis.Import.
Open Scope N_scope.

Definition table := list (N * N).

Record sdb := mkSdb {
  t_coins : table; t_msgs : table; t_blobs : table; t_code : table; t_utxo : table;
  t_state : table; t_assets : table; t_ptx : table; t_mdata : table; t_mmeta : table }.

Definition empty_sdb : sdb := mkSdb [] [] [] [] [] [] [] [] [] [].

Definition contract_of (key : N) : N := key / 4294967296.

(* ---------- export ---------- *)

(* what the snapshot holds per table: the groups as written *)
Record snapshot := mkSnap {
  s_coins : list table; s_msgs : list table; s_blobs : list table; s_code : list table;
  s_utxo : list table; s_state : list table; s_assets : list table; s_ptx : list table;
  s_mdata : list table; s_mmeta : list table }.

(* db.entries::<T>().chunks(group_size) -> writer.write(chunk), table by table *)
Definition export_groups (g : nat) (d : sdb) : snapshot :=
  mkSnap (chunks g (t_coins d)) (chunks g (t_msgs d)) (chunks g (t_blobs d)) (chunks g (t_code d))
         (chunks g (t_utxo d)) (chunks g (t_state d)) (chunks g (t_assets d)) (chunks g (t_ptx d))
         (chunks g (t_mdata d)) (chunks g (t_mmeta d)).

(* JSON: StateConfigBuilder.  AddTable extends the per-table vectors (and is a no-op for
   processed transactions and the block Merkle tables); build() assembles the contracts from
   the code entries *)
Record jcontract := mkJc { jc_id : N; jc_code : N; jc_utxo : N; jc_states : table; jc_balances : table }.
Record jstate := mkJs { j_coins : table; j_msgs : table; j_blobs : table; j_contracts : list jcontract }.

Fixpoint mapM_opt {A B} (f : A -> option B) (l : list A) : option (list B) :=
  match l with
  | [] => Some []
  | x :: r => match f x, mapM_opt f r with Some y, Some ys => Some (y :: ys) | _, _ => None end
  end.

Definition json_build (s : snapshot) : option jstate :=
  let state := concat (s_state s) in
  let assets := concat (s_assets s) in
  let utxo := concat (s_utxo s) in
  match mapM_opt (fun ce : N * N =>
                    match tbl_get (fst ce) utxo with          (* "Missing utxo for contract" *)
                    | Some u =>
                        Some (mkJc (fst ce) (snd ce) u
                                   (filter (fun e => contract_of (fst e) =? fst ce) state)
                                   (filter (fun e => contract_of (fst e) =? fst ce) assets))
                    | None => None
                    end) (concat (s_code s)) with
  | Some cs => Some (mkJs (concat (s_coins s)) (concat (s_msgs s)) (concat (s_blobs s)) cs)
  | None => None
  end.

(* SnapshotReader::read over a JSON state: as_table().chunks(json_group_size) *)
Definition json_read (g : nat) (j : jstate) : snapshot :=
  mkSnap (chunks g (j_coins j)) (chunks g (j_msgs j)) (chunks g (j_blobs j))
         (chunks g (map (fun c => (jc_id c, jc_code c)) (j_contracts j)))
         (chunks g (map (fun c => (jc_id c, jc_utxo c)) (j_contracts j)))
         (chunks g (flat_map jc_states (j_contracts j)))
         (chunks g (flat_map jc_balances (j_contracts j)))
         [] [] [].

(* ---------- import ---------- *)

Fixpoint tbl_put (k v : N) (l : table) : table :=
  match l with
  | [] => [(k, v)]
  | (k', v') :: r =>
      if k <? k' then (k, v) :: l
      else if k =? k' then (k, v) :: r
      else (k', v') :: tbl_put k v r
  end.

(* a handler: entries above [limit] are refused (tx pointer / DA height in the future);
   [strict]: an entry that is already present is refused ("... should not exist") *)
Fixpoint handle (limit : option N) (strict : bool) (g : table) (t : table) : option table :=
  match g with
  | [] => Some t
  | (k, a) :: r =>
      if match limit with Some m => m <? a | None => false end then None
      else if strict && match tbl_get k t with Some _ => true | None => false end then None
      else handle limit strict r (tbl_put k a t)
  end.

Fixpoint handle_groups (limit : option N) (strict : bool) (gs : list table) (t : table) : option table :=
  match gs with
  | [] => Some t
  | g :: r => match handle limit strict g t with Some t' => handle_groups limit strict r t' | None => None end
  end.

(* run_workers, on-chain part, into an empty database; [h]/[da]: height and DA height of the
   new genesis block *)
Definition import_snapshot (h da : N) (s : snapshot) : option sdb :=
  match handle_groups (Some h) true (s_coins s) [],
        handle_groups (Some da) true (s_msgs s) [],
        handle_groups None true (s_blobs s) [],
        handle_groups None true (s_code s) [],
        handle_groups (Some h) true (s_utxo s) [] with
  | Some c, Some m, Some b, Some co, Some u =>
      match handle_groups None false (s_state s) [],
            handle_groups None false (s_assets s) [],
            handle_groups None false (s_ptx s) [],
            handle_groups None false (s_mdata s) [],
            handle_groups None false (s_mmeta s) [] with
      | Some st, Some a, Some p, Some md, Some mm => Some (mkSdb c m b co u st a p md mm)
      | _, _, _, _, _ => None
      end
  | _, _, _, _, _ => None
  end.

(* create_genesis_block: the new chain continues the exported one *)
Definition genesis_height (latest : N) : N := latest + 1.

(* export in the encoding [enc] (0 JSON, 1 parquet) with group size [ge], read back
   (JSON: with group size [gi]) and import into a fresh node *)
Definition regenesis (enc : N) (ge gi : nat) (latest da : N) (d : sdb) : option sdb :=
  let s := export_groups ge d in
  if enc =? 0 then
    match json_build s with
    | Some j => import_snapshot (genesis_height latest) da (json_read gi j)
    | None => None
    end
  else import_snapshot (genesis_height latest) da s.

(* what the JSON encoding keeps *)
Definition json_part (d : sdb) : sdb :=
  mkSdb (t_coins d) (t_msgs d) (t_blobs d) (t_code d) (t_utxo d) (t_state d) (t_assets d) [] [] [].

(* ---------- Pcheck of C39 ---------- *)

Definition table_eqb (a b : table) : bool := list_eqb pairN_eqb a b.

(* 1 holds; first failure in this order: 2 a state table differs (coins, messages, blobs,
   contract code / UTXO / state / balances); 4 the chain height / last block data differ;
   5 a compared column differs by digest (values); 3 processed transaction ids or block
   Merkle data differ *)
Definition c39_code (src dst : sdb) (last_ok : bool) (digests_ok : bool) : N :=
  if negb (table_eqb (t_coins src) (t_coins dst) && table_eqb (t_msgs src) (t_msgs dst) &&
           table_eqb (t_blobs src) (t_blobs dst) && table_eqb (t_code src) (t_code dst) &&
           table_eqb (t_utxo src) (t_utxo dst) && table_eqb (t_state src) (t_state dst) &&
           table_eqb (t_assets src) (t_assets dst)) then 2
  else if negb last_ok then 4
  else if negb digests_ok then 5
  else if negb (table_eqb (t_ptx src) (t_ptx dst) && table_eqb (t_mdata src) (t_mdata dst) &&
                table_eqb (t_mmeta src) (t_mmeta dst)) then 3
  else 1.

(* ---------- T codecs ---------- *)

Definition T_table (t : T) : option table := match t with L l => mapM T_pair l | _ => None end.

Definition T_sdb (t : T) : option sdb :=
  match t with
  | L [a; b; c; d; e; f; g; h; i; j] =>
      match T_table a, T_table b, T_table c, T_table d, T_table e with
      | Some a, Some b, Some c, Some d, Some e =>
          match T_table f, T_table g, T_table h, T_table i, T_table j with
          | Some f, Some g, Some h, Some i, Some j => Some (mkSdb a b c d e f g h i j)
          | _, _, _, _, _ => None
          end
      | _, _, _, _, _ => None
      end
  | _ => None
  end.

Definition sdb_T (d : sdb) : T :=
  L [tbl_T (t_coins d); tbl_T (t_msgs d); tbl_T (t_blobs d); tbl_T (t_code d); tbl_T (t_utxo d);
     tbl_T (t_state d); tbl_T (t_assets d); tbl_T (t_ptx d); tbl_T (t_mdata d); tbl_T (t_mmeta d)].

(* input  (enc ge gi latest da src-tables _seed)
   observed (ok dst-tables last digests-ok columns):  ok = the regenesis succeeded;
     last = (height da) read back from the snapshot; digests-ok: every compared column has the
     same digest before and after *)
Definition main39 (input observed : T) : T :=
  match input with
  | L [enc; ge; gi; latest; da; src; _] =>
      match getN enc, getN ge, getN gi, getN latest, getN da, T_sdb src with
      | Some enc, Some ge, Some gi, Some latest, Some da, Some src =>
          if (ge =? 0) || (gi =? 0) then tErr 4 else
          let r := regenesis enc (N.to_nat ge) (N.to_nat gi) latest da src in
          (* last block data and digests are the implementation's *)
          let tail := match observed with L [_; _; l; dg; cols] => [l; dg; cols] | _ => [L []; L []; L []] end in
          let model := match r with
                       | Some d => L (tB true :: sdb_T d :: tail)
                       | None => L (tB false :: sdb_T empty_sdb :: tail)
                       end in
          let pc := match observed with
                    | L [ok; dst; L [oh; oda]; dg; _] =>
                        match getB ok, T_sdb dst, getN oh, getN oda, getB dg with
                        | Some true, Some dst, Some oh, Some oda, Some dg =>
                            c39_code src dst ((oh =? latest) && (oda =? da)) dg
                        | _, _, _, _, _ => 0
                        end
                    | _ => 0
                    end in
          L [model; tN pc]
      | _, _, _, _, _, _ => tErr 2
      end
  | _ => tErr 1
  end.
