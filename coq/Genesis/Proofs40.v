(* C40: an interrupted and resumed genesis import is the uninterrupted import. *)
From FC Require Import Genesis.Import.
From Coq Require Import ZifyBool ZifyN ZifyNat.
Open Scope N_scope.

(* ---------- small list facts ---------- *)

Lemma commits_app : forall a b, commits (a ++ b) = commits a ++ commits b.
Proof. intros. unfold commits. apply flat_map_app. Qed.

Lemma commits_cons_true : forall t i evs, commits ((t, i, true) :: evs) = (t, i) :: commits evs.
Proof. reflexivity. Qed.
Lemma commits_cons_false : forall t i evs, commits ((t, i, false) :: evs) = commits evs.
Proof. reflexivity. Qed.

Lemma prog_get_set_same : forall t i l, prog_get t (prog_set t i l) = Some i.
Proof.
  induction l as [|[k v] r IH]; cbn [prog_set prog_get].
  - rewrite N.eqb_refl. reflexivity.
  - destruct (k =? t) eqn:E; cbn [prog_get]; rewrite E; auto.
Qed.

Lemma prog_get_set_other : forall t t' i l, t' <> t -> prog_get t' (prog_set t i l) = prog_get t' l.
Proof.
  induction l as [|[k v] r IH]; intros Hne; cbn [prog_set prog_get].
  - destruct (t =? t') eqn:E; auto. apply N.eqb_eq in E. congruence.
  - destruct (k =? t) eqn:E; cbn [prog_get].
    + apply N.eqb_eq in E. subst k. destruct (t =? t') eqn:E2; auto.
      apply N.eqb_eq in E2. congruence.
    + destruct (k =? t'); auto.
Qed.

Lemma enum_from_ext : forall {A} (l : list A) i j, i = j -> enum_from i l = enum_from j l.
Proof. intros. subst. reflexivity. Qed.

(* enumerate().skip(s) = the groups from index min(s, len) on *)
Lemma drop_enum : forall {A} (l : list A) s i,
  exists m, (m <= length l)%nat /\ N.of_nat m = N.min s (N.of_nat (length l)) /\
            drop s (enum_from i l) = enum_from (i + N.of_nat m) (skipn m l).
Proof.
  induction l as [|x r IH]; intros s i.
  - exists 0%nat. cbn. repeat split; try lia.
  - cbn [enum_from drop]. destruct (s =? 0) eqn:E.
    + exists 0%nat. cbn [skipn]. repeat split; try lia.
      replace (i + N.of_nat 0) with i by lia. reflexivity.
    + destruct (IH (s - 1) (i + 1)) as (m & Hm & Hmin & Heq).
      exists (S m). cbn [length skipn]. repeat split; try lia.
      rewrite Heq. apply enum_from_ext. lia.
Qed.

Lemma drop_nseq : forall len s i,
  exists m, (m <= len)%nat /\ N.of_nat m = N.min s (N.of_nat len) /\
            drop s (nseq i len) = nseq (i + N.of_nat m) (len - m).
Proof.
  induction len as [|n IH]; intros s i.
  - exists 0%nat. cbn. repeat split; lia.
  - cbn [nseq drop]. destruct (s =? 0) eqn:E.
    + exists 0%nat. repeat split; try lia.
      replace (i + N.of_nat 0) with i by lia. reflexivity.
    + destruct (IH (s - 1) (i + 1)) as (m & Hm & Hmin & Heq).
      exists (S m). repeat split; try lia.
      rewrite Heq. cbn [Nat.sub]. f_equal. lia.
Qed.

Lemma skipn_skipn' : forall {A} (l : list A) a b, skipn a (skipn b l) = skipn (b + a) l.
Proof.
  intros A l a b. revert l. induction b as [|b IH]; intros l; cbn [skipn Nat.add]; auto.
  destruct l; cbn [skipn]; auto. destruct a; reflexivity.
Qed.

Lemma nseq_app : forall a b i, nseq i (a + b) = nseq i a ++ nseq (i + N.of_nat a) b.
Proof.
  induction a as [|a IH]; intros b i; cbn [nseq Nat.add app].
  - f_equal. lia.
  - rewrite IH. f_equal. f_equal. f_equal. lia.
Qed.

(* ---------- the generic development ---------- *)

Section Resume.
  Context {E D H : Type}.
  Variable h0 : N -> H.
  Variable process : N -> H -> list E -> D -> H * D * bool.

  (* the result of [process] (transaction content, Ok/Err) depends only on the group and the
     database, not on what the handler remembers from earlier groups *)
  Definition memoryless : Prop :=
    forall t h g d, snd (fst (process t h g d)) = snd (fst (process t (h0 t) g d)) /\
                    snd (process t h g d) = snd (process t (h0 t) g d).
  Hypothesis Hmem : memoryless.

  Notation store := (@store D).
  Notation out := (@out D).
  Notation run_loop := (@run_loop E D H process).
  Notation run_task := (@run_task E D H h0 process).
  Notation import_all := (@import_all E D H h0 process).
  Notation run_sessions := (@run_sessions E D H h0 process).
  Notation task_skip := (@task_skip D).

  Record cr := mkCr { c_st : store; c_cm : list (N * N); c_res : res }.
  Definition cres (o : out) : cr := mkCr (o_st o) (commits (o_evs o)) (o_res o).
  Definition cr_pre (pre : list (N * N)) (c : cr) : cr := mkCr (c_st c) (pre ++ c_cm c) (c_res c).

  Lemma cr_pre_nil : forall c, cr_pre [] c = c.
  Proof. destruct c; reflexivity. Qed.
  Lemma cr_pre_pre : forall a b c, cr_pre a (cr_pre b c) = cr_pre (a ++ b) c.
  Proof. intros. unfold cr_pre. cbn. rewrite app_assoc. reflexivity. Qed.

  (* a clean run does not look at the handler memory nor at the session counter *)
  Lemma clean_loop_indep : forall t items h h' st done done',
    cres (run_loop clean t items h st done) = cres (run_loop clean t items h' st done').
  Proof.
    induction items as [|[i g] rest IH]; intros h h' st done done'.
    - reflexivity.
    - cbn [Import.run_loop]. unfold token_cancelled, fail_here. cbn [cancel_at fail_at clean].
      pose proof (Hmem t h g (sdb st)) as [Ha Hb]. pose proof (Hmem t h' g (sdb st)) as [Ha' Hb'].
      assert (Hd : snd (fst (process t h g (sdb st))) = snd (fst (process t h' g (sdb st)))) by congruence.
      assert (Hk : snd (process t h g (sdb st)) = snd (process t h' g (sdb st))) by congruence.
      clear Ha Hb Ha' Hb'.
      destruct (process t h g (sdb st)) as [[h1 d1] ok1].
      destruct (process t h' g (sdb st)) as [[h2 d2] ok2].
      cbn [fst snd] in Hd, Hk. subst d2 ok2.
      destruct ok1.
      + specialize (IH h1 h2 (mkStore d1 (prog_set t i (sprog st))) (done + 1) (done' + 1)).
        unfold cres in *. cbn [o_st o_evs o_res] in *.
        injection IH as I1 I2 I3. rewrite !commits_cons_true. rewrite I1, I2, I3. reflexivity.
      + reflexivity.
  Qed.

  Definition cl (t : N) (items : list (N * list E)) (st : store) : cr :=
    cres (run_loop clean t items (h0 t) st 0).

  Lemma cl_nil : forall t st, cl t [] st = mkCr st [] ROk.
  Proof. reflexivity. Qed.

  Lemma cl_cons : forall t i g rest st h h1 d1,
    process t h g (sdb st) = (h1, d1, true) ->
    cl t ((i, g) :: rest) st = cr_pre [(t, i)] (cl t rest (mkStore d1 (prog_set t i (sprog st)))).
  Proof.
    intros t i g rest st h h1 d1 Ep.
    unfold cl at 1. cbn [Import.run_loop]. unfold token_cancelled, fail_here.
    cbn [cancel_at fail_at clean].
    destruct (Hmem t h g (sdb st)) as [Ha Hb]. rewrite Ep in Ha, Hb. cbn [fst snd] in Ha, Hb.
    destruct (process t (h0 t) g (sdb st)) as [[h2 d2] ok2]. cbn [fst snd] in Ha, Hb.
    subst d2 ok2.
    set (st' := mkStore d1 (prog_set t i (sprog st))).
    set (X := run_loop clean t rest h2 st' (0 + 1)).
    unfold cres at 1. cbn [o_st o_evs o_res]. rewrite commits_cons_true.
    change (cr_pre [(t, i)] (cres X) = cr_pre [(t, i)] (cl t rest st')).
    unfold X, cl. rewrite (clean_loop_indep t rest h2 (h0 t) st' (0 + 1) 0). reflexivity.
  Qed.

  (* one session of one task executes a prefix of what the clean run executes, and leaves the
     clean run exactly the rest *)
  Lemma loop_split : forall p t l i h st done,
    let o := run_loop p t (enum_from i l) h st done in
    exists k, (k <= length l)%nat /\
      cl t (enum_from i l) st = cr_pre (commits (o_evs o)) (cl t (enum_from (i + N.of_nat k) (skipn k l)) (o_st o)) /\
      commits (o_evs o) = map (fun j => (t, j)) (nseq i k) /\
      (o_res o = ROk -> k = length l) /\
      (k = 0%nat -> o_st o = st) /\
      (k <> 0%nat -> prog_get t (sprog (o_st o)) = Some (i + N.of_nat k - 1)) /\
      (forall t', t' <> t -> prog_get t' (sprog (o_st o)) = prog_get t' (sprog st)).
  Proof.
    induction l as [|g r IH]; intros i h st done.
    - exists 0%nat. cbn. repeat split; auto; try lia; try congruence.
    - cbn zeta. cbn [enum_from Import.run_loop].
      assert (Hstop : forall evs rs, commits evs = [] -> rs <> ROk ->
        let o := mkOut st done evs rs in
        exists k, (k <= length (g :: r))%nat /\
          cl t ((i, g) :: enum_from (i + 1) r) st =
            cr_pre (commits (o_evs o)) (cl t (enum_from (i + N.of_nat k) (skipn k (g :: r))) (o_st o)) /\
          commits (o_evs o) = map (fun j => (t, j)) (nseq i k) /\
          (o_res o = ROk -> k = length (g :: r)) /\
          (k = 0%nat -> o_st o = st) /\
          (k <> 0%nat -> prog_get t (sprog (o_st o)) = Some (i + N.of_nat k - 1)) /\
          (forall t', t' <> t -> prog_get t' (sprog (o_st o)) = prog_get t' (sprog st))).
      { intros evs rs Hc Hr. exists 0%nat. cbn [o_evs o_st o_res skipn nseq map length].
        rewrite Hc. repeat split; auto; try lia; try congruence.
        rewrite cr_pre_nil. cbn [enum_from].
        replace (i + N.of_nat 0) with i by lia. replace (i + N.of_nat 0 + 1) with (i + 1) by lia.
        reflexivity. }
      destruct (token_cancelled p done).
      { apply Hstop; [reflexivity | congruence]. }
      destruct (fail_here p t i) as [[| | |]|].
      1-4: apply Hstop; [reflexivity | congruence].
      destruct (process t h g (sdb st)) as [[h1 d1] ok1] eqn:Ep.
      destruct ok1.
      2: { apply Hstop; [reflexivity | congruence]. }
      set (st' := mkStore d1 (prog_set t i (sprog st))).
      destruct (IH (i + 1) h1 st' (done + 1)) as (k & Hk & Hcl & Hcm & Hok & Hz & Hnz & Hoth).
      exists (S k). cbn [o_st o_evs o_res length skipn].
      repeat split.
      + lia.
      + (* the clean run does the same first step *)
        rewrite (cl_cons t i g (enum_from (i + 1) r) st h h1 d1 Ep). fold st'.
        rewrite Hcl. rewrite cr_pre_pre. rewrite commits_cons_true.
        replace (i + N.of_nat (S k)) with (i + 1 + N.of_nat k) by lia.
        reflexivity.
      + rewrite commits_cons_true. cbn [nseq map]. rewrite Hcm. reflexivity.
      + intros Hr. rewrite (Hok Hr). reflexivity.
      + intros; lia.
      + intros _. destruct k.
        * rewrite (Hz eq_refl). unfold st'. cbn [sprog]. rewrite prog_get_set_same. f_equal. lia.
        * rewrite Hnz by lia. f_equal. lia.
      + intros t' Hne. rewrite (Hoth t' Hne). unfold st'. cbn [sprog]. apply prog_get_set_other. exact Hne.
  Qed.

  (* the not yet handled groups of a task, as ImportTask::new + run see them *)
  Definition items_of (t : N) (gs : list (list E)) (st : store) : list (N * list E) :=
    drop (task_skip t st) (enum_from 0 gs).

  Definition ct (t : N) (gs : list (list E)) (st : store) : cr := cres (run_task clean t gs st 0).

  Lemma ct_eq : forall t gs st, ct t gs st = cl t (items_of t gs st) st.
  Proof.
    intros. unfold ct, Import.run_task, items_of. destruct gs as [|g r].
    - reflexivity.
    - destruct (drop (task_skip t st) (enum_from 0 (g :: r))) eqn:Ed.
      + reflexivity.
      + reflexivity.
  Qed.

  Lemma items_of_prog : forall t gs st st2,
    prog_get t (sprog st2) = prog_get t (sprog st) -> items_of t gs st2 = items_of t gs st.
  Proof. intros. unfold items_of, Import.task_skip. rewrite H0. reflexivity. Qed.

  Definition fits (gs : list (list E)) : Prop := N.of_nat (length gs) <= usize_max.

  Lemma task_split : forall p t gs st done, fits gs ->
    let o := run_task p t gs st done in
    ct t gs st = cr_pre (commits (o_evs o)) (ct t gs (o_st o)) /\
    (o_res o = ROk -> items_of t gs (o_st o) = []) /\
    (forall t', t' <> t -> prog_get t' (sprog (o_st o)) = prog_get t' (sprog st)).
  Proof.
    intros p t gs st done Hfit. cbn zeta. rewrite !ct_eq.
    unfold Import.run_task. destruct gs as [|g0 r0].
    { cbn [o_evs o_st commits flat_map]. rewrite cr_pre_nil. repeat split; auto. }
    lazy iota. set (gs := g0 :: r0) in *.
    fold (items_of t gs st).
    destruct (drop_enum gs (task_skip t st) 0) as (m & Hm & Hmin & Hdrop).
    fold (items_of t gs st) in Hdrop.
    destruct (items_of t gs st) as [|it its] eqn:Eit.
    { cbn [o_evs o_st o_res commits flat_map]. rewrite cr_pre_nil. rewrite Eit.
      repeat split; auto. }
    rewrite Hdrop.
    destruct (loop_split p t (skipn m gs) (0 + N.of_nat m) (h0 t) st done)
      as (k & Hk & Hcl & Hcm & Hok & Hz & Hnz & Hoth).
    set (o := run_loop p t (enum_from (0 + N.of_nat m) (skipn m gs)) (h0 t) st done) in *.
    assert (Hlen : length (skipn m gs) = (length gs - m)%nat) by apply skipn_length.
    (* what a restart sees *)
    assert (Hrest : items_of t gs (o_st o) = enum_from (0 + N.of_nat m + N.of_nat k) (skipn k (skipn m gs))).
    { destruct k as [|k'].
      - rewrite (Hz eq_refl). rewrite Eit, Hdrop. cbn [skipn]. apply enum_from_ext. lia.
      - unfold items_of, Import.task_skip. rewrite Hnz by lia.
        unfold fits in Hfit. unfold sat_add.
        replace (N.min usize_max (0 + N.of_nat m + N.of_nat (S k') - 1 + 1)) with (N.of_nat (m + S k')) by lia.
        destruct (drop_enum gs (N.of_nat (m + S k')) 0) as (m2 & Hm2 & Hmin2 & Hdrop2).
        rewrite Hdrop2. assert (m2 = (m + S k')%nat) by lia. subst m2.
        rewrite skipn_skipn'.
        apply enum_from_ext. lia. }
    repeat split.
    - rewrite Hcl. rewrite Hrest. reflexivity.
    - intros Hr. rewrite Hrest. rewrite (Hok Hr). rewrite skipn_all. reflexivity.
    - exact Hoth.
  Qed.

  Definition cA (tasks : list (N * list (list E))) (st : store) : cr := cres (import_all clean tasks st 0).

  Lemma run_task_clean_done : forall t gs st done done',
    cres (run_task clean t gs st done) = cres (run_task clean t gs st done').
  Proof.
    intros. unfold Import.run_task. destruct gs; [reflexivity|].
    destruct (drop (task_skip t st) (enum_from 0 (l :: gs))); [reflexivity|].
    apply clean_loop_indep.
  Qed.

  Lemma import_clean_done : forall tasks st done done',
    cres (import_all clean tasks st done) = cres (import_all clean tasks st done').
  Proof.
    induction tasks as [|[t gs] tl IH]; intros; [reflexivity|].
    cbn [Import.import_all].
    pose proof (run_task_clean_done t gs st done done') as Ht. unfold cres in Ht.
    injection Ht as T1 T2 T3. rewrite T3.
    destruct (o_res (run_task clean t gs st done')).
    - unfold cres. cbn [o_st o_evs o_res]. rewrite !commits_app, T2, T1.
      specialize (IH (o_st (run_task clean t gs st done')) (o_done (run_task clean t gs st done))
                     (o_done (run_task clean t gs st done'))).
      unfold cres in IH. injection IH as I1 I2 I3. rewrite I1, I2, I3. reflexivity.
    - apply run_task_clean_done.
    - apply run_task_clean_done.
  Qed.

  Lemma cA_cons : forall t gs tl st,
    cA ((t, gs) :: tl) st =
      match c_res (ct t gs st) with
      | ROk => cr_pre (c_cm (ct t gs st)) (cA tl (c_st (ct t gs st)))
      | _ => ct t gs st
      end.
  Proof.
    intros. unfold cA at 1. cbn [Import.import_all]. unfold ct. cbn [cres c_res c_cm c_st].
    destruct (o_res (run_task clean t gs st 0)) eqn:Er.
    - unfold cA. rewrite <- (import_clean_done tl _ (o_done (run_task clean t gs st 0)) 0).
      unfold cr_pre, cres. cbn [c_st c_cm c_res o_st o_evs o_res]. rewrite commits_app. reflexivity.
    - unfold cres. rewrite Er. reflexivity.
    - unfold cres. rewrite Er. reflexivity.
  Qed.

  Definition ids (tasks : list (N * list (list E))) : list N := map fst tasks.
  Definition wf_tasks (tasks : list (N * list (list E))) : Prop :=
    NoDup (ids tasks) /\ Forall (fun tg => fits (snd tg)) tasks.

  (* one interrupted session of the whole import *)
  Lemma all_split : forall p tasks st done, wf_tasks tasks ->
    let o := import_all p tasks st done in
    cA tasks st = cr_pre (commits (o_evs o)) (cA tasks (o_st o)) /\
    (forall t', ~ In t' (ids tasks) -> prog_get t' (sprog (o_st o)) = prog_get t' (sprog st)).
  Proof.
    intros p tasks. induction tasks as [|[t gs] tl IH]; intros st done [Hnd Hfit]; cbn zeta.
    - cbn. split; auto.
    - cbn [ids map fst] in Hnd. inversion Hnd as [|? ? Hnotin Hnd']; subst.
      inversion Hfit as [|? ? Hf Hfit']; subst. cbn [snd] in Hf.
      destruct (task_split p t gs st done Hf) as (Hct & Hdone & Hoth).
      cbn [Import.import_all].
      set (o1 := run_task p t gs st done) in *.
      destruct (o_res o1) eqn:Er.
      + (* the task finished in this session; the session goes on with the other tasks *)
        specialize (IH (o_st o1) (o_done o1) (conj Hnd' Hfit')). cbn zeta in IH.
        set (o2 := import_all p tl (o_st o1) (o_done o1)) in *.
        destruct IH as [IHa IHb].
        cbn [o_st o_evs].
        assert (Hct1 : ct t gs (o_st o1) = mkCr (o_st o1) [] ROk).
        { rewrite ct_eq, (Hdone eq_refl). apply cl_nil. }
        assert (Hct2 : ct t gs (o_st o2) = mkCr (o_st o2) [] ROk).
        { rewrite ct_eq. rewrite (items_of_prog t gs (o_st o1) (o_st o2)).
          - rewrite (Hdone eq_refl). apply cl_nil.
          - apply IHb. exact Hnotin. }
        split.
        * rewrite !cA_cons. rewrite Hct, Hct1, Hct2. cbn [cr_pre c_st c_cm c_res].
          rewrite cr_pre_nil. rewrite IHa. rewrite app_nil_r. rewrite cr_pre_pre.
          rewrite commits_app. reflexivity.
        * intros t' Hni. cbn [ids map fst In] in Hni.
          rewrite IHb by tauto. apply Hoth. intros ->. tauto.
      + split.
        * rewrite !cA_cons. rewrite Hct. unfold cr_pre at 1 2. cbn [c_res c_st c_cm].
          destruct (c_res (ct t gs (o_st o1))).
          -- rewrite cr_pre_pre. reflexivity.
          -- reflexivity.
          -- reflexivity.
        * intros t' Hni. cbn [ids map fst In] in Hni. apply Hoth. intros ->. tauto.
      + split.
        * rewrite !cA_cons. rewrite Hct. unfold cr_pre at 1 2. cbn [c_res c_st c_cm].
          destruct (c_res (ct t gs (o_st o1))).
          -- rewrite cr_pre_pre. reflexivity.
          -- reflexivity.
          -- reflexivity.
        * intros t' Hni. cbn [ids map fst In] in Hni. apply Hoth. intros ->. tauto.
  Qed.

  (* any number of interrupted sessions *)
  Lemma sessions_split : forall plans tasks st, wf_tasks tasks ->
    cA tasks st =
      cr_pre (flat_map (fun o => commits (o_evs o)) (snd (run_sessions plans tasks st)))
             (cA tasks (fst (run_sessions plans tasks st))).
  Proof.
    induction plans as [|p ps IH]; intros tasks st Hwf.
    - cbn. rewrite cr_pre_nil. reflexivity.
    - cbn [Import.run_sessions].
      destruct (all_split p tasks st 0 Hwf) as [Ha _]. cbn zeta in Ha.
      specialize (IH tasks (o_st (import_all p tasks st 0)) Hwf).
      destruct (run_sessions ps tasks (o_st (import_all p tasks st 0))) as [stf l] eqn:Ers.
      cbn [fst snd flat_map] in *.
      rewrite Ha, IH, cr_pre_pre. reflexivity.
  Qed.

  Lemma resume_equiv_all : forall tasks st0 plans, wf_tasks tasks ->
    let sti := fst (run_sessions plans tasks st0) in
    let outs := snd (run_sessions plans tasks st0) in
    let fin := import_all clean tasks sti 0 in
    let uni := import_all clean tasks st0 0 in
    o_st fin = o_st uni /\ o_res fin = o_res uni /\
    flat_map (fun o => commits (o_evs o)) outs ++ commits (o_evs fin) = commits (o_evs uni).
  Proof.
    intros tasks st0 plans Hwf. cbn zeta.
    pose proof (sessions_split plans tasks st0 Hwf) as Hs.
    unfold cA, cres, cr_pre in Hs. cbn [c_st c_cm c_res] in Hs.
    injection Hs as H1 H2 H3. repeat split; congruence.
  Qed.

  (* what the uninterrupted import applies: exactly the pending groups, in order *)
  Lemma clean_task_commits : forall t gs st, fits gs ->
    exists k, c_cm (ct t gs st) =
      map (fun j => (t, j)) (firstn k (drop (task_skip t st) (nseq 0 (length gs)))) /\
      (c_res (ct t gs st) = ROk ->
         c_cm (ct t gs st) = map (fun j => (t, j)) (drop (task_skip t st) (nseq 0 (length gs)))) /\
      (forall t', t' <> t -> prog_get t' (sprog (c_st (ct t gs st))) = prog_get t' (sprog st)).
  Proof.
    intros t gs st Hfit. rewrite ct_eq. unfold items_of.
    destruct (drop_enum gs (task_skip t st) 0) as (m & Hm & Hmin & Hdrop).
    destruct (drop_nseq (length gs) (task_skip t st) 0) as (m' & Hm' & Hmin' & Hdrop').
    assert (m' = m) by lia. subst m'.
    rewrite Hdrop, Hdrop'.
    destruct (loop_split clean t (skipn m gs) (0 + N.of_nat m) (h0 t) st 0)
      as (k & Hk & _ & Hcm & Hok & _ & _ & Hoth).
    unfold cl, cres. cbn [c_cm c_res c_st].
    rewrite skipn_length in Hk.
    exists k. repeat split.
    - rewrite Hcm. f_equal.
      replace (length gs - m)%nat with (k + (length gs - m - k))%nat by lia.
      rewrite nseq_app. rewrite firstn_app.
      assert (Hl : forall i n, length (nseq i n) = n).
      { intros i n; revert i; induction n; intros; cbn; auto. }
      rewrite Hl. rewrite Nat.sub_diag. cbn [firstn]. rewrite app_nil_r.
      rewrite firstn_all2 by (rewrite Hl; lia). reflexivity.
    - intros Hr. rewrite Hcm. rewrite (Hok Hr). rewrite skipn_length. reflexivity.
    - exact Hoth.
  Qed.

  Lemma pending_of_cons : forall t (gs : list (list E)) tl prog,
    pending_of prog ((t, gs) :: tl) =
      map (fun i => (t, i))
          (drop (match prog_get t prog with Some i => sat_add usize_max i 1 | None => 0 end)
                (nseq 0 (length gs))) ++ pending_of prog tl.
  Proof. reflexivity. Qed.

  Lemma pending_of_ext : forall (tasks : list (N * list (list E))) prog prog',
    (forall t, In t (ids tasks) -> prog_get t prog' = prog_get t prog) ->
    pending_of prog' tasks = pending_of prog tasks.
  Proof.
    induction tasks as [|[t gs] tl IH]; intros prog prog' Hext; [reflexivity|].
    unfold pending_of. cbn [flat_map fst snd].
    rewrite (Hext t) by (cbn; auto).
    f_equal. apply IH. intros t' Hin. apply Hext. cbn. auto.
  Qed.

  Lemma clean_commits_pending : forall tasks st, wf_tasks tasks ->
    c_res (cA tasks st) = ROk -> c_cm (cA tasks st) = pending_of (sprog st) tasks.
  Proof.
    induction tasks as [|[t gs] tl IH]; intros st [Hnd Hfit] Hr.
    - reflexivity.
    - cbn [ids map fst] in Hnd. inversion Hnd as [|? ? Hnotin Hnd']; subst.
      inversion Hfit as [|? ? Hf Hfit']; subst. cbn [snd] in Hf.
      rewrite cA_cons in *.
      destruct (clean_task_commits t gs st Hf) as (k & _ & Hok & Hoth).
      destruct (c_res (ct t gs st)) eqn:Er; try congruence.
      unfold cr_pre in *. cbn [c_res c_cm] in *.
      rewrite (Hok eq_refl). rewrite (IH _ (conj Hnd' Hfit') Hr).
      rewrite pending_of_cons. unfold Import.task_skip. f_equal.
      apply pending_of_ext. intros t' Hin. apply Hoth. intros ->. tauto.
  Qed.
End Resume.

(* ---------- the hypothesis is needed: a handler that numbers its groups ---------- *)

Definition count_process (t : N) (h : N) (g : list N) (d : list N) : N * list N * bool :=
  (h + 1, d ++ [h], true).

Lemma memoryless_needed_witness :
  let tasks := [(0, [[7]; [8]])] in
  let st0 := mkStore ([] : list N) [] in
  let plans := [mkPlan (Some 1) None] in
  let sti := fst (run_sessions (fun _ => 0) count_process plans tasks st0) in
  o_st (import_all (fun _ => 0) count_process clean tasks sti 0)
    <> o_st (import_all (fun _ => 0) count_process clean tasks st0 0).
Proof. vm_compute. intros Heq. discriminate Heq. Qed.

(* ---------- the instantiation of the correspondence check ---------- *)

Lemma processC_memoryless : memoryless h0C processC.
Proof. intros t [] g d. split; reflexivity. Qed.

Lemma nseq_NoDup : forall n i, NoDup (nseq i n) /\ forall j, In j (nseq i n) -> i <= j.
Proof.
  induction n as [|n IH]; intros i; cbn [nseq].
  - split; [constructor | intros j []].
  - destruct (IH (i + 1)) as [Hnd Hge]. split.
    + constructor; auto. intros Hin. apply Hge in Hin. lia.
    + intros j [<- | Hin]; [lia | apply Hge in Hin; lia].
Qed.

Lemma NoDup_app_intro' : forall {A} (a b : list A),
  NoDup a -> NoDup b -> (forall x, In x a -> In x b -> False) -> NoDup (a ++ b).
Proof.
  induction a as [|x a IH]; intros b Ha Hb Hd; cbn [app]; auto.
  inversion Ha as [|? ? Hn Ha']; subst. constructor.
  - intros Hin. apply in_app_or in Hin as [Hin|Hin]; [tauto | apply (Hd x); cbn; auto].
  - apply IH; auto. intros y Hy. apply Hd. cbn. auto.
Qed.

Lemma NoDup_map_pair : forall (t : N) l, NoDup l -> NoDup (map (fun j : N => (t, j)) l).
Proof.
  induction l as [|x l IH]; intros Hnd; cbn [map]; [constructor|].
  inversion Hnd as [|? ? Hn Hnd']; subst. constructor; auto.
  intros Hin. apply in_map_iff in Hin as (y & Hy & Hin). injection Hy as ->. tauto.
Qed.

(* in [all_groups] every group of every task occurs exactly once *)
Lemma all_groups_NoDup : forall {E} (tasks : list (N * list (list E))),
  NoDup (map fst tasks) -> NoDup (all_groups tasks).
Proof.
  induction tasks as [|[t gs] tl IH]; intros Hnd; cbn [all_groups flat_map].
  - constructor.
  - inversion Hnd as [|? ? Hnotin Hnd']; subst. cbn [fst snd].
    apply NoDup_app_intro'.
    + apply NoDup_map_pair, nseq_NoDup.
    + apply IH, Hnd'.
    + intros [a b] Hin1 Hin2. apply in_map_iff in Hin1 as (j & Hj & _). injection Hj as <- <-.
      apply in_flat_map in Hin2 as ([t' gs'] & Hin' & Hin2). cbn [fst snd] in Hin2.
      apply in_map_iff in Hin2 as (j' & Hj' & _). injection Hj' as -> _.
      apply Hnotin. apply in_map_iff. exists (t, gs'). split; auto.
Qed.

Lemma all_groups_complete : forall {E} (tasks : list (N * list (list E))) t gs i,
  In (t, gs) tasks -> i < N.of_nat (length gs) -> In (t, i) (all_groups tasks).
Proof.
  intros E tasks t gs i Hin Hi. unfold all_groups. apply in_flat_map. exists (t, gs). split; auto.
  cbn [fst snd]. apply in_map.
  assert (Hs : forall n s j, s <= j < s + N.of_nat n -> In j (nseq s n)).
  { induction n as [|n IHn]; intros s j Hj; cbn [nseq]; [lia|].
    destruct (N.eq_dec s j); [left; auto | right; apply IHn; lia]. }
  apply Hs. lia.
Qed.

Lemma pending_fresh : forall {E} (tasks : list (N * list (list E))) prog,
  (forall t, In t (map fst tasks) -> prog_get t prog = None) ->
  pending_of prog tasks = all_groups tasks.
Proof.
  induction tasks as [|[t gs] tl IH]; intros prog Hfresh; [reflexivity|].
  unfold pending_of, all_groups. cbn [flat_map fst snd].
  rewrite (Hfresh t) by (cbn; auto). f_equal.
  - destruct (length gs); reflexivity.
  - apply IH. intros t' Hin. apply Hfresh. cbn. auto.
Qed.

Lemma resume_once_all :
  forall (E D H : Type) (h0 : N -> H) (process : N -> H -> list E -> D -> H * D * bool),
  memoryless h0 process ->
  forall (tasks : list (N * list (list E))) (st0 : @store D) (plans : list plan),
  wf_tasks tasks ->
  (forall t, In t (map fst tasks) -> prog_get t (sprog st0) = None) ->
  o_res (import_all h0 process clean tasks st0 0) = ROk ->
  let sti := fst (run_sessions h0 process plans tasks st0) in
  let outs := snd (run_sessions h0 process plans tasks st0) in
  let fin := import_all h0 process clean tasks sti 0 in
  o_res fin = ROk /\
  flat_map (fun o => commits (o_evs o)) outs ++ commits (o_evs fin) = all_groups tasks /\
  NoDup (all_groups tasks) /\
  (forall t gs i, In (t, gs) tasks -> i < N.of_nat (length gs) -> In (t, i) (all_groups tasks)).
Proof.
  intros E D H h0 process Hmem tasks st0 plans Hwf Hfresh Hok. cbn zeta.
  destruct (resume_equiv_all h0 process Hmem tasks st0 plans Hwf) as (Hst & Hres & Happ).
  split; [congruence|]. split; [|split].
  - rewrite Happ.
    pose proof (clean_commits_pending h0 process Hmem tasks st0 Hwf) as Hp.
    unfold cA, cres in Hp. cbn [c_res c_cm] in Hp. rewrite (Hp Hok).
    apply pending_fresh. exact Hfresh.
  - apply all_groups_NoDup. apply Hwf.
  - intros t gs i. apply all_groups_complete.
Qed.
