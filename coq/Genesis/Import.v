(* Executable model of the resumable genesis import (C40):
     crates/fuel-core/src/service/genesis/importer/import_task.rs   ImportTask::{new, run}
     crates/fuel-core/src/service/genesis/importer.rs               spawn_worker_{on,off}_chain, run_workers
     crates/fuel-core/src/database/genesis_progress.rs              GenesisMetadata rows (progress)
     crates/fuel-core/src/service/genesis/task_manager.rs           CancellationToken::is_cancelled
   The group type, the database and the handler are parameters of the generic part; the
   instantiation used by the correspondence check follows.  No proofs in this file. *)
From FC Require Export Common.T.
Open Scope N_scope.

Definition usize_max : N := u64max.

(* GenesisMetadata<DbDesc>: migration name -> index of the last handled group *)
Fixpoint prog_get (t : N) (l : list (N * N)) : option N :=
  match l with
  | [] => None
  | (k, v) :: r => if k =? t then Some v else prog_get t r
  end.
Fixpoint prog_set (t i : N) (l : list (N * N)) : list (N * N) :=
  match l with
  | [] => [(t, i)]
  | (k, v) :: r => if k =? t then (k, i) :: r else (k, v) :: prog_set t i r
  end.

(* groups.into_iter().enumerate() / .skip(n) *)
Fixpoint enum_from {A} (i : N) (l : list A) : list (N * A) :=
  match l with
  | [] => []
  | x :: r => (i, x) :: enum_from (i + 1) r
  end.
Fixpoint drop {A} (k : N) (l : list A) : list A :=
  match l with
  | [] => []
  | x :: r => if k =? 0 then l else drop (k - 1) r
  end.

(* what the environment does to one session (one start of the node):
   the cancellation signal fires once [c] groups were completed in this session;
   the attempt on group [i] of task [t] fails: reading the group, in the handler before it
   wrote anything, after it wrote the first half of the group, after it wrote all of it
   (the transaction is dropped in every case) *)
Inductive fkind := FRead | FBefore | FMid | FAfter.
Record plan := mkPlan { cancel_at : option N; fail_at : option (N * N * fkind) }.
Definition clean : plan := mkPlan None None.

Definition token_cancelled (p : plan) (done : N) : bool :=
  match cancel_at p with Some c => c <=? done | None => false end.
Definition fail_here (p : plan) (t i : N) : option fkind :=
  match fail_at p with
  | Some (t', i', k) => if (t' =? t) && (i' =? i) then Some k else None
  | None => None
  end.

Inductive res := ROk | RCancelled | RFail.

(* a call of the handler: task, group index, committed? *)
Definition ev := (N * N * bool)%type.

Section Import.
  Context {E D H : Type}.
  Variable h0 : N -> H.                                      (* Handler::new *)
  (* ImportTable::process of task [t] with handler memory [h] on a transaction over [d]:
     new memory, the transaction's content, Ok? *)
  Variable process : N -> H -> list E -> D -> H * D * bool.

  Record store := mkStore { sdb : D; sprog : list (N * N) }.
  Record out := mkOut { o_st : store; o_done : N; o_evs : list ev; o_res : res }.

  (* ImportTask::new: skip = stored progress + 1 *)
  Definition task_skip (t : N) (st : store) : N :=
    match prog_get t (sprog st) with
    | Some idx_last_handled => sat_add usize_max idx_last_handled 1
    | None => 0
    end.

  (* the try_for_each of ImportTask::run over the not skipped groups; [done] counts the
     groups completed in this session (what the cancellation signal looks at) *)
  Fixpoint run_loop (p : plan) (t : N) (items : list (N * list E)) (h : H) (st : store)
           (done : N) : out :=
    match items with
    | [] => mkOut st done [] ROk
    | (i, g) :: rest =>
        if token_cancelled p done then mkOut st done [] RCancelled       (* take_while *)
        else
          match fail_here p t i with
          | Some FRead => mkOut st done [] RFail                         (* group? *)
          | Some FBefore => mkOut st done [] RFail
          | Some FMid => mkOut st done [(t, i, false)] RFail             (* tx dropped *)
          | Some FAfter => mkOut st done [(t, i, false)] RFail           (* tx dropped *)
          | None =>
              let '(h', d', ok) := process t h g (sdb st) in
              if ok then
                (* update_genesis_progress(index) and tx.commit(): one transaction *)
                let o := run_loop p t rest h' (mkStore d' (prog_set t i (sprog st))) (done + 1) in
                mkOut (o_st o) (o_done o) ((t, i, true) :: o_evs o) (o_res o)
              else mkOut st done [(t, i, false)] RFail                   (* tx dropped *)
          end
    end.

  (* spawn_worker_*: nothing for a table without groups; else ImportTask::new + run
     (is_cancelled keeps its initial value when no group is left) *)
  Definition run_task (p : plan) (t : N) (gs : list (list E)) (st : store) (done : N) : out :=
    match gs with
    | [] => mkOut st done [] ROk
    | _ =>
        match drop (task_skip t st) (enum_from 0 gs) with
        | [] => mkOut st done [] (if token_cancelled p done then RCancelled else ROk)
        | items => run_loop p t items (h0 t) st done
        end
    end.

  (* run_workers with every task run in place (TaskManager::run), stopping at the first error *)
  Fixpoint import_all (p : plan) (tasks : list (N * list (list E))) (st : store) (done : N) : out :=
    match tasks with
    | [] => mkOut st done [] ROk
    | (t, gs) :: tl =>
        let o := run_task p t gs st done in
        match o_res o with
        | ROk =>
            let o2 := import_all p tl (o_st o) (o_done o) in
            mkOut (o_st o2) (o_done o2) (o_evs o ++ o_evs o2) (o_res o2)
        | _ => o
        end
    end.

  (* a sequence of interrupted sessions; each starts the import again on what is stored *)
  Fixpoint run_sessions (plans : list plan) (tasks : list (N * list (list E))) (st : store)
    : store * list out :=
    match plans with
    | [] => (st, [])
    | p :: ps =>
        let o := import_all p tasks st 0 in
        let '(stf, l) := run_sessions ps tasks (o_st o) in
        (stf, o :: l)
    end.
End Import.

Arguments mkStore {D}.
Arguments sdb {D}.
Arguments sprog {D}.
Arguments mkOut {D}.
Arguments o_st {D}.
Arguments o_done {D}.
Arguments o_evs {D}.
Arguments o_res {D}.

Definition commits (evs : list ev) : list (N * N) :=
  flat_map (fun e : ev => let '(t, i, c) := e in if c then [(t, i)] else []) evs.

(* the groups an import has to apply: every index of every task, in order *)
Fixpoint nseq (start : N) (len : nat) : list N :=
  match len with O => [] | S n => start :: nseq (start + 1) n end.
Definition all_groups {E} (tasks : list (N * list (list E))) : list (N * N) :=
  flat_map (fun tg : N * list (list E) => map (fun i => (fst tg, i)) (nseq 0 (length (snd tg)))) tasks.
(* ... those not yet covered by the stored progress *)
Definition pending_of {E} (prog : list (N * N)) (tasks : list (N * list (list E))) : list (N * N) :=
  flat_map (fun tg : N * list (list E) =>
              let skip := match prog_get (fst tg) prog with
                          | Some i => sat_add usize_max i 1 | None => 0 end in
              map (fun i => (fst tg, i)) (drop skip (nseq 0 (length (snd tg))))) tasks.

(* SnapshotReader / itertools chunks(group_size) *)
Fixpoint chunks_aux {A} (g : nat) (cur : list A) (room : nat) (l : list A) : list (list A) :=
  match l with
  | [] => match cur with [] => [] | _ => [rev cur] end
  | x :: r =>
      match room with
      | O => rev cur :: chunks_aux g [x] (pred g) r
      | S m => chunks_aux g (x :: cur) m r
      end
  end.
Definition chunks {A} (g : nat) (l : list A) : list (list A) := chunks_aux g [] g l.

(* ------------------------------------------------------------------------------------ *)
(* The instantiation run against the implementation.
   Entries are pairs (key, value).  Database = the two tables written by the recording
   handlers of the harness (sorted by key).
     task 100  "Coins -> Coins"       insert (k, v); error if k is present
     task 101  "Messages -> Messages" insert (k, v + amount of coin k, 0 if none); error if present
     other     a real handler over a generated snapshot: the database is opaque (compared by
               digest); it fails on a group holding an entry marked bad (key 1)                *)

Fixpoint tbl_get (k : N) (l : list (N * N)) : option N :=
  match l with
  | [] => None
  | (k', v) :: r => if k' =? k then Some v else tbl_get k r
  end.
Fixpoint tbl_ins (k v : N) (l : list (N * N)) : list (N * N) :=
  match l with
  | [] => [(k, v)]
  | (k', v') :: r => if k <? k' then (k, v) :: l else (k', v') :: tbl_ins k v r
  end.

Definition cdb := (list (N * N) * list (N * N))%type.

Fixpoint rec_coins (g : list (N * N)) (d : cdb) : cdb * bool :=
  match g with
  | [] => (d, true)
  | (k, v) :: r =>
      match tbl_get k (fst d) with
      | Some _ => (d, false)
      | None => rec_coins r (tbl_ins k v (fst d), snd d)
      end
  end.
Fixpoint rec_msgs (g : list (N * N)) (d : cdb) : cdb * bool :=
  match g with
  | [] => (d, true)
  | (k, v) :: r =>
      match tbl_get k (snd d) with
      | Some _ => (d, false)
      | None =>
          let add := match tbl_get k (fst d) with Some a => a | None => 0 end in
          rec_msgs r (fst d, tbl_ins k (v + add) (snd d))
      end
  end.
Definition opaque_ok (g : list (N * N)) : bool := forallb (fun e => negb (fst e =? 1)) g.

Definition processC (t : N) (h : unit) (g : list (N * N)) (d : cdb) : unit * cdb * bool :=
  if t =? 100 then let '(d', ok) := rec_coins g d in (tt, d', ok)
  else if t =? 101 then let '(d', ok) := rec_msgs g d in (tt, d', ok)
  else (tt, d, opaque_ok g).
Definition h0C (_ : N) : unit := tt.

(* tasks of a generated snapshot (mode 1): table sizes -> groups of group size g, in the
   order of run_workers; [bad] marks one coin *)
Definition plain_entries (n : N) : list (N * N) := map (fun i => (0, i)) (nseq 0 (N.to_nat n)).
Definition coin_entries (n : N) (bad : option N) : list (N * N) :=
  map (fun i => (match bad with Some b => if b =? i then 1 else 0 | None => 0 end, i)) (nseq 0 (N.to_nat n)).
Definition sumN (l : list N) : N := fold_right N.add 0 l.

Definition snapshot_tasks (g n_coins n_msgs n_blobs : N) (contracts : list (N * N)) (bad : option N)
  : list (N * list (list (N * N))) :=
  let gs := N.to_nat g in
  let nc := N.of_nat (length contracts) in
  [ (0, chunks gs (coin_entries n_coins bad));
    (1, chunks gs (plain_entries n_msgs));
    (2, chunks gs (plain_entries n_blobs));
    (3, chunks gs (plain_entries nc));
    (4, chunks gs (plain_entries nc));
    (5, chunks gs (plain_entries (sumN (map fst contracts))));
    (6, chunks gs (plain_entries (sumN (map snd contracts))));
    (13, chunks gs (plain_entries n_msgs));
    (14, chunks gs (plain_entries n_coins));
    (18, chunks gs (plain_entries nc)) ].

(* ------------------------------------------------------------------------------------ *)
(* Pcheck of C40 on an observation.
   observation = (sessions final uninterrupted digests dump)
     session/final/uninterrupted = (res events progress-rows)
     digests = (on off on_u off_u): interrupted-and-resumed vs uninterrupted, both databases *)

Record sess := mkSess { s_res : N; s_evs : list ev; s_prog : list (N * option N) }.

Definition pairN_eqb (a b : N * N) : bool := (fst a =? fst b) && (snd a =? snd b).
Fixpoint list_eqb {A} (eqb : A -> A -> bool) (a b : list A) : bool :=
  match a, b with
  | [], [] => true
  | x :: a', y :: b' => eqb x y && list_eqb eqb a' b'
  | _, _ => false
  end.
Definition optN_eqb (a b : option N) : bool :=
  match a, b with
  | None, None => true
  | Some x, Some y => x =? y
  | _, _ => false
  end.
Definition prow_eqb (a b : N * option N) : bool := (fst a =? fst b) && optN_eqb (snd a) (snd b).
Fixpoint is_prefix (a b : list (N * N)) : bool :=
  match a, b with
  | [], _ => true
  | x :: a', y :: b' => pairN_eqb x y && is_prefix a' b'
  | _ :: _, [] => false
  end.

(* 1 holds; 2 a database differs; 3 a group was applied twice / skipped / out of order;
   4 result or progress rows differ *)
Definition c40_code (pending : list (N * N)) (sessions : list sess) (final unint : sess)
           (digs : list N) : N :=
  let applied := flat_map (fun s => commits (s_evs s)) sessions ++ commits (s_evs final) in
  if negb (match digs with [a; b; c; d] => (a =? c) && (b =? d) | _ => false end) then 2
  else if negb (list_eqb pairN_eqb applied (commits (s_evs unint))) then 3
  else if negb (if s_res final =? 0 then list_eqb pairN_eqb applied pending
                else is_prefix applied pending) then 3
  else if negb ((s_res final =? s_res unint) && list_eqb prow_eqb (s_prog final) (s_prog unint)) then 4
  else 1.

(* ------------------------------------------------------------------------------------ *)
(* T codecs *)

Definition T_pair (t : T) : option (N * N) :=
  match t with
  | L [a; b] => match getN a, getN b with Some a, Some b => Some (a, b) | _, _ => None end
  | _ => None
  end.
Definition T_group (t : T) : option (list (N * N)) :=
  match t with L l => mapM T_pair l | _ => None end.
Definition T_task (t : T) : option (N * list (list (N * N))) :=
  match t with
  | L [tid; L gs] =>
      match getN tid, mapM T_group gs with Some tid, Some gs => Some (tid, gs) | _, _ => None end
  | _ => None
  end.
Definition T_fkind (t : T) : option fkind :=
  match t with
  | I 0%Z => Some FRead | I 1%Z => Some FBefore | I 2%Z => Some FMid | I 3%Z => Some FAfter
  | _ => None
  end.
Definition T_plan (t : T) : option plan :=
  match t with
  | L [c; L []] => match getOptN c with Some c => Some (mkPlan c None) | None => None end
  | L [c; L [tid; idx; k]] =>
      match getOptN c, getN tid, getN idx, T_fkind k with
      | Some c, Some tid, Some idx, Some k => Some (mkPlan c (Some (tid, idx, k)))
      | _, _, _, _ => None
      end
  | _ => None
  end.

Definition res_tag (r : res) : N := match r with ROk => 0 | RCancelled => 1 | RFail => 2 end.
Definition ev_T (e : ev) : T := let '(t, i, c) := e in L [tN t; tN i; tB c].
Definition T_ev (t : T) : option ev :=
  match t with
  | L [a; b; c] =>
      match getN a, getN b, getB c with Some a, Some b, Some c => Some (a, b, c) | _, _, _ => None end
  | _ => None
  end.
Definition tbl_T (l : list (N * N)) : T := L (map (fun kv => L [tN (fst kv); tN (snd kv)]) l).

Definition prog_rows (ids : list N) (prog : list (N * N)) : list (N * option N) :=
  map (fun t => (t, prog_get t prog)) ids.
Definition sess_T (s : sess) : T :=
  L [tN (s_res s); L (map ev_T (s_evs s)); L (map (fun r => L [tN (fst r); tOptN (snd r)]) (s_prog s))].
Definition T_prow (t : T) : option (N * option N) :=
  match t with
  | L [a; o] => match getN a, getOptN o with Some a, Some o => Some (a, o) | _, _ => None end
  | _ => None
  end.
Definition T_sess (t : T) : option sess :=
  match t with
  | L [r; L evs; L rows] =>
      match getN r, mapM T_ev evs, mapM T_prow rows with
      | Some r, Some evs, Some rows => Some (mkSess r evs rows)
      | _, _, _ => None
      end
  | _ => None
  end.

Definition sess_of (ids : list N) (o : @out cdb) : sess :=
  mkSess (res_tag (o_res o)) (o_evs o) (prog_rows ids (sprog (o_st o))).

(* model of one case: sessions, the final run to completion, the uninterrupted import *)
Definition c40_model (tasks : list (N * list (list (N * N)))) (init : list (N * N)) (plans : list plan)
  : list sess * sess * sess * cdb :=
  let ids := map fst tasks in
  let st0 := mkStore (([], []) : cdb) init in
  let '(sti, outs) := run_sessions h0C processC plans tasks st0 in
  let fin := import_all h0C processC clean tasks sti 0 in
  let uni := import_all h0C processC clean tasks st0 0 in
  (map (sess_of ids) outs, sess_of ids fin, sess_of ids uni, sdb (o_st fin)).

Definition decode_tasks (mode : N) (spec : T) : option (list (N * list (list (N * N)))) :=
  if mode =? 0 then
    match spec with L ts => mapM T_task ts | _ => None end
  else
    match spec with
    | L [_seed; g; nc; nm; nb; L cs; bad] =>
        match getN g, getN nc, getN nm, getN nb, mapM T_pair cs, getOptN bad with
        | Some g, Some nc, Some nm, Some nb, Some cs, Some bad =>
            if g =? 0 then None else Some (snapshot_tasks g nc nm nb cs bad)
        | _, _, _, _, _, _ => None
        end
    | _ => None
    end.

Definition main40 (input observed : T) : T :=
  match input with
  | L [mode; spec; L init; L plans] =>
      match getN mode with
      | Some mode =>
          match decode_tasks mode spec, mapM T_pair init, mapM T_plan plans with
          | Some tasks, Some init, Some plans =>
              let '(ss, fin, uni, d) := c40_model tasks init plans in
              (* the digests are the implementation's (the model does not hash) *)
              let digs := match observed with L [_; _; _; dg; _] => dg | _ => L [] end in
              let dump := if mode =? 0 then L [tbl_T (fst d); tbl_T (snd d)] else L [] in
              let model := L [L (map sess_T ss); sess_T fin; sess_T uni; digs; dump] in
              let pc :=
                match observed with
                | L [L oss; ofin; ouni; dg; _] =>
                    match mapM T_sess oss, T_sess ofin, T_sess ouni, getListN dg with
                    | Some oss, Some ofin, Some ouni, Some dg =>
                        c40_code (pending_of init tasks) oss ofin ouni dg
                    | _, _, _, _ => 0
                    end
                | _ => 0
                end in
              L [model; tN pc]
          | _, _, _ => tErr 2
          end
      | None => tErr 3
      end
  | _ => tErr 1
  end.
