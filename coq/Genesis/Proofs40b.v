(* C40: meaning of the checker; the model's own trace passes it for every schedule. *)
From FC Require Import Genesis.Import Genesis.Proofs40.
From Coq Require Import ZifyBool ZifyN ZifyNat.
Open Scope N_scope.

(* ---------- decidable equalities ---------- *)

Lemma pairN_eqb_eq : forall a b, pairN_eqb a b = true <-> a = b.
Proof.
  intros [a1 a2] [b1 b2]. unfold pairN_eqb. cbn [fst snd]. rewrite andb_true_iff, !N.eqb_eq.
  split; [intros [-> ->]; reflexivity | intros Heq; injection Heq; auto].
Qed.

Lemma list_eqb_eq : forall {A} (eqb : A -> A -> bool),
  (forall x y, eqb x y = true <-> x = y) -> forall a b, list_eqb eqb a b = true <-> a = b.
Proof.
  intros A eqb Heqb. induction a as [|x a IH]; intros [|y b]; cbn [list_eqb].
  - tauto.
  - split; discriminate.
  - split; discriminate.
  - rewrite andb_true_iff, Heqb, IH. split; [intros [-> ->]; reflexivity | intros Heq; injection Heq; auto].
Qed.

Lemma optN_eqb_eq : forall a b, optN_eqb a b = true <-> a = b.
Proof.
  intros [a|] [b|]; cbn [optN_eqb]; try (split; [discriminate | intros; discriminate]); try tauto.
  rewrite N.eqb_eq. split; [intros ->; reflexivity | intros Heq; injection Heq; auto].
Qed.

Lemma prow_eqb_eq : forall a b, prow_eqb a b = true <-> a = b.
Proof.
  intros [a1 a2] [b1 b2]. unfold prow_eqb. cbn [fst snd]. rewrite andb_true_iff, N.eqb_eq, optN_eqb_eq.
  split; [intros [-> ->]; reflexivity | intros Heq; injection Heq; auto].
Qed.

Lemma is_prefix_iff : forall a b, is_prefix a b = true <-> exists rest, b = a ++ rest.
Proof.
  induction a as [|x a IH]; intros b; cbn [is_prefix].
  - split; [intros _; exists b; reflexivity | reflexivity].
  - destruct b as [|y b].
    + split; [discriminate | intros [rest Hr]; discriminate].
    + rewrite andb_true_iff, pairN_eqb_eq, IH. split.
      * intros [-> [rest ->]]. exists rest. reflexivity.
      * intros [rest Hr]. injection Hr as -> ->. split; auto. exists rest. reflexivity.
Qed.

(* ---------- what the checker decides ---------- *)

Definition applied_of (sessions : list sess) (final : sess) : list (N * N) :=
  flat_map (fun s => commits (s_evs s)) sessions ++ commits (s_evs final).

(* the resumed import against the uninterrupted one and against the snapshot:
   both databases equal; the committed groups, over all sessions, are those of the
   uninterrupted import, and are exactly the pending groups in order (all of them when the
   import completes, a prefix when the snapshot itself is not importable); same result and
   same progress rows *)
Definition C40Spec (pending : list (N * N)) (sessions : list sess) (final unint : sess) (digs : list N) : Prop :=
  (exists a b, digs = [a; b; a; b]) /\
  applied_of sessions final = commits (s_evs unint) /\
  (if s_res final =? 0 then applied_of sessions final = pending
   else exists rest, pending = applied_of sessions final ++ rest) /\
  s_res final = s_res unint /\ s_prog final = s_prog unint.

Lemma c40_code_iff : forall pending sessions final unint digs,
  c40_code pending sessions final unint digs = 1 <-> C40Spec pending sessions final unint digs.
Proof.
  intros. unfold c40_code, C40Spec. fold (applied_of sessions final).
  assert (Hd : (match digs with [a; b; c; d] => (a =? c) && (b =? d) | _ => false end) = true
               <-> exists a b, digs = [a; b; a; b]).
  { destruct digs as [|a [|b [|c [|d [|e r]]]]];
      try (split; [discriminate | intros (x & y & Hxy); discriminate]).
    rewrite andb_true_iff, !N.eqb_eq. split.
    - intros [-> ->]. eauto.
    - intros (x & y & Hxy). injection Hxy as -> -> -> ->. auto. }
  destruct (match digs with [a; b; c; d] => (a =? c) && (b =? d) | _ => false end) eqn:E1; cbn [negb].
  2: { split; [discriminate|]. intros [H1 _]. apply Hd in H1. discriminate. }
  destruct (list_eqb pairN_eqb (applied_of sessions final) (commits (s_evs unint))) eqn:E2; cbn [negb].
  2: { split; [discriminate|]. intros (_ & H2 & _). apply (list_eqb_eq pairN_eqb pairN_eqb_eq) in H2. congruence. }
  apply (list_eqb_eq pairN_eqb pairN_eqb_eq) in E2.
  assert (H3 : (if s_res final =? 0 then list_eqb pairN_eqb (applied_of sessions final) pending
                else is_prefix (applied_of sessions final) pending) = true <->
               (if s_res final =? 0 then applied_of sessions final = pending
                else exists rest, pending = applied_of sessions final ++ rest)).
  { destruct (s_res final =? 0); [apply (list_eqb_eq pairN_eqb pairN_eqb_eq) | apply is_prefix_iff]. }
  destruct (if s_res final =? 0 then list_eqb pairN_eqb (applied_of sessions final) pending
            else is_prefix (applied_of sessions final) pending) eqn:E3; cbn [negb].
  2: { split; [discriminate|]. intros (_ & _ & H & _). apply H3 in H. discriminate. }
  destruct ((s_res final =? s_res unint) && list_eqb prow_eqb (s_prog final) (s_prog unint)) eqn:E4; cbn [negb].
  - apply andb_true_iff in E4 as [E4a E4b]. apply N.eqb_eq in E4a.
    apply (list_eqb_eq prow_eqb prow_eqb_eq) in E4b.
    split; [intros _ | reflexivity]. repeat split; auto. apply Hd; reflexivity. apply H3; reflexivity.
  - split; [discriminate|]. intros (_ & _ & _ & H4a & H4b).
    apply N.eqb_eq in H4a. apply (list_eqb_eq prow_eqb prow_eqb_eq) in H4b.
    rewrite H4a, H4b in E4. discriminate.
Qed.

(* ---------- the uninterrupted import applies a prefix of the pending groups ---------- *)

Section Prefix.
  Context {E D H : Type}.
  Variable h0 : N -> H.
  Variable process : N -> H -> list E -> D -> H * D * bool.
  Hypothesis Hmem : memoryless h0 process.

  Lemma clean_commits_prefix : forall tasks st, wf_tasks tasks ->
    exists rest, pending_of (sprog st) tasks = c_cm (cA h0 process tasks st) ++ rest.
  Proof.
    induction tasks as [|[t gs] tl IH]; intros st [Hnd Hfit].
    - exists []. reflexivity.
    - cbn [ids map fst] in Hnd. inversion Hnd as [|? ? Hnotin Hnd']; subst.
      inversion Hfit as [|? ? Hf Hfit']; subst. cbn [snd] in Hf.
      rewrite (cA_cons h0 process Hmem). rewrite pending_of_cons.
      destruct (clean_task_commits h0 process Hmem t gs st Hf) as (k & Hk & Hok & Hoth).
      fold (@task_skip D t st).
      destruct (c_res (ct h0 process t gs st)) eqn:Er.
      + unfold cr_pre. cbn [c_cm]. rewrite (Hok eq_refl).
        destruct (IH (c_st (ct h0 process t gs st)) (conj Hnd' Hfit')) as [rest Hrest].
        exists rest. rewrite <- app_assoc. f_equal. rewrite <- Hrest.
        symmetry. apply pending_of_ext. intros t' Hin. apply Hoth. intros ->. tauto.
      + rewrite Hk. eexists.
        rewrite <- (firstn_skipn k (drop (task_skip t st) (nseq 0 (length gs)))) at 1.
        rewrite map_app, <- app_assoc. reflexivity.
      + rewrite Hk. eexists.
        rewrite <- (firstn_skipn k (drop (task_skip t st) (nseq 0 (length gs)))) at 1.
        rewrite map_app, <- app_assoc. reflexivity.
  Qed.
End Prefix.

(* ---------- the model passes its own checker, for every schedule ---------- *)

Lemma sess_of_evs : forall ids o, s_evs (sess_of ids o) = o_evs o.
Proof. reflexivity. Qed.

Lemma flat_map_map : forall {A B C} (f : A -> B) (g : B -> list C) l,
  flat_map g (map f l) = flat_map (fun x => g (f x)) l.
Proof. induction l as [|x l IH]; cbn; [reflexivity | rewrite IH; reflexivity]. Qed.

Lemma res_tag_0 : forall r, (res_tag r =? 0) = true <-> r = ROk.
Proof. destruct r; cbn; split; try discriminate; auto. Qed.

Lemma c40_model_passes_all : forall tasks init plans a b,
  wf_tasks tasks ->
  let '(ss, fin, uni, _) := c40_model tasks init plans in
  c40_code (pending_of init tasks) ss fin uni [a; b; a; b] = 1.
Proof.
  intros tasks init plans a b Hwf. unfold c40_model.
  set (st0 := mkStore (([], []) : cdb) init).
  pose proof (resume_equiv_all h0C processC processC_memoryless tasks st0 plans Hwf) as Heq.
  cbn zeta in Heq.
  destruct (run_sessions h0C processC plans tasks st0) as [sti outs] eqn:Ers.
  cbn [fst snd] in Heq. destruct Heq as (Hst & Hres & Happ).
  apply c40_code_iff. unfold C40Spec, applied_of.
  rewrite !sess_of_evs. rewrite flat_map_map.
  assert (Hfm : flat_map (fun x => commits (s_evs (sess_of (map fst tasks) x))) outs
                = flat_map (fun o => commits (o_evs o)) outs) by reflexivity.
  rewrite Hfm, Happ. clear Hfm.
  repeat split.
  - eauto.
  - (* against the snapshot *)
    unfold sess_of at 1. cbn [s_res]. rewrite Hres.
    destruct (res_tag (o_res (import_all h0C processC clean tasks st0 0)) =? 0) eqn:Er.
    + apply res_tag_0 in Er.
      exact (clean_commits_pending h0C processC processC_memoryless tasks st0 Hwf Er).
    + destruct (clean_commits_prefix h0C processC processC_memoryless tasks st0 Hwf) as [rest Hrest].
      exists rest. exact Hrest.
  - unfold sess_of. cbn [s_res]. rewrite Hres. reflexivity.
  - unfold sess_of. cbn [s_prog]. rewrite Hst. reflexivity.
Qed.

(* ---------- non-vacuity: a concrete interrupted import ---------- *)

Example resume_example :
  let tasks := [(100, [[(1, 5); (2, 6)]; [(3, 7)]; [(4, 8)]]); (101, [[(1, 1)]; [(9, 2)]])] in
  let plans := [mkPlan None (Some (100, 1, FMid)); mkPlan (Some 1) None; mkPlan None (Some (101, 1, FRead))] in
  let '(ss, fin, uni, d) := c40_model tasks [] plans in
  map s_res ss = [2; 1; 2] /\ s_res fin = 0 /\
  applied_of ss fin = all_groups tasks /\
  d = ([(1, 5); (2, 6); (3, 7); (4, 8)], [(1, 6); (9, 2)]).
Proof. vm_compute. repeat split. Qed.
