From FC Require Import Genesis.Import Genesis.Snapshot Genesis.Model.
Require Extraction.
Require Import ExtrOcamlBasic.
Extraction "genesis_model.ml" main_T.
