(* Genesis cluster: request dispatch of the extracted model.
     tag 40  resumable import            (Genesis/Import.v)
     tag 39  export -> regenesis          (Genesis/Snapshot.v)
   No proofs in this file. *)
From FC Require Export Genesis.Import Genesis.Snapshot.

Definition main_T (req : T) : T :=
  match req with
  | L [I 40%Z; input; observed] => main40 input observed
  | L [I 39%Z; input; observed] => main39 input observed
  | _ => tErr 0
  end.
