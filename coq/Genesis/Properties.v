(* Property theorems of the Genesis cluster (C40, C39). Nothing but statements, [exact], and
   Print Assumptions. *)
From FC Require Import Genesis.Import Genesis.Snapshot Genesis.Proofs40 Genesis.Proofs40b Genesis.Proofs39.
Open Scope N_scope.

(* C40. For ANY group type, database type, handler memory and handler [process], any list of
   tasks (tables) with pairwise distinct progress rows, any stored state [st0] (data and
   progress rows) and EVERY interruption schedule [plans] -- any number of sessions, each
   ended by a cancellation after any number of completed groups and/or by a failure at any
   group of any table: while reading the group, in the handler before it wrote, after it
   wrote half of the group, after it wrote all of it (the transaction is dropped) -- running
   the import to completion afterwards yields the same database AND progress rows and the
   same result as the uninterrupted import, and the groups committed over all sessions are,
   in order, exactly the groups the uninterrupted import commits.
   Hypothesis [memoryless]: the result of [process] does not depend on what the handler
   remembers from earlier groups (it is re-created on every start). *)
Theorem resume_equiv :
  forall (E D H : Type) (h0 : N -> H) (process : N -> H -> list E -> D -> H * D * bool),
  memoryless h0 process ->
  forall (tasks : list (N * list (list E))) (st0 : @store D) (plans : list plan),
  wf_tasks tasks ->
  let sti := fst (run_sessions h0 process plans tasks st0) in
  let outs := snd (run_sessions h0 process plans tasks st0) in
  let fin := import_all h0 process clean tasks sti 0 in
  let uni := import_all h0 process clean tasks st0 0 in
  o_st fin = o_st uni /\ o_res fin = o_res uni /\
  flat_map (fun o => commits (o_evs o)) outs ++ commits (o_evs fin) = commits (o_evs uni).
Proof. intros E D H h0 process Hmem. exact (resume_equiv_all h0 process Hmem). Qed.
Print Assumptions resume_equiv.

(* ... in particular, from a fresh database and an importable snapshot: every group of every
   table is applied exactly once ([all_groups] lists each (table, index) once), in order,
   whatever the schedule; and the resumed import succeeds. *)
Theorem resume_applies_each_group_once :
  forall (E D H : Type) (h0 : N -> H) (process : N -> H -> list E -> D -> H * D * bool),
  memoryless h0 process ->
  forall (tasks : list (N * list (list E))) (st0 : @store D) (plans : list plan),
  wf_tasks tasks ->
  (forall t, In t (map fst tasks) -> prog_get t (sprog st0) = None) ->
  o_res (import_all h0 process clean tasks st0 0) = ROk ->
  let sti := fst (run_sessions h0 process plans tasks st0) in
  let outs := snd (run_sessions h0 process plans tasks st0) in
  let fin := import_all h0 process clean tasks sti 0 in
  o_res fin = ROk /\
  flat_map (fun o => commits (o_evs o)) outs ++ commits (o_evs fin) = all_groups tasks /\
  NoDup (all_groups tasks) /\
  (forall t gs i, In (t, gs) tasks -> i < N.of_nat (length gs) -> In (t, i) (all_groups tasks)).
Proof. exact resume_once_all. Qed.
Print Assumptions resume_applies_each_group_once.

(* the hypothesis cannot be dropped: a handler that numbers its groups from its own memory
   gives a different database when one interruption (cancellation after one group) occurs *)
Theorem resume_needs_memoryless :
  exists (process : N -> N -> list N -> list N -> N * list N * bool) tasks st0 plans,
  let sti := fst (run_sessions (fun _ => 0) process plans tasks st0) in
  o_st (import_all (fun _ => 0) process clean tasks sti 0)
    <> o_st (import_all (fun _ => 0) process clean tasks st0 0).
Proof.
  exists count_process, [(0, [[7]; [8]])], (mkStore ([] : list N) []), [mkPlan (Some 1) None].
  exact memoryless_needed_witness.
Qed.
Print Assumptions resume_needs_memoryless.

(* Pcheck of C40 = the specification of an observed trace *)
Theorem c40_checker_sound : forall pending sessions final unint digs,
  c40_code pending sessions final unint digs = 1 <-> C40Spec pending sessions final unint digs.
Proof. exact c40_code_iff. Qed.
Print Assumptions c40_checker_sound.

(* the executable model (the instantiation compared with the implementation) passes the
   checker for every task list, preset progress and schedule *)
Theorem c40_model_passes : forall tasks init plans a b,
  wf_tasks tasks ->
  let '(ss, fin, uni, _) := c40_model tasks init plans in
  c40_code (pending_of init tasks) ss fin uni [a; b; a; b] = 1.
Proof. exact c40_model_passes_all. Qed.
Print Assumptions c40_model_passes.

(* ------------------------------------------------------------------------------------ *)
(* C39. The groups written by the exporter (and those cut by the JSON reader) put together
   are the table, for every group size (also the degenerate 0, which itertools refuses);
   for g >= 1 no group is empty or longer than g. *)
Theorem concat_chunks : forall (A : Type) (g : nat) (l : list A), concat (chunks g l) = l.
Proof. intros A. exact (@concat_chunks_all A). Qed.
Print Assumptions concat_chunks.

Theorem chunks_sizes : forall (A : Type) (g : nat) (l : list A), (1 <= g)%nat ->
  Forall (fun c => (1 <= length c <= g)%nat) (chunks g l).
Proof. intros A. exact (@chunks_sizes_all A). Qed.
Print Assumptions chunks_sizes.

(* importing a table group by group is importing it in one piece: the result (also a refusal)
   does not depend on where the groups are cut, e.g. on how the slots of one contract are
   split over groups *)
Theorem import_independent_of_grouping : forall limit strict gs gs' t,
  concat gs = concat gs' -> handle_groups limit strict gs t = handle_groups limit strict gs' t.
Proof. exact import_independent_of_grouping_all. Qed.
Print Assumptions import_independent_of_grouping.

(* parquet (every table is written): export with ANY group size, regenesis = the same state
   on all modelled tables: coins, messages, blobs, contract code / latest UTXO / state /
   balances, processed transaction ids, block Merkle data and metadata.
   [wf_sdb]: tables in key order; no coin / contract UTXO above the last block, no message above
   the last DA height; code and UTXO rows for the same contracts; slots and balances belong
   to contracts with code. *)
Theorem import_export_id : forall ge gi latest da d,
  wf_sdb latest da d -> regenesis 1 ge gi latest da d = Some d.
Proof. exact regenesis_parquet_all. Qed.
Print Assumptions import_export_id.

(* JSON: the same for the tables the JSON state holds, for ANY export and import group
   sizes ... *)
Theorem import_export_id_json_partial : forall ge gi latest da d,
  wf_sdb latest da d -> regenesis 0 ge gi latest da d = Some (json_part d).
Proof. exact regenesis_json_all. Qed.
Print Assumptions import_export_id_json_partial.

(* ... but not for processed transaction ids and block Merkle data, which StateConfigBuilder
   drops ("Do not include these for now") *)
Theorem import_export_id_json_refuted :
  exists latest da d, wf_sdb latest da d /\ regenesis 0 1 1 latest da d <> Some d.
Proof. exists 0, 0, d_refute. exact regenesis_json_refuted_witness. Qed.
Print Assumptions import_export_id_json_refuted.

(* the byte encoders (postcard + parquet row groups, serde_json) are not modelled: any
   encoder/decoder pair that round-trips on entries round-trips on the groups of a snapshot *)
Theorem codec_roundtrip : forall (B : Type) (enc : N * N -> B) (dec : B -> option (N * N)),
  (forall e, dec (enc e) = Some e) ->
  forall gs, dec_groups B dec (enc_groups B enc gs) = Some gs.
Proof. exact dec_enc_groups. Qed.
Print Assumptions codec_roundtrip.

(* Pcheck of C39 = equality of all modelled tables + last block data + column digests *)
Theorem c39_checker_sound : forall src dst last_ok digests_ok,
  c39_code src dst last_ok digests_ok = 1 <-> C39Spec src dst last_ok digests_ok.
Proof. exact c39_code_iff. Qed.
Print Assumptions c39_checker_sound.

(* the model's own round trip passes the checker for every well-formed state and all group
   sizes (parquet), or fails it exactly in the known class (JSON, code 3) *)
Theorem c39_model_passes : forall ge gi latest da d,
  wf_sdb latest da d ->
  (exists dst, regenesis 1 ge gi latest da d = Some dst /\ c39_code d dst true true = 1) /\
  (exists dst, regenesis 0 ge gi latest da d = Some dst /\
     (c39_code d dst true true = 1 \/ c39_code d dst true true = 3)).
Proof. exact c39_model_passes_all. Qed.
Print Assumptions c39_model_passes.
