(* C39: export in groups of any size, read back, import = the exported state. *)
From FC Require Import Genesis.Import Genesis.Snapshot Genesis.Proofs40b.
From Coq Require Import ZifyBool ZifyN ZifyNat.
Open Scope N_scope.

(* ---------- chunks ---------- *)

Lemma concat_chunks_aux : forall {A} g (l cur : list A) room,
  concat (chunks_aux g cur room l) = rev cur ++ l.
Proof.
  induction l as [|x r IH]; intros cur room; cbn [chunks_aux].
  - destruct cur; cbn [concat rev app]; rewrite ?app_nil_r; reflexivity.
  - destruct room.
    + cbn [concat]. rewrite IH. reflexivity.
    + rewrite IH. cbn [rev]. rewrite <- app_assoc. reflexivity.
Qed.

Lemma concat_chunks_all : forall {A} g (l : list A), concat (chunks g l) = l.
Proof. intros. unfold chunks. rewrite concat_chunks_aux. reflexivity. Qed.

Lemma chunks_aux_sizes : forall {A} g (l cur : list A) room,
  (1 <= g)%nat -> (length cur + room = g)%nat ->
  Forall (fun c => (1 <= length c <= g)%nat) (chunks_aux g cur room l).
Proof.
  induction l as [|x r IH]; intros cur room Hg Hinv; cbn [chunks_aux].
  - destruct cur; constructor; auto. rewrite rev_length. cbn [length] in *. lia.
  - destruct room.
    + constructor.
      * rewrite rev_length. lia.
      * apply IH; auto. cbn [length]. lia.
    + apply IH; auto. cbn [length]. lia.
Qed.

Lemma chunks_sizes_all : forall {A} g (l : list A), (1 <= g)%nat ->
  Forall (fun c => (1 <= length c <= g)%nat) (chunks g l).
Proof. intros. unfold chunks. apply chunks_aux_sizes; auto. Qed.

(* ---------- tables ---------- *)

(* strictly increasing keys *)
Fixpoint ssorted (l : table) : Prop :=
  match l with
  | [] => True
  | (k, _) :: r => (forall e, In e r -> k < fst e) /\ ssorted r
  end.

Definition below (acc : table) (k : N) : Prop := forall e, In e acc -> fst e < k.

Lemma tbl_get_below : forall acc k, below acc k -> tbl_get k acc = None.
Proof.
  induction acc as [|[k' v'] r IH]; intros k Hb; cbn [tbl_get]; auto.
  pose proof (Hb (k', v') (or_introl eq_refl)) as Hlt. cbn [fst] in Hlt.
  destruct (k' =? k) eqn:E; [lia|]. apply IH. intros e He. apply Hb. right. exact He.
Qed.

Lemma tbl_put_below : forall acc k a, below acc k -> tbl_put k a acc = acc ++ [(k, a)].
Proof.
  induction acc as [|[k' v'] r IH]; intros k a Hb; cbn [tbl_put app]; auto.
  pose proof (Hb (k', v') (or_introl eq_refl)) as Hlt. cbn [fst] in Hlt.
  destruct (k <? k') eqn:E1; [lia|]. destruct (k =? k') eqn:E2; [lia|].
  f_equal. apply IH. intros e He. apply Hb. right. exact He.
Qed.

Definition within (limit : option N) (l : table) : Prop :=
  match limit with Some m => forall e, In e l -> snd e <= m | None => True end.

(* importing a key-ordered table in one piece appends it *)
Lemma handle_sorted : forall limit strict l acc,
  ssorted l -> within limit l -> (forall e, In e l -> below acc (fst e)) ->
  handle limit strict l acc = Some (acc ++ l).
Proof.
  induction l as [|[k a] r IH]; intros acc Hs Hw Hb; cbn [handle].
  - rewrite app_nil_r. reflexivity.
  - destruct Hs as [Hk Hs].
    assert (Hlim : match limit with Some m => m <? a | None => false end = false).
    { destruct limit as [m|]; auto. pose proof (Hw (k, a) (or_introl eq_refl)). cbn [snd] in *. lia. }
    rewrite Hlim.
    rewrite (tbl_get_below acc k (Hb (k, a) (or_introl eq_refl))). rewrite andb_false_r.
    rewrite (tbl_put_below acc k a (Hb (k, a) (or_introl eq_refl))).
    rewrite IH.
    + rewrite <- app_assoc. reflexivity.
    + exact Hs.
    + destruct limit; cbn [within] in *; auto. intros e He. apply Hw. right. exact He.
    + intros e He e' He'. apply in_app_or in He' as [He'|[<-|[]]].
      * pose proof (Hb (k, a) (or_introl eq_refl) e' He'). pose proof (Hk e He). cbn [fst] in *. lia.
      * apply Hk. exact He.
Qed.

Lemma handle_app : forall limit strict a b t,
  handle limit strict (a ++ b) t =
    match handle limit strict a t with Some t' => handle limit strict b t' | None => None end.
Proof.
  induction a as [|[k x] r IH]; intros b t; cbn [handle app]; auto.
  destruct (match limit with Some m => m <? x | None => false end); auto.
  destruct (strict && match tbl_get k t with Some _ => true | None => false end); auto.
Qed.

(* group by group = in one piece: the result does not depend on where the groups are cut *)
Lemma handle_groups_concat : forall limit strict gs t,
  handle_groups limit strict gs t = handle limit strict (concat gs) t.
Proof.
  induction gs as [|g r IH]; intros t; cbn [handle_groups concat]; auto.
  rewrite handle_app. destruct (handle limit strict g t); auto.
Qed.

Lemma import_table : forall limit strict g l,
  ssorted l -> within limit l -> handle_groups limit strict (chunks g l) [] = Some l.
Proof.
  intros. rewrite handle_groups_concat, concat_chunks_all.
  rewrite handle_sorted; auto. intros e _ e' [].
Qed.

(* ---------- well-formed source state ---------- *)

Definition wf_sdb (latest da : N) (d : sdb) : Prop :=
  ssorted (t_coins d) /\ ssorted (t_msgs d) /\ ssorted (t_blobs d) /\ ssorted (t_code d) /\
  ssorted (t_utxo d) /\ ssorted (t_state d) /\ ssorted (t_assets d) /\ ssorted (t_ptx d) /\
  ssorted (t_mdata d) /\ ssorted (t_mmeta d) /\
  (* nothing on the chain points beyond its last block / last DA height *)
  within (Some latest) (t_coins d) /\ within (Some da) (t_msgs d) /\ within (Some latest) (t_utxo d) /\
  (* contracts: code and UTXO rows for the same ids; slots and balances belong to contracts *)
  map fst (t_code d) = map fst (t_utxo d) /\
  (forall e, In e (t_state d) -> In (contract_of (fst e)) (map fst (t_code d))) /\
  (forall e, In e (t_assets d) -> In (contract_of (fst e)) (map fst (t_code d))).

Lemma within_weaken : forall m m' l, m <= m' -> within (Some m) l -> within (Some m') l.
Proof. intros m m' l Hle Hw e He. specialize (Hw e He). lia. Qed.

Lemma regenesis_parquet_all : forall ge gi latest da d,
  wf_sdb latest da d -> regenesis 1 ge gi latest da d = Some d.
Proof.
  intros ge gi latest da d (Hc & Hm & Hb & Hco & Hu & Hs & Ha & Hp & Hmd & Hmm & Wc & Wm & Wu & _).
  unfold regenesis. cbn [N.eqb Pos.eqb]. unfold import_snapshot, export_groups.
  cbn [s_coins s_msgs s_blobs s_code s_utxo s_state s_assets s_ptx s_mdata s_mmeta].
  unfold genesis_height.
  rewrite !import_table; auto; try exact Logic.I.
  - destruct d; reflexivity.
  - apply (within_weaken latest); [lia | exact Wu].
  - apply (within_weaken latest); [lia | exact Wc].
Qed.

(* ---------- JSON: contracts are taken apart and put together again ---------- *)

(* elements with the smallest group id come first in a list ordered by group id *)
Lemma filter_min_split : forall (f : N * N -> N) c (l : table),
  (forall l1 a l2 b, l = l1 ++ a :: l2 -> In b l2 -> f a <= f b) ->
  (forall e, In e l -> c <= f e) ->
  filter (fun e => f e =? c) l ++ filter (fun e => negb (f e =? c)) l = l.
Proof.
  intros f c. induction l as [|a r IH]; intros Hmono Hmin; [reflexivity|].
  cbn [filter]. destruct (f a =? c) eqn:E; cbn [negb app].
  - f_equal. apply IH.
    + intros l1 a' l2 b -> Hb. apply (Hmono (a :: l1) a' l2 b); auto.
    + intros e He. apply Hmin. right. exact He.
  - (* a is above c, so is everything after it *)
    assert (Hall : forall e, In e r -> (f e =? c) = false).
    { intros e He. pose proof (Hmono [] a r e eq_refl He). pose proof (Hmin a (or_introl eq_refl)). lia. }
    assert (H1 : filter (fun e => f e =? c) r = []).
    { clear -Hall. induction r as [|x r IH]; cbn [filter]; auto.
      rewrite (Hall x (or_introl eq_refl)). apply IH. intros e He. apply Hall. right. exact He. }
    assert (H2 : filter (fun e => negb (f e =? c)) r = r).
    { clear -Hall. induction r as [|x r IH]; cbn [filter]; auto.
      rewrite (Hall x (or_introl eq_refl)). cbn [negb]. f_equal. apply IH. intros e He. apply Hall. right. exact He. }
    rewrite H1, H2. reflexivity.
Qed.

Lemma flat_map_ext_in : forall {A B} (f g : A -> list B) l,
  (forall x, In x l -> f x = g x) -> flat_map f l = flat_map g l.
Proof.
  induction l as [|x l IH]; intros Hfg; cbn [flat_map]; auto.
  rewrite (Hfg x (or_introl eq_refl)). f_equal. apply IH. intros y Hy. apply Hfg. right. exact Hy.
Qed.

Lemma filter_filter_imp : forall {A} (p q : A -> bool) l,
  (forall e, p e = true -> q e = true) -> filter p (filter q l) = filter p l.
Proof.
  induction l as [|x l IH]; intros Himp; cbn [filter]; auto.
  destruct (q x) eqn:Eq; cbn [filter].
  - destruct (p x); rewrite IH; auto.
  - destruct (p x) eqn:Ep; [apply Himp in Ep; congruence | apply IH; auto].
Qed.

Definition mono (f : N * N -> N) (l : table) : Prop :=
  forall l1 a l2 b, l = l1 ++ a :: l2 -> In b l2 -> f a <= f b.

Lemma mono_filter : forall f p l, mono f l -> mono f (filter p l).
Proof.
  intros f p l Hm l1 a l2 b Heq Hb.
  (* positions in the filtered list come from positions in l, in the same order *)
  revert l1 Heq. induction l as [|x r IH]; intros l1 Heq; cbn [filter] in Heq.
  - destruct l1; discriminate.
  - assert (Hmr : mono f r).
    { intros m1 a' m2 b' -> Hb'. apply (Hm (x :: m1) a' m2 b'); auto. }
    destruct (p x) eqn:Ep.
    + destruct l1 as [|y l1]; cbn [app] in Heq.
      * injection Heq as -> Hr.
        assert (Hin : In b r). { assert (In b (filter p r)) by (rewrite Hr; exact Hb). apply filter_In in H. tauto. }
        apply (Hm [] a r b); auto.
      * injection Heq as _ Hr. apply (IH Hmr l1 Hr).
    + apply (IH Hmr l1 Heq).
Qed.

Fixpoint sinc (l : list N) : Prop :=
  match l with [] => True | c :: r => (forall c', In c' r -> c < c') /\ sinc r end.

(* grouping by contract id, in the order of the ids, and flattening gives the table back *)
Lemma regroup : forall (f : N * N -> N) (cs : list N) (l : table),
  mono f l -> sinc cs -> (forall e, In e l -> In (f e) cs) ->
  flat_map (fun c => filter (fun e => f e =? c) l) cs = l.
Proof.
  intros f. induction cs as [|c cs IH]; intros l Hm Hs Hin; cbn [flat_map].
  - destruct l as [|e r]; auto. destruct (Hin e (or_introl eq_refl)).
  - destruct Hs as [Hc Hs].
    assert (Hmin : forall e, In e l -> c <= f e).
    { intros e He. destruct (Hin e He) as [<-|Hc']; [lia | apply Hc in Hc'; lia]. }
    etransitivity; [| exact (filter_min_split f c l Hm Hmin)].
    f_equal.
    transitivity (flat_map (fun c' => filter (fun e => f e =? c') (filter (fun e => negb (f e =? c)) l)) cs).
    { apply flat_map_ext_in. intros c' Hc'. symmetry. apply filter_filter_imp.
      intros e He. apply N.eqb_eq in He. pose proof (Hc c' Hc'). apply negb_true_iff. apply N.eqb_neq. lia. }
    apply IH.
    + apply mono_filter. exact Hm.
    + exact Hs.
    + intros e He. apply filter_In in He as [He Hne]. destruct (Hin e He) as [Heq|Hc']; auto.
      apply negb_true_iff, N.eqb_neq in Hne. congruence.
Qed.

Lemma ssorted_get : forall u e, ssorted u -> In e u -> tbl_get (fst e) u = Some (snd e).
Proof.
  induction u as [|[k v] r IH]; intros e Hs Hin; [destruct Hin|].
  destruct Hs as [Hk Hs]. cbn [tbl_get]. destruct Hin as [<-|Hin].
  - cbn [fst snd]. rewrite N.eqb_refl. reflexivity.
  - pose proof (Hk e Hin). destruct (k =? fst e) eqn:E; [lia|]. apply IH; auto.
Qed.

Lemma ssorted_sinc : forall l, ssorted l -> sinc (map fst l).
Proof.
  induction l as [|[k v] r IH]; intros Hs; cbn [map sinc]; auto.
  destruct Hs as [Hk Hs]. split; auto.
  intros c' Hc'. apply in_map_iff in Hc' as (e & <- & He). apply Hk. exact He.
Qed.

Lemma ssorted_app_lt : forall l1 a l2 b, ssorted (l1 ++ a :: l2) -> In b l2 -> fst a < fst b.
Proof.
  induction l1 as [|[k v] r IH]; intros a l2 b Hs Hb; cbn [app] in Hs.
  - destruct a as [ka va]. destruct Hs as [Hk _]. apply Hk. exact Hb.
  - destruct Hs as [_ Hs]. apply (IH a l2 b Hs Hb).
Qed.

Lemma ssorted_mono_contract : forall l, ssorted l -> mono (fun e => contract_of (fst e)) l.
Proof.
  intros l Hs l1 a l2 b -> Hb. pose proof (ssorted_app_lt l1 a l2 b Hs Hb).
  unfold contract_of. apply N.div_le_mono; lia.
Qed.

Definition mk_contract (utxo state assets : table) (ce : N * N) : option jcontract :=
  match tbl_get (fst ce) utxo with
  | Some u =>
      Some (mkJc (fst ce) (snd ce) u
                 (filter (fun e => contract_of (fst e) =? fst ce) state)
                 (filter (fun e => contract_of (fst e) =? fst ce) assets))
  | None => None
  end.

Lemma json_contracts : forall utxo state assets (c u' : table),
  map fst c = map fst u' -> (forall e, In e u' -> tbl_get (fst e) utxo = Some (snd e)) ->
  exists cs, mapM_opt (mk_contract utxo state assets) c = Some cs /\
    map (fun j => (jc_id j, jc_code j)) cs = c /\
    map (fun j => (jc_id j, jc_utxo j)) cs = u' /\
    flat_map jc_states cs =
      flat_map (fun k => filter (fun e => contract_of (fst e) =? k) state) (map fst c) /\
    flat_map jc_balances cs =
      flat_map (fun k => filter (fun e => contract_of (fst e) =? k) assets) (map fst c).
Proof.
  induction c as [|[k x] c IH]; intros u' Hmap Hget.
  - destruct u'; [|discriminate]. exists []. cbn. repeat split.
  - destruct u' as [|[k' y] u'']; [discriminate|]. cbn [map fst] in Hmap. injection Hmap as <- Hmap.
    destruct (IH u'' Hmap) as (cs & Hcs & H1 & H2 & H3 & H4).
    { intros e He. apply Hget. right. exact He. }
    pose proof (Hget (k, y) (or_introl eq_refl)) as Hk. cbn [fst snd] in Hk.
    eexists. cbn [mapM_opt]. unfold mk_contract at 1. cbn [fst snd]. rewrite Hk, Hcs.
    split; [reflexivity|]. cbn [map flat_map jc_id jc_code jc_utxo jc_states jc_balances fst].
    rewrite H1, H2, H3, H4. repeat split.
Qed.

Lemma regenesis_json_all : forall ge gi latest da d,
  wf_sdb latest da d -> regenesis 0 ge gi latest da d = Some (json_part d).
Proof.
  intros ge gi latest da d
    (Hc & Hm & Hb & Hco & Hu & Hs & Ha & Hp & Hmd & Hmm & Wc & Wm & Wu & Hids & Hst & Has).
  unfold regenesis. cbn [N.eqb]. unfold json_build, export_groups.
  cbn [s_coins s_msgs s_blobs s_code s_utxo s_state s_assets s_ptx s_mdata s_mmeta].
  rewrite !concat_chunks_all.
  destruct (json_contracts (t_utxo d) (t_state d) (t_assets d) (t_code d) (t_utxo d) Hids)
    as (cs & Hcs & H1 & H2 & H3 & H4).
  { intros e He. apply ssorted_get; auto. }
  fold (mk_contract (t_utxo d) (t_state d) (t_assets d)). rewrite Hcs.
  unfold import_snapshot, json_read.
  cbn [s_coins s_msgs s_blobs s_code s_utxo s_state s_assets s_ptx s_mdata s_mmeta
       j_coins j_msgs j_blobs j_contracts].
  rewrite H1, H2, H3, H4.
  rewrite (regroup (fun e => contract_of (fst e)) (map fst (t_code d)) (t_state d));
    [| apply ssorted_mono_contract; auto | apply ssorted_sinc; auto | exact Hst].
  rewrite (regroup (fun e => contract_of (fst e)) (map fst (t_code d)) (t_assets d));
    [| apply ssorted_mono_contract; auto | apply ssorted_sinc; auto | exact Has].
  unfold genesis_height.
  rewrite !import_table; auto; try exact Logic.I.
  all: try (apply (within_weaken latest); [lia | assumption]).
  all: try reflexivity.
Qed.

(* JSON drops the processed transaction ids and the block Merkle tables *)
Definition d_refute : sdb := mkSdb [(0, 0)] [] [] [] [] [] [] [(0, 0)] [(0, 0)] [(0, 0); (1, 0)].

Lemma regenesis_json_refuted_witness :
  wf_sdb 0 0 d_refute /\ regenesis 0 1 1 0 0 d_refute <> Some d_refute.
Proof.
  split.
  - unfold wf_sdb, d_refute. cbn. repeat split; auto; try (intros e []; fail);
      try (intros e [<-|[]]; cbn; lia); try (intros e [<-|[<-|[]]]; cbn; lia).
    all: try (intros e0 [<-|[]]; cbn; lia).
  - vm_compute. intros Heq. discriminate Heq.
Qed.

(* ---------- byte encoders: anything that round-trips ---------- *)

Section Codec.
  Variable B : Type.
  Variable enc : N * N -> B.
  Variable dec : B -> option (N * N).
  Hypothesis dec_enc : forall e, dec (enc e) = Some e.

  Definition enc_groups (gs : list table) : list (list B) := map (map enc) gs.
  Definition dec_groups (bs : list (list B)) : option (list table) := mapM_opt (mapM_opt dec) bs.

  Lemma dec_enc_group : forall g, mapM_opt dec (map enc g) = Some g.
  Proof. induction g as [|e g IH]; cbn [map mapM_opt]; auto. rewrite dec_enc, IH. reflexivity. Qed.

  Lemma dec_enc_groups : forall gs, dec_groups (enc_groups gs) = Some gs.
  Proof.
    unfold dec_groups, enc_groups. induction gs as [|g gs IH]; cbn [map mapM_opt]; auto.
    rewrite dec_enc_group, IH. reflexivity.
  Qed.
End Codec.

(* ---------- checker ---------- *)

Lemma table_eqb_eq : forall a b, table_eqb a b = true <-> a = b.
Proof. intros. unfold table_eqb. apply list_eqb_eq. exact pairN_eqb_eq. Qed.

Definition C39Spec (src dst : sdb) (last_ok digests_ok : bool) : Prop :=
  src = dst /\ last_ok = true /\ digests_ok = true.

Lemma c39_code_iff : forall src dst last_ok digests_ok,
  c39_code src dst last_ok digests_ok = 1 <-> C39Spec src dst last_ok digests_ok.
Proof.
  intros [a1 a2 a3 a4 a5 a6 a7 a8 a9 a10] [b1 b2 b3 b4 b5 b6 b7 b8 b9 b10] lo dg.
  unfold c39_code, C39Spec. cbn [t_coins t_msgs t_blobs t_code t_utxo t_state t_assets t_ptx t_mdata t_mmeta].
  destruct (table_eqb a1 b1) eqn:E1; cbn [andb negb];
    [apply table_eqb_eq in E1 | split; [discriminate | intros [H _]; injection H; intros; subst; rewrite (proj2 (table_eqb_eq _ _) eq_refl) in E1; discriminate]].
  destruct (table_eqb a2 b2) eqn:E2; cbn [andb negb];
    [apply table_eqb_eq in E2 | split; [discriminate | intros [H _]; injection H; intros; subst; rewrite (proj2 (table_eqb_eq _ _) eq_refl) in E2; discriminate]].
  destruct (table_eqb a3 b3) eqn:E3; cbn [andb negb];
    [apply table_eqb_eq in E3 | split; [discriminate | intros [H _]; injection H; intros; subst; rewrite (proj2 (table_eqb_eq _ _) eq_refl) in E3; discriminate]].
  destruct (table_eqb a4 b4) eqn:E4; cbn [andb negb];
    [apply table_eqb_eq in E4 | split; [discriminate | intros [H _]; injection H; intros; subst; rewrite (proj2 (table_eqb_eq _ _) eq_refl) in E4; discriminate]].
  destruct (table_eqb a5 b5) eqn:E5; cbn [andb negb];
    [apply table_eqb_eq in E5 | split; [discriminate | intros [H _]; injection H; intros; subst; rewrite (proj2 (table_eqb_eq _ _) eq_refl) in E5; discriminate]].
  destruct (table_eqb a6 b6) eqn:E6; cbn [andb negb];
    [apply table_eqb_eq in E6 | split; [discriminate | intros [H _]; injection H; intros; subst; rewrite (proj2 (table_eqb_eq _ _) eq_refl) in E6; discriminate]].
  destruct (table_eqb a7 b7) eqn:E7; cbn [andb negb];
    [apply table_eqb_eq in E7 | split; [discriminate | intros [H _]; injection H; intros; subst; rewrite (proj2 (table_eqb_eq _ _) eq_refl) in E7; discriminate]].
  destruct lo; cbn [negb]; [| split; [discriminate | intros (_ & H & _); discriminate]].
  destruct dg; cbn [negb]; [| split; [discriminate | intros (_ & _ & H); discriminate]].
  destruct (table_eqb a8 b8) eqn:E8; cbn [andb negb];
    [apply table_eqb_eq in E8 | split; [discriminate | intros [H _]; injection H; intros; subst; rewrite (proj2 (table_eqb_eq _ _) eq_refl) in E8; discriminate]].
  destruct (table_eqb a9 b9) eqn:E9; cbn [andb negb];
    [apply table_eqb_eq in E9 | split; [discriminate | intros [H _]; injection H; intros; subst; rewrite (proj2 (table_eqb_eq _ _) eq_refl) in E9; discriminate]].
  destruct (table_eqb a10 b10) eqn:E10; cbn [andb negb];
    [apply table_eqb_eq in E10 | split; [discriminate | intros [H _]; injection H; intros; subst; rewrite (proj2 (table_eqb_eq _ _) eq_refl) in E10; discriminate]].
  subst. split; auto.
Qed.

(* non-vacuity: a state with a contract whose slots span several groups *)
Definition d_example : sdb :=
  mkSdb [(0, 3); (1, 0)] [(0, 2)] [(0, 0)] [(0, 0); (1, 0)] [(0, 1); (1, 3)]
        [(0, 0); (1, 0); (2, 0); (4294967296, 0); (4294967297, 0)] [(1, 0); (4294967296, 0)]
        [(0, 0); (1, 0)] [(0, 0); (1, 0); (2, 0)] [(0, 0); (1, 0)].

Example regenesis_example :
  regenesis 1 2 1 3 2 d_example = Some d_example /\
  regenesis 0 2 3 3 2 d_example = Some (json_part d_example) /\
  map (@length _) (chunks 2 (t_state d_example)) = [2; 2; 1]%nat.
Proof. vm_compute. repeat split. Qed.

Lemma import_independent_of_grouping_all : forall limit strict gs gs' t,
  concat gs = concat gs' -> handle_groups limit strict gs t = handle_groups limit strict gs' t.
Proof. intros. rewrite !handle_groups_concat. congruence. Qed.

Lemma table_eqb_refl : forall a, table_eqb a a = true.
Proof. intros. apply table_eqb_eq. reflexivity. Qed.

(* the model's own round trip passes the checker (parquet), or fails it in exactly the
   known class (JSON: only the tables the JSON state does not hold) *)
Lemma c39_model_passes_all : forall ge gi latest da d,
  wf_sdb latest da d ->
  (exists dst, regenesis 1 ge gi latest da d = Some dst /\ c39_code d dst true true = 1) /\
  (exists dst, regenesis 0 ge gi latest da d = Some dst /\
     (c39_code d dst true true = 1 \/ c39_code d dst true true = 3)).
Proof.
  intros ge gi latest da d Hwf. split.
  - exists d. split; [apply regenesis_parquet_all; exact Hwf|].
    apply c39_code_iff. repeat split.
  - exists (json_part d). split; [apply regenesis_json_all; exact Hwf|].
    unfold c39_code, json_part.
    cbn [t_coins t_msgs t_blobs t_code t_utxo t_state t_assets t_ptx t_mdata t_mmeta].
    rewrite !table_eqb_refl. cbn [andb negb].
    destruct (table_eqb (t_ptx d) [] && table_eqb (t_mdata d) [] && table_eqb (t_mmeta d) []); cbn [negb]; auto.
Qed.
