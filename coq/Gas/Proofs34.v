(* C34: bounds of the execution / DA gas price under AlgorithmUpdaterV1 updates. *)
From FC Require Import Gas.Model.
From Coq Require Import ZifyBool Lia.
Open Scope Z_scope.

(* Well-formedness = the machine ranges of the fields the bounds depend on
   (u64 prices, u16 percentages, NonZeroU64 factor).  Nothing is assumed about the
   accounting fields, the PID components, the profits or the activity tracker. *)
Definition wf (u : updater) : Prop :=
  0 <= exec_price u <= u64M /\ 0 <= da_price u <= u64M /\
  0 <= exec_pct u <= u16M /\ 0 <= da_pct u <= u16M /\ 1 <= factor u <= u64M.

(* ---- specifications in Prop, and their decidable counterparts ---- *)

Definition ExecSpec (u u' : updater) : Prop :=
  min_scaled_exec_gas_price u <= exec_price u' /\
  (Z.abs (exec_price u' - exec_price u) <= su64 (exec_price u * exec_pct u) / 100 \/
   (exec_price u < min_scaled_exec_gas_price u /\ exec_price u' = min_scaled_exec_gas_price u)).

Definition DaSpec (u u' : updater) : Prop :=
  min_scaled_da_gas_price u <= da_price u' <= max_scaled_da_gas_price u /\
  (Z.abs (da_price u' - da_price u) <= su64 (da_price u * da_pct u) / 100 \/
   (da_price u < min_scaled_da_gas_price u /\ da_price u' = min_scaled_da_gas_price u) \/
   (max_scaled_da_gas_price u < da_price u /\ da_price u' = max_scaled_da_gas_price u)).

Lemma exec_bounds_okb_iff u u' : exec_bounds_okb u u' = true <-> ExecSpec u u'.
Proof. unfold exec_bounds_okb, ExecSpec. lia. Qed.

Lemma da_bounds_okb_iff u u' : da_bounds_okb u u' = true <-> DaSpec u u'.
Proof. unfold da_bounds_okb, DaSpec. lia. Qed.

Definition ConfigEq (a b : updater) : Prop :=
  min_exec a = min_exec b /\ exec_pct a = exec_pct b /\ fullness_thr a = fullness_thr b /\
  factor a = factor b /\ min_da a = min_da b /\ max_da a = max_da b /\ da_pct a = da_pct b /\
  p_comp a = p_comp b /\ d_comp a = d_comp b.

Lemma config_eqb_iff a b : config_eqb a b = true <-> ConfigEq a b.
Proof. unfold config_eqb, ConfigEq. lia. Qed.

Lemma config_eqb_refl a : config_eqb a a = true.
Proof. apply config_eqb_iff. unfold ConfigEq. tauto. Qed.

Lemma tracker_eqb_refl t : tracker_eqb t t = true.
Proof. unfold tracker_eqb. rewrite !Z.eqb_refl. reflexivity. Qed.

Lemma updater_eqb_refl a : updater_eqb a a = true.
Proof.
  unfold updater_eqb. rewrite config_eqb_refl, tracker_eqb_refl, !Z.eqb_refl. reflexivity.
Qed.

Lemma blocks_eqb_refl b : blocks_eqb b b = true.
Proof. induction b as [|[h x] r IH]; cbn [blocks_eqb]; [reflexivity|]. rewrite !Z.eqb_refl, IH. reflexivity. Qed.

Lemma tracker_eqb_eq a b : tracker_eqb a b = true -> a = b.
Proof.
  destruct a as [a1 a2 a3 a4 a5], b as [b1 b2 b3 b4 b5]. unfold tracker_eqb. simpl.
  intros H. assert (a1 = b1 /\ a2 = b2 /\ a3 = b3 /\ a4 = b4 /\ a5 = b5) by lia.
  intuition congruence.
Qed.

Lemma updater_eqb_eq a b : updater_eqb a b = true -> a = b.
Proof.
  unfold updater_eqb. intros H.
  assert (Ht : tracker_eqb (activity a) (activity b) = true) by lia.
  apply tracker_eqb_eq in Ht.
  assert (Hc : config_eqb a b = true) by lia. apply config_eqb_iff in Hc. unfold ConfigEq in Hc.
  destruct a as [a0 a1 a2 a3 a4 a5 a6 a7 a8 a9 a10 a11 a12 a13 a14 a15 a16 a17 a18 ta],
           b as [b0 b1 b2 b3 b4 b5 b6 b7 b8 b9 b10 b11 b12 b13 b14 b15 b16 b17 b18 tb].
  cbn [exec_price min_exec exec_pct l2_height fullness_thr da_price factor min_da max_da da_pct
       total_rewards known_cost projected_cost p_comp d_comp last_profit second_profit
       cost_per_byte unrec_bytes activity] in *.
  assert (a0 = b0 /\ a3 = b3 /\ a5 = b5 /\ a10 = b10 /\ a11 = b11 /\ a12 = b12 /\
          a15 = b15 /\ a16 = b16 /\ a17 = b17 /\ a18 = b18) as Hx by lia.
  clear H. repeat match goal with H : _ /\ _ |- _ => destruct H end. subst. reflexivity.
Qed.

Lemma blocks_eqb_eq a : forall b, blocks_eqb a b = true -> a = b.
Proof.
  induction a as [|[h x] r IH]; intros [|[h' x'] r']; cbn [blocks_eqb]; try discriminate; auto.
  intros H. assert (h = h' /\ x = x' /\ blocks_eqb r r' = true) as (-> & -> & Hr) by lia.
  f_equal. auto.
Qed.

(* ---- arithmetic helpers ---- *)

Lemma div100_bounds x : 0 <= x -> 0 <= x / 100 <= x.
Proof.
  intros. split; [apply Z.div_pos; lia|].
  apply Z.div_le_upper_bound; lia.
Qed.

Lemma su64_range z : 0 <= su64 z <= u64M.
Proof. unfold su64, clampZ, u64M. lia. Qed.

Lemma change_bounds x : 0 <= su64 x / 100 <= u64M.
Proof. pose proof (su64_range x). pose proof (div100_bounds (su64 x)). lia. Qed.

(* ---- execution price ---- *)

Lemma update_exec_spec u used cap :
  wf u -> let u' := update_exec_gas_price u used cap in
  ExecSpec u u' /\ 0 <= exec_price u' <= u64M.
Proof.
  intros (He & _). cbv zeta. unfold update_exec_gas_price, ExecSpec, exec_change.
  cbn [set_exec_price exec_price].
  pose proof (change_bounds (exec_price u * exec_pct u)) as Hc.
  set (c := su64 (exec_price u * exec_pct u) / 100) in *.
  pose proof (su64_range (min_exec u * factor u)) as Hm.
  unfold min_scaled_exec_gas_price.
  set (m := su64 (min_exec u * factor u)) in *.
  clearbody c m.
  destruct (fullness_thr u <=? (if cap =? 0 then fullness_thr u else su64 (used * 100) / cap));
    unfold su64, clampZ, u64M in *; lia.
Qed.

(* ---- DA price ---- *)

Lemma si128_id z : i128m <= z <= i128M -> si128 z = z.
Proof. unfold si128, clampZ. lia. Qed.

Lemma da_change_abs u pp dd :
  0 <= max_change u <= u64M -> Z.abs (da_change u pp dd) <= max_change u.
Proof.
  intros Hm. unfold da_change.
  set (x := si128 (si128 (pp + dd) * factor u)).
  set (mc := max_change u) in *.
  assert (Hc : 0 <= Z.min (si128 (Z.abs x)) mc <= mc).
  { unfold si128, clampZ, i128m, i128M. lia. }
  set (cl := Z.min (si128 (Z.abs x)) mc) in *.
  unfold u64M in Hm.
  destruct (Z.sgn_spec x) as [(_ & ->)|[(_ & ->)|(_ & ->)]];
    unfold si128, clampZ, i128m, i128M; lia.
Qed.

Lemma activity_change_abs u x :
  0 <= max_change u <= u64M -> Z.abs x <= max_change u ->
  Z.abs (da_change_accounting_for_activity u x) <= max_change u.
Proof.
  intros Hm Hx. unfold da_change_accounting_for_activity.
  destruct (0 <? x); [|assumption].
  destruct (safety_mode (activity u)); [assumption|lia|].
  unfold si128, clampZ, i128m, i128M, u64M in *. lia.
Qed.

Lemma scaled_bounds_ordered u :
  0 <= factor u -> min_scaled_da_gas_price u <= max_scaled_da_gas_price u.
Proof.
  intros Hf. unfold min_scaled_da_gas_price, max_scaled_da_gas_price.
  assert (min_da u * factor u <= Z.max (max_da u) (min_da u) * factor u).
  { apply Z.mul_le_mono_nonneg_r; lia. }
  unfold su64, clampZ. lia.
Qed.

Lemma update_da_spec u :
  wf u -> let u' := update_da_gas_price u in
  DaSpec u u' /\ 0 <= da_price u' <= u64M.
Proof.
  intros (_ & Hd & _ & _ & Hf). cbv zeta.
  pose proof (change_bounds (da_price u * da_pct u)) as Hm.
  fold (max_change u) in Hm.
  pose proof (da_change_abs u (p u) (d u) Hm) as H1.
  pose proof (activity_change_abs u _ Hm H1) as H2.
  unfold update_da_gas_price, DaSpec. cbn [set_da_price da_price].
  set (ch := da_change_accounting_for_activity u (da_change u (p u) (d u))) in *.
  fold (max_change u).
  set (mc := max_change u) in *.
  pose proof (scaled_bounds_ordered u ltac:(lia)) as Ho.
  pose proof (su64_range (min_da u * factor u)) as Hlo.
  pose proof (su64_range (Z.max (max_da u) (min_da u) * factor u)) as Hhi.
  fold (min_scaled_da_gas_price u) in Hlo. fold (max_scaled_da_gas_price u) in Hhi.
  set (lo := min_scaled_da_gas_price u) in *.
  set (hi := max_scaled_da_gas_price u) in *.
  unfold u64M, i128m, i128M in *.
  destruct ((-170141183460469231731687303715884105728 <=? da_price u + ch) &&
            (da_price u + ch <=? 170141183460469231731687303715884105727) &&
            (0 <=? da_price u + ch) && (da_price u + ch <=? 18446744073709551615)) eqn:E.
  - lia.
  - destruct (0 <? ch) eqn:E2; lia.
Qed.

(* ---- one update ---- *)

Lemma wf_l2_pre u h rew known proj lp slp cpb unrec used cap :
  wf u -> wf (update_activity (set_acct u h rew known proj lp slp cpb unrec) used cap).
Proof. intros H. exact H. Qed.

(* Facts about a successful L2 update, stated on the components. *)
Lemma l2_ok_facts u bl h used cap bytes fee :
  wf u -> h = su32 (l2_height u + 1) ->
  exists u' bl', update_l2_block_data u bl h used cap bytes fee = (u', bl', R_OK) /\
    ConfigEq u u' /\ l2_height u' = h /\ ExecSpec u u' /\ DaSpec u u' /\ wf u'.
Proof.
  intros Hwf Hh. unfold update_l2_block_data. rewrite <- Hh, Z.eqb_refl. cbn [negb].
  eexists; eexists; split; [reflexivity|].
  match goal with |- context [update_activity ?a used cap] => set (u2 := update_activity a used cap) end.
  assert (Hwf2 : wf u2) by exact Hwf.
  pose proof (update_exec_spec u2 used cap Hwf2) as (He & Her). cbv zeta in He, Her.
  set (u3 := update_exec_gas_price u2 used cap) in *.
  assert (Hwf3 : wf u3).
  { destruct Hwf as (V1 & V2 & V3 & V4 & V5).
    unfold wf. split; [exact Her|]. split; [exact V2|]. split; [exact V3|]. split; [exact V4|exact V5]. }
  pose proof (update_da_spec u3 Hwf3) as (Hd & Hdr). cbv zeta in Hd, Hdr.
  set (u4 := update_da_gas_price u3) in *.
  destruct Hwf as (W1 & W2 & W3 & W4 & W5).
  split; [unfold ConfigEq; repeat split; reflexivity|].
  split; [reflexivity|].
  split; [exact He|].
  split; [exact Hd|].
  unfold wf. split; [exact Her|]. split; [exact Hdr|].
  split; [exact W3|]. split; [exact W4|exact W5].
Qed.

Lemma l2_skipped u bl h used cap bytes fee :
  h <> su32 (l2_height u + 1) ->
  update_l2_block_data u bl h used cap bytes fee = (u, bl, R_SKIPPED).
Proof.
  intros Hh. unfold update_l2_block_data.
  destruct (h =? su32 (l2_height u + 1)) eqn:E; [lia|reflexivity].
Qed.

Lemma da_empty u bl s e rb rc :
  e < s -> update_da_record_data u bl s e rb rc = (u, bl, R_OK).
Proof. intros H. unfold update_da_record_data. destruct (e <? s) eqn:E; [reflexivity|lia]. Qed.

Lemma da_err_facts u bl s e rc :
  s <= e ->
  exists u' bl', update_da_record_data u bl s e 0 rc = (u', bl', R_COST_PER_BYTE) /\
    ConfigEq u u' /\ exec_price u' = exec_price u /\ da_price u' = da_price u /\
    l2_height u' = l2_height u /\ (wf u -> wf u').
Proof.
  intros H. unfold update_da_record_data. destruct (e <? s) eqn:E; [lia|].
  cbn [Z.eqb]. eexists; eexists; split; [reflexivity|].
  repeat split; try reflexivity; apply H0.
Qed.

Lemma da_ok_facts u bl s e rb rc :
  wf u -> s <= e -> rb <> 0 ->
  exists u' bl', update_da_record_data u bl s e rb rc = (u', bl', R_OK) /\
    ConfigEq u u' /\ exec_price u' = exec_price u /\ l2_height u' = l2_height u /\
    DaSpec u u' /\ wf u'.
Proof.
  intros Hwf H Hrb. unfold update_da_record_data. destruct (e <? s) eqn:E; [lia|].
  destruct (rb =? 0) eqn:E2; [lia|].
  eexists; eexists; split; [reflexivity|].
  match goal with |- context [update_da_gas_price ?a] => set (u1 := a) end.
  assert (Hwf1 : wf u1) by exact Hwf.
  pose proof (update_da_spec u1 Hwf1) as (Hd & Hdr). cbv zeta in Hd, Hdr.
  repeat split; try reflexivity; try apply Hd; try apply Hdr; apply Hwf.
Qed.

(* ---- the step checker holds on every model step; wf is preserved ---- *)

Lemma step_ok u bl o :
  wf u ->
  let '(u', bl', res) := step (u, bl) o in
  step_okb (u, bl) o (u', bl') res = true /\ wf u'.
Proof.
  intros Hwf. destruct o as [h used cap bytes fee | s e rb rc]; cbn [step].
  - destruct (cap =? 0) eqn:Ec.
    + cbn [step_okb]. rewrite Ec, updater_eqb_refl, blocks_eqb_refl. split; [reflexivity|assumption].
    + destruct (Z.eq_dec h (su32 (l2_height u + 1))) as [Hh|Hh].
      * destruct (l2_ok_facts u bl h used cap bytes fee Hwf Hh)
          as (u' & bl' & -> & Hc & Hl & He & Hd & Hwf').
        split; [|assumption]. cbn [step_okb]. rewrite Ec.
        replace (h =? su32 (l2_height u + 1)) with true by lia. cbn [negb].
        apply config_eqb_iff in Hc. apply exec_bounds_okb_iff in He. apply da_bounds_okb_iff in Hd.
        rewrite Hc, He, Hd, Hl, !Z.eqb_refl. reflexivity.
      * rewrite (l2_skipped u bl h used cap bytes fee Hh). split; [|assumption].
        cbn [step_okb]. rewrite Ec.
        replace (h =? su32 (l2_height u + 1)) with false by lia. cbn [negb].
        rewrite updater_eqb_refl, blocks_eqb_refl. reflexivity.
  - destruct (Z_lt_dec e s) as [Hes|Hes].
    + rewrite (da_empty u bl s e rb rc Hes). split; [|assumption]. cbn [step_okb].
      replace (e <? s) with true by lia. rewrite updater_eqb_refl, blocks_eqb_refl. reflexivity.
    + destruct (Z.eq_dec rb 0) as [->|Hrb].
      * destruct (da_err_facts u bl s e rc ltac:(lia)) as (u' & bl' & -> & Hc & He & Hd & Hl & Hw).
        split; [|auto]. cbn [step_okb]. replace (e <? s) with false by lia. cbn [Z.eqb].
        apply config_eqb_iff in Hc. rewrite Hc, He, Hd, Hl, !Z.eqb_refl. reflexivity.
      * destruct (da_ok_facts u bl s e rb rc Hwf ltac:(lia) Hrb)
          as (u' & bl' & -> & Hc & He & Hl & Hd & Hwf').
        split; [|assumption]. cbn [step_okb]. replace (e <? s) with false by lia.
        replace (rb =? 0) with false by lia.
        apply config_eqb_iff in Hc. apply da_bounds_okb_iff in Hd.
        rewrite Hc, He, Hl, Hd, !Z.eqb_refl. reflexivity.
Qed.

(* ---- all sequences ---- *)

Theorem trace_ok_all : forall ops u bl,
  wf u -> trace_okb (u, bl) ops (run (u, bl) ops) = true.
Proof.
  induction ops as [|o r IH]; intros u bl Hwf; cbn [run trace_okb]; [reflexivity|].
  pose proof (step_ok u bl o Hwf) as H.
  destruct (step (u, bl) o) as [[u' bl'] res]. destruct H as (H1 & H2).
  cbn [trace_okb]. rewrite H1. cbn [andb]. apply IH. assumption.
Qed.

(* wf is preserved along every sequence *)
Theorem wf_run : forall ops u bl,
  wf u -> Forall (fun x => wf (fst (fst x))) (run (u, bl) ops).
Proof.
  induction ops as [|o r IH]; intros u bl Hwf; cbn [run]; [constructor|].
  pose proof (step_ok u bl o Hwf) as H.
  destruct (step (u, bl) o) as [[u' bl'] res]. destruct H as (H1 & H2).
  constructor; [exact H2|]. apply IH. assumption.
Qed.

(* ---- meaning of the checker ---- *)

Definition StepSpec (st : updater * blocks) (o : op) (st' : updater * blocks) (res : Z) : Prop :=
  let '(u, bl) := st in
  let '(u', bl') := st' in
  match o with
  | OpL2 h used cap bytes fee =>
      if cap =? 0 then res = R_ZERO_CAPACITY /\ u = u' /\ bl = bl'
      else if negb (h =? su32 (l2_height u + 1)) then res = R_SKIPPED /\ u = u' /\ bl = bl'
      else res = R_OK /\ ConfigEq u u' /\ l2_height u' = h /\ ExecSpec u u' /\ DaSpec u u'
  | OpDA s e rb rc =>
      if e <? s then res = R_OK /\ u = u' /\ bl = bl'
      else if rb =? 0 then
        res = R_COST_PER_BYTE /\ ConfigEq u u' /\ exec_price u' = exec_price u /\
        da_price u' = da_price u /\ l2_height u' = l2_height u
      else
        res = R_OK /\ ConfigEq u u' /\ exec_price u' = exec_price u /\
        l2_height u' = l2_height u /\ DaSpec u u'
  end.

Lemma updater_eqb_iff a b : updater_eqb a b = true <-> a = b.
Proof. split; [apply updater_eqb_eq|intros ->; apply updater_eqb_refl]. Qed.

Lemma blocks_eqb_iff a b : blocks_eqb a b = true <-> a = b.
Proof. split; [apply blocks_eqb_eq|intros ->; apply blocks_eqb_refl]. Qed.

Lemma step_okb_iff st o st' res : step_okb st o st' res = true <-> StepSpec st o st' res.
Proof.
  destruct st as [u bl], st' as [u' bl']. unfold step_okb, StepSpec.
  pose proof (updater_eqb_iff u u'). pose proof (blocks_eqb_iff bl bl').
  pose proof (config_eqb_iff u u'). pose proof (exec_bounds_okb_iff u u').
  pose proof (da_bounds_okb_iff u u').
  destruct o as [h used cap bytes fee | s e rb rc].
  - destruct (cap =? 0); [|destruct (negb (h =? su32 (l2_height u + 1)))];
      rewrite ?Bool.andb_true_iff, ?Z.eqb_eq; tauto.
  - destruct (e <? s); [|destruct (rb =? 0)];
      rewrite ?Bool.andb_true_iff, ?Z.eqb_eq; tauto.
Qed.

Fixpoint TraceSpec (st : updater * blocks) (ops : list op) (tr : list (updater * blocks * Z)) : Prop :=
  match ops, tr with
  | [], [] => True
  | o :: r, (u', bl', res) :: tr' => StepSpec st o (u', bl') res /\ TraceSpec (u', bl') r tr'
  | _, _ => False
  end.

Lemma trace_okb_iff : forall ops st tr, trace_okb st ops tr = true <-> TraceSpec st ops tr.
Proof.
  induction ops as [|o r IH]; intros st [|[[u' bl'] res] tr']; cbn [trace_okb TraceSpec];
    try (split; [discriminate|tauto]); try tauto.
  rewrite Bool.andb_true_iff, step_okb_iff, IH. tauto.
Qed.

(* ---- the individual statements of C34, per update ---- *)

Lemma l2_update_bounds u bl h used cap bytes fee u' bl' :
  wf u -> update_l2_block_data u bl h used cap bytes fee = (u', bl', R_OK) ->
  ConfigEq u u' /\ l2_height u' = h /\ ExecSpec u u' /\ DaSpec u u' /\ wf u'.
Proof.
  intros Hwf Hr. destruct (Z.eq_dec h (su32 (l2_height u + 1))) as [Hh|Hh].
  - destruct (l2_ok_facts u bl h used cap bytes fee Hwf Hh) as (u2 & bl2 & E & F).
    rewrite E in Hr. inversion Hr; subst. exact F.
  - rewrite (l2_skipped u bl h used cap bytes fee Hh) in Hr. inversion Hr.
Qed.

Lemma da_update_bounds u bl s e rb rc u' bl' :
  wf u -> s <= e -> update_da_record_data u bl s e rb rc = (u', bl', R_OK) ->
  ConfigEq u u' /\ exec_price u' = exec_price u /\ l2_height u' = l2_height u /\
  DaSpec u u' /\ wf u'.
Proof.
  intros Hwf Hse Hr. destruct (Z.eq_dec rb 0) as [->|Hrb].
  - destruct (da_err_facts u bl s e rc Hse) as (u2 & bl2 & E & _). rewrite E in Hr. inversion Hr.
  - destruct (da_ok_facts u bl s e rb rc Hwf Hse Hrb) as (u2 & bl2 & E & F).
    rewrite E in Hr. inversion Hr; subst. exact F.
Qed.

(* accepted iff consecutive, below the u32 ceiling *)
Lemma l2_accepts_only_next u bl h used cap bytes fee :
  wf u -> 0 <= l2_height u < u32M ->
  (snd (update_l2_block_data u bl h used cap bytes fee) = R_OK <-> h = l2_height u + 1).
Proof.
  intros Hwf Hl. assert (Hs : su32 (l2_height u + 1) = l2_height u + 1).
  { unfold su32, clampZ, u32M in *. lia. }
  split.
  - intros Hr. destruct (Z.eq_dec h (su32 (l2_height u + 1))) as [Hh|Hh]; [lia|].
    rewrite (l2_skipped u bl h used cap bytes fee Hh) in Hr. discriminate.
  - intros Hh. destruct (l2_ok_facts u bl h used cap bytes fee Hwf ltac:(lia)) as (u2 & bl2 & E & _).
    rewrite E. reflexivity.
Qed.

(* the excluded corner: at l2_block_height = u32::MAX the saturating expected height is
   u32::MAX itself, so the SAME height is accepted again *)
Lemma l2_repeated_height_accepted_at_u32max u bl used cap bytes fee :
  wf u -> l2_height u = u32M ->
  snd (update_l2_block_data u bl u32M used cap bytes fee) = R_OK.
Proof.
  intros Hwf Hl.
  destruct (l2_ok_facts u bl u32M used cap bytes fee Hwf) as (u2 & bl2 & E & _).
  { rewrite Hl. reflexivity. }
  rewrite E. reflexivity.
Qed.

(* descaled prices (what AlgorithmV1 serves), when min * factor does not saturate *)
Lemma descaled_exec_ge_min u u' :
  1 <= factor u -> factor u' = factor u -> 0 <= min_exec u -> min_exec u * factor u <= u64M ->
  min_scaled_exec_gas_price u <= exec_price u' -> min_exec u <= descaled_exec_price u'.
Proof.
  intros Hf Hf' Hm Hs H. unfold descaled_exec_price. rewrite Hf'.
  unfold min_scaled_exec_gas_price, su64, clampZ in H.
  assert (0 <= min_exec u * factor u) by (apply Z.mul_nonneg_nonneg; lia).
  apply Z.div_le_lower_bound; lia.
Qed.

Lemma descaled_da_within u u' :
  1 <= factor u -> factor u' = factor u -> 0 <= min_da u ->
  Z.max (max_da u) (min_da u) * factor u <= u64M ->
  min_scaled_da_gas_price u <= da_price u' <= max_scaled_da_gas_price u ->
  min_da u <= descaled_da_price u' <= Z.max (max_da u) (min_da u).
Proof.
  intros Hf Hf' Hm Hs H. unfold descaled_da_price. rewrite Hf'.
  unfold min_scaled_da_gas_price, max_scaled_da_gas_price, su64, clampZ in H.
  assert (0 <= min_da u * factor u) by (apply Z.mul_nonneg_nonneg; lia).
  assert (min_da u * factor u <= Z.max (max_da u) (min_da u) * factor u)
    by (apply Z.mul_le_mono_nonneg_r; lia).
  split.
  - apply Z.div_le_lower_bound; lia.
  - apply Z.div_le_upper_bound; lia.
Qed.

(* ---- invariant over sequences ---- *)

Definition Inv (u : updater) : Prop :=
  min_scaled_exec_gas_price u <= exec_price u /\
  min_scaled_da_gas_price u <= da_price u <= max_scaled_da_gas_price u.

Lemma config_eq_bounds u u' : ConfigEq u u' ->
  min_scaled_exec_gas_price u' = min_scaled_exec_gas_price u /\
  min_scaled_da_gas_price u' = min_scaled_da_gas_price u /\
  max_scaled_da_gas_price u' = max_scaled_da_gas_price u.
Proof.
  unfold ConfigEq, min_scaled_exec_gas_price, min_scaled_da_gas_price, max_scaled_da_gas_price.
  intros (-> & _ & _ & -> & -> & -> & _). auto.
Qed.

Lemma step_inv u bl o :
  wf u ->
  let '(u', bl', res) := step (u, bl) o in
  (Inv u -> Inv u') /\
  (* a successful L2 update establishes the invariant from ANY state *)
  (match o with OpL2 _ _ _ _ _ => res = R_OK -> Inv u' | _ => True end).
Proof.
  intros Hwf. pose proof (step_ok u bl o Hwf) as H.
  destruct (step (u, bl) o) as [[u' bl'] res]. destruct H as (H & _).
  apply step_okb_iff in H. unfold StepSpec in H.
  destruct o as [h used cap bytes fee | s e rb rc].
  - destruct (cap =? 0); [|destruct (negb (h =? su32 (l2_height u + 1)))].
    + destruct H as (-> & <- & _). split; [auto|discriminate].
    + destruct H as (-> & <- & _). split; [auto|discriminate].
    + destruct H as (_ & Hc & _ & He & Hd).
      destruct (config_eq_bounds u u' Hc) as (E1 & E2 & E3).
      assert (Inv u'). { unfold Inv. rewrite E1, E2, E3. split; [apply He|apply Hd]. }
      split; auto.
  - split; [|exact Logic.I].
    destruct (e <? s); [|destruct (rb =? 0)].
    + destruct H as (_ & <- & _). auto.
    + destruct H as (_ & Hc & He & Hd & _).
      destruct (config_eq_bounds u u' Hc) as (E1 & E2 & E3).
      unfold Inv. rewrite E1, E2, E3, He, Hd. auto.
    + destruct H as (_ & Hc & He & _ & Hd).
      destruct (config_eq_bounds u u' Hc) as (E1 & E2 & E3).
      unfold Inv. rewrite E1, E2, E3, He. intros (I1 & _). split; [exact I1|apply Hd].
Qed.

Theorem inv_run : forall ops u bl,
  wf u -> Inv u -> Forall (fun x => Inv (fst (fst x))) (run (u, bl) ops).
Proof.
  induction ops as [|o r IH]; intros u bl Hwf Hi; cbn [run]; [constructor|].
  pose proof (step_ok u bl o Hwf) as H. pose proof (step_inv u bl o Hwf) as H'.
  destruct (step (u, bl) o) as [[u' bl'] res]. destruct H as (_ & H2). destruct H' as (H3 & _).
  constructor; [exact (H3 Hi)|]. apply IH; auto.
Qed.

(* under the invariant the clamping disjuncts disappear: pure percentage bounds *)
Lemma ExecSpec_inv u u' : Inv u -> ExecSpec u u' ->
  Z.abs (exec_price u' - exec_price u) <= su64 (exec_price u * exec_pct u) / 100.
Proof. unfold Inv, ExecSpec. lia. Qed.

Lemma DaSpec_inv u u' : Inv u -> DaSpec u u' ->
  Z.abs (da_price u' - da_price u) <= su64 (da_price u * da_pct u) / 100.
Proof. unfold Inv, DaSpec. lia. Qed.

(* the percentage bound in plain terms (no saturation in the bound itself) *)
Lemma change_le_pct x pct : 0 <= x -> 0 <= pct -> su64 (x * pct) / 100 <= x * pct / 100.
Proof.
  intros. apply Z.div_le_mono; [lia|]. unfold su64, clampZ.
  assert (0 <= x * pct) by (apply Z.mul_nonneg_nonneg; lia). lia.
Qed.

(* ---- non-vacuity: a concrete run exercising accept / skip / DA record / error ---- *)

Definition ex_tracker : tracker := tracker_new 50 40 30 120 20.
Definition ex_updater : updater :=
  {| exec_price := 1000; min_exec := 5; exec_pct := 10; l2_height := 7; fullness_thr := 50;
     da_price := 2000; factor := 100; min_da := 1; max_da := 1000; da_pct := 10;
     total_rewards := 1000; known_cost := 5000; projected_cost := 9000; p_comp := 5; d_comp := 7;
     last_profit := -8000; second_profit := -3000; cost_per_byte := 3; unrec_bytes := 100;
     activity := ex_tracker |}.
Definition ex_ops : list op :=
  [OpL2 8 90 100 500 1000000; OpL2 10 0 100 1 1; OpL2 9 10 100 500 7;
   OpDA 8 9 700 21000; OpDA 9 8 1 1; OpDA 8 9 0 5; OpL2 10 50 0 1 1].

Example ex_wf : wf ex_updater.
Proof. unfold wf, u64M, u16M; cbn. lia. Qed.

Example ex_run_results :
  map (fun x => (snd x, exec_price (fst (fst x)), da_price (fst (fst x)))) (run (ex_updater, []) ex_ops)
  = [(0, 1100, 1800); (1, 1100, 1800); (0, 990, 1620); (0, 990, 1458); (0, 990, 1458);
     (2, 990, 1458); (9, 990, 1458)].
Proof. vm_compute. reflexivity. Qed.

Example ex_trace_ok : trace_okb (ex_updater, []) ex_ops (run (ex_updater, []) ex_ops) = true.
Proof. vm_compute. reflexivity. Qed.

(* ---- statements in the form used by Properties.v ---- *)

Lemma trace_spec_all : forall ops u bl, wf u -> TraceSpec (u, bl) ops (run (u, bl) ops).
Proof. intros. apply trace_okb_iff, trace_ok_all. assumption. Qed.

Lemma exec_ge_min_scaled_l u bl h used cap bytes fee u' bl' :
  wf u -> update_l2_block_data u bl h used cap bytes fee = (u', bl', R_OK) ->
  min_scaled_exec_gas_price u' <= exec_price u'.
Proof.
  intros Hwf Hr. destruct (l2_update_bounds _ _ _ _ _ _ _ _ _ Hwf Hr) as (Hc & _ & He & _).
  destruct (config_eq_bounds _ _ Hc) as (-> & _). apply He.
Qed.

Lemma da_within_scaled_bounds_l u bl h used cap bytes fee u' bl' :
  wf u -> update_l2_block_data u bl h used cap bytes fee = (u', bl', R_OK) ->
  min_scaled_da_gas_price u' <= da_price u' <= max_scaled_da_gas_price u'.
Proof.
  intros Hwf Hr. destruct (l2_update_bounds _ _ _ _ _ _ _ _ _ Hwf Hr) as (Hc & _ & _ & Hd & _).
  destruct (config_eq_bounds _ _ Hc) as (_ & -> & ->). apply Hd.
Qed.

Lemma da_within_scaled_bounds_record_l u bl s e rb rc u' bl' :
  wf u -> s <= e -> update_da_record_data u bl s e rb rc = (u', bl', R_OK) ->
  min_scaled_da_gas_price u' <= da_price u' <= max_scaled_da_gas_price u'.
Proof.
  intros Hwf Hse Hr. destruct (da_update_bounds _ _ _ _ _ _ _ _ Hwf Hse Hr) as (Hc & _ & _ & Hd & _).
  destruct (config_eq_bounds _ _ Hc) as (_ & -> & ->). apply Hd.
Qed.

Lemma exec_step_bounded_l u bl h used cap bytes fee u' bl' :
  wf u -> update_l2_block_data u bl h used cap bytes fee = (u', bl', R_OK) ->
  Z.abs (exec_price u' - exec_price u) <= exec_price u * exec_pct u / 100 \/
  (exec_price u < min_scaled_exec_gas_price u /\ exec_price u' = min_scaled_exec_gas_price u).
Proof.
  intros Hwf Hr. destruct (l2_update_bounds _ _ _ _ _ _ _ _ _ Hwf Hr) as (_ & _ & (_ & He) & _).
  destruct Hwf as (W1 & _ & W3 & _).
  pose proof (change_le_pct (exec_price u) (exec_pct u) ltac:(lia) ltac:(lia)). lia.
Qed.

Lemma da_step_bounded_l u bl h used cap bytes fee u' bl' :
  wf u -> update_l2_block_data u bl h used cap bytes fee = (u', bl', R_OK) ->
  Z.abs (da_price u' - da_price u) <= da_price u * da_pct u / 100 \/
  (da_price u < min_scaled_da_gas_price u /\ da_price u' = min_scaled_da_gas_price u) \/
  (max_scaled_da_gas_price u < da_price u /\ da_price u' = max_scaled_da_gas_price u).
Proof.
  intros Hwf Hr. destruct (l2_update_bounds _ _ _ _ _ _ _ _ _ Hwf Hr) as (_ & _ & _ & (_ & Hd) & _).
  destruct Hwf as (_ & W2 & _ & W4 & _).
  pose proof (change_le_pct (da_price u) (da_pct u) ltac:(lia) ltac:(lia)). lia.
Qed.

Lemma da_record_step_bounded_l u bl s e rb rc u' bl' :
  wf u -> s <= e -> update_da_record_data u bl s e rb rc = (u', bl', R_OK) ->
  exec_price u' = exec_price u /\
  (Z.abs (da_price u' - da_price u) <= da_price u * da_pct u / 100 \/
   (da_price u < min_scaled_da_gas_price u /\ da_price u' = min_scaled_da_gas_price u) \/
   (max_scaled_da_gas_price u < da_price u /\ da_price u' = max_scaled_da_gas_price u)).
Proof.
  intros Hwf Hse Hr. destruct (da_update_bounds _ _ _ _ _ _ _ _ Hwf Hse Hr) as (_ & He & _ & (_ & Hd) & _).
  destruct Hwf as (_ & W2 & _ & W4 & _).
  pose proof (change_le_pct (da_price u) (da_pct u) ltac:(lia) ltac:(lia)). split; [exact He|lia].
Qed.

(* a failing DA record (recorded_bytes = 0) never moves a price *)
Lemma da_record_error_keeps_prices_l u bl s e rc :
  s <= e ->
  let '(u', _, res) := update_da_record_data u bl s e 0 rc in
  res = R_COST_PER_BYTE /\ exec_price u' = exec_price u /\ da_price u' = da_price u.
Proof.
  intros Hse. destruct (da_err_facts u bl s e rc Hse) as (u2 & bl2 & -> & _ & He & Hd & _). auto.
Qed.

(* along any sequence started inside the bounds, every accepted update moves each price by at
   most the configured percentage of its previous value: no clamping exception *)
Lemma step_pct_under_inv u bl o :
  wf u -> Inv u ->
  let '(u', _, _) := step (u, bl) o in
  Z.abs (exec_price u' - exec_price u) <= exec_price u * exec_pct u / 100 /\
  Z.abs (da_price u' - da_price u) <= da_price u * da_pct u / 100.
Proof.
  intros Hwf Hi. pose proof (step_ok u bl o Hwf) as H.
  destruct (step (u, bl) o) as [[u' bl'] res]. destruct H as (H & _).
  apply step_okb_iff in H. unfold StepSpec in H.
  destruct Hwf as (W1 & W2 & W3 & W4 & _).
  pose proof (change_le_pct (exec_price u) (exec_pct u) ltac:(lia) ltac:(lia)) as C1.
  pose proof (change_le_pct (da_price u) (da_pct u) ltac:(lia) ltac:(lia)) as C2.
  pose proof (change_bounds (exec_price u * exec_pct u)) as B1.
  pose proof (change_bounds (da_price u * da_pct u)) as B2.
  destruct o as [h used cap bytes fee | s e rb rc].
  - destruct (cap =? 0); [|destruct (negb (h =? su32 (l2_height u + 1)))].
    + destruct H as (_ & <- & _). lia.
    + destruct H as (_ & <- & _). lia.
    + destruct H as (_ & _ & _ & He & Hd).
      pose proof (ExecSpec_inv u u' Hi He). pose proof (DaSpec_inv u u' Hi Hd). lia.
  - destruct (e <? s); [|destruct (rb =? 0)].
    + destruct H as (_ & <- & _). lia.
    + destruct H as (_ & _ & He & Hd & _). lia.
    + destruct H as (_ & _ & He & _ & Hd). pose proof (DaSpec_inv u u' Hi Hd). lia.
Qed.
