(* C35: the estimate vs. the exactly compounded integer price (table branch). *)
From FC Require Import Gas.Model Gas.Proofs35.
From Coq Require Import ZifyBool Lia.
Open Scope Z_scope.

Definition U : Z := 2 ^ 1074.          (* one unit of the exact representation *)

(* The input class on which the estimate is NOT guaranteed (known finding G2): the exactly
   compounded real price  price * (1 + pct/100)^blocks  is 2^47 or more. *)
Definition KnownClass (price pct blocks : Z) : Prop :=
  2 ^ 47 * 100 ^ blocks <= price * (100 + pct) ^ blocks.

Definition known_classb (price pct blocks : Z) : bool :=
  2 ^ 47 * 100 ^ blocks <=? price * (100 + pct) ^ blocks.

Lemma known_classb_iff price pct blocks :
  known_classb price pct blocks = true <-> KnownClass price pct blocks.
Proof. unfold known_classb, KnownClass. lia. Qed.

(* ---- accuracy of the table entries: relative deficit below 2^-48 (re-checked every run) ---- *)

Definition table_accuracy_b : bool :=
  forallb (fun b => forallb (fun p =>
      match table_value b p with
      | Some t => (100 + p) ^ b * U * (2 ^ 48 - 1) <=? t * 100 ^ b * 2 ^ 48
      | None => false
      end) (zrange (table_limit guard_percentage percentage_count_n)))
    (zrange (table_limit guard_blocks block_count_m)).

Lemma table_accuracy_ok : table_accuracy_b = true.
Proof. vm_compute. reflexivity. Qed.

Lemma table_accuracy b p t :
  0 <= b -> 0 <= p -> uses_libm b p = false -> table_value b p = Some t ->
  (100 + p) ^ b * U * (2 ^ 48 - 1) <= t * 100 ^ b * 2 ^ 48.
Proof.
  intros Hb Hp Hu Ht. unfold uses_libm in Hu. apply Bool.orb_false_iff in Hu as (H1 & H2).
  apply guard_false_limit in H1, H2.
  pose proof table_accuracy_ok as H. unfold table_accuracy_b in H.
  rewrite forallb_forall in H. specialize (H b (in_zrange _ _ (conj Hb H1))).
  rewrite forallb_forall in H. specialize (H p (in_zrange _ _ (conj Hp H2))).
  rewrite Ht in H. lia.
Qed.

(* ---- the compounded integer price is below the real compounding ---- *)

Lemma next_price_bound q pct : 0 <= q -> 0 <= pct ->
  0 <= next_price q pct /\ next_price q pct * 100 <= q * (100 + pct).
Proof.
  intros Hq Hp. unfold next_price.
  assert (0 <= q * pct) by (apply Z.mul_nonneg_nonneg; lia).
  assert (H1 : su64 (q * pct) <= q * pct) by (unfold su64, clampZ; lia).
  assert (H0 : 0 <= su64 (q * pct)) by (unfold su64, clampZ, u64M; lia).
  pose proof (Z.mul_div_le (su64 (q * pct)) 100 ltac:(lia)) as H2.
  assert (0 <= su64 (q * pct) / 100) by (apply Z.div_pos; lia).
  unfold su64 at 1 3, clampZ, u64M. lia.
Qed.

Lemma compound_bound : forall n q pct, 0 <= q -> 0 <= pct ->
  0 <= compound n q pct /\
  compound n q pct * 100 ^ Z.of_nat n <= q * (100 + pct) ^ Z.of_nat n.
Proof.
  induction n as [|n IH]; intros q pct Hq Hp.
  - cbn [compound]. cbn. lia.
  - cbn [compound]. destruct (next_price_bound q pct Hq Hp) as (N0 & N1).
    destruct (IH (next_price q pct) pct N0 Hp) as (I0 & I1). split; [exact I0|].
    rewrite Nat2Z.inj_succ, !Z.pow_succ_r by lia.
    set (C := compound n (next_price q pct) pct) in *.
    set (A := 100 ^ Z.of_nat n) in *. set (B := (100 + pct) ^ Z.of_nat n) in *.
    assert (0 <= B) by (apply Z.pow_nonneg; lia).
    clearbody C A B.
    apply Z.le_trans with (next_price q pct * B * 100).
    { replace (C * (100 * A)) with (C * A * 100) by ring. lia. }
    replace (next_price q pct * B * 100) with (next_price q pct * 100 * B) by ring.
    replace (q * ((100 + pct) * B)) with (q * (100 + pct) * B) by ring.
    apply Z.mul_le_mono_nonneg_r; assumption.
Qed.

Lemma compound_le_u64 : forall n q pct, 0 <= q <= u64M -> compound n q pct <= u64M.
Proof.
  induction n as [|n IH]; intros q pct Hq; cbn [compound]; [lia|].
  apply IH. unfold next_price. generalize (q + su64 (q * pct) / 100). intros z.
  unfold su64, clampZ, u64M. lia.
Qed.

(* ---- rounding loses at most a relative 2^-52 (floor bound; enough here) ---- *)

Lemma round_q_lower a k : 0 <= a -> 0 <= k ->
  (a / 2 ^ k) * (2 ^ 52 - 1) <= round_q a k * 2 ^ 52.
Proof.
  intros Ha Hk. unfold round_q. rewrite Z.shiftr_div_pow2 by lia.
  pose proof (pow2_pos k Hk) as HK.
  set (x := a / 2 ^ k). assert (Hx : 0 <= x) by (apply Z.div_pos; lia).
  set (g := Z.max 0 (bitlen x - 53)). assert (Hg : 0 <= g) by lia.
  pose proof (pow2_pos g Hg) as HG.
  rewrite Z.shiftl_mul_pow2 by lia.
  destruct (Z.eq_dec (k + g) 0) as [E|E].
  - assert (k = 0) by lia. assert (g = 0) by lia. rewrite E.
    unfold rne_shift. cbn [Z.leb Z.compare]. subst k. replace g with 0 by lia.
    unfold x. rewrite Z.pow_0_r, Z.div_1_r. lia.
  - pose proof (rne_shift_bounds a (k + g) ltac:(lia)) as (R & _).
    assert (Hdd : a / 2 ^ (k + g) = x / 2 ^ g).
    { rewrite Z.pow_add_r by lia. rewrite <- Z.div_div by lia. reflexivity. }
    rewrite Hdd in R.
    pose proof (Z.mod_pos_bound x (2 ^ g) HG) as Hm.
    pose proof (Z.div_mod x (2 ^ g) ltac:(lia)) as Hdm.
    set (y := x / 2 ^ g) in *. set (r := rne_shift a (k + g)) in *.
    assert (Hy : x - 2 ^ g + 1 <= y * 2 ^ g) by lia.
    assert (Hr : y * 2 ^ g <= r * 2 ^ g) by (apply Z.mul_le_mono_nonneg_r; lia).
    destruct (Z.eq_dec g 0) as [G0|G0].
    + rewrite G0 in *. rewrite Z.pow_0_r in *. lia.
    + assert (Hbl : g = bitlen x - 53) by lia.
      pose proof (bitlen_lower x ltac:(lia)) as HL.
      assert (HP : 2 ^ (bitlen x - 1) = 2 ^ g * 2 ^ 52).
      { rewrite <- Z.pow_add_r by lia. f_equal. lia. }
      lia.
Qed.

(* u64 -> f64 is exact below 2^53 *)
Lemma f_of_u64_exact p : 0 <= p < 2 ^ 53 -> f_of_u64 p = FFin (p * U).
Proof.
  intros Hp. unfold f_of_u64, fl_of_q, round_q. rewrite Z.shiftr_0_r.
  rewrite (Z.shiftl_mul_pow2 p 1074) by lia. fold U.
  destruct (Z.eq_dec p 0) as [->|P0].
  { vm_compute. reflexivity. }
  assert (Hbl : bitlen (p * U) = bitlen p + 1074).
  { unfold bitlen. assert (0 < p * U) by (unfold U; pose proof (pow2_pos 1074); nia).
    destruct (p * U <=? 0) eqn:E1; [lia|]. destruct (p <=? 0) eqn:E2; [lia|].
    unfold U. rewrite Z.log2_mul_pow2 by lia. lia. }
  assert (Hbp : 1 <= bitlen p <= 53).
  { split.
    - unfold bitlen. destruct (p <=? 0) eqn:E; [lia|]. pose proof (Z.log2_nonneg p). lia.
    - destruct (Z_le_gt_dec (bitlen p) 53) as [|G]; [assumption|exfalso].
      pose proof (bitlen_lower p ltac:(lia)).
      assert (2 ^ 53 <= 2 ^ (bitlen p - 1)) by (apply Z.pow_le_mono_r; lia). lia. }
  rewrite Hbl.
  set (g := Z.max 0 (bitlen p + 1074 - 53)).
  assert (Hg : 0 < g <= 1074) by lia.
  assert (HU : U = 2 ^ (1074 - g) * 2 ^ g).
  { unfold U. rewrite <- Z.pow_add_r by lia. f_equal. lia. }
  assert (Hr : rne_shift (p * U) (0 + g) = p * 2 ^ (1074 - g)).
  { unfold rne_shift. replace (0 + g) with g by lia. destruct (g <=? 0) eqn:E; [lia|].
    rewrite Z.shiftr_div_pow2 by lia.
    assert (Hd : p * U / 2 ^ g = p * 2 ^ (1074 - g)).
    { rewrite HU. rewrite Z.mul_assoc. apply Z.div_mul. pose proof (pow2_pos g); lia. }
    rewrite Hd. rewrite !Z.shiftl_mul_pow2 by lia.
    replace (p * U - p * 2 ^ (1074 - g) * 2 ^ g) with 0 by (rewrite HU; ring).
    pose proof (pow2_pos (g - 1) ltac:(lia)).
    destruct (0 <? 1 * 2 ^ (g - 1)) eqn:E2; [reflexivity|lia]. }
  rewrite Hr. rewrite Z.shiftl_mul_pow2 by lia.
  replace (p * 2 ^ (1074 - g) * 2 ^ g) with (p * U) by (rewrite HU; ring).
  rewrite Hbl. destruct (2098 <? bitlen p + 1074) eqn:E; [lia|reflexivity].
Qed.

(* ceil(B / U) >= C as soon as (C - 1) * U < B *)
Lemma ceil_ge B C : (C - 1) * U < B -> C <= Z.shiftr (B + (Z.shiftl 1 1074 - 1)) 1074.
Proof.
  intros H. rewrite Z.shiftr_div_pow2, Z.shiftl_mul_pow2 by lia. fold U.
  assert (0 < U) by (apply pow2_pos; lia).
  apply Z.div_le_lower_bound; lia.
Qed.

(* the arithmetic core: three roundings of relative loss 2^-52 and a table entry of relative
   deficit 2^-48 cannot lose a whole unit below 2^47 *)
Lemma no_unit_lost B C : 0 <= C < 2 ^ 47 ->
  C * U * ((2 ^ 48 - 1) * ((2 ^ 52 - 1) * (2 ^ 52 - 1))) <= B * (2 ^ 48 * (2 ^ 52 * 2 ^ 52)) ->
  (C - 1) * U < B.
Proof.
  intros HC H. assert (HU : 0 < U) by (apply pow2_pos; lia).
  assert (HX : C * U < 2 ^ 47 * U) by (apply Z.mul_lt_mono_pos_r; lia).
  assert (0 <= C * U) by (apply Z.mul_nonneg_nonneg; lia).
  set (X := C * U) in *. replace ((C - 1) * U) with (X - U) by (unfold X; ring).
  clearbody X. set (u := U) in *. clearbody u.
  change (2 ^ 47) with 140737488355328 in *.
  change ((2 ^ 48 - 1) * ((2 ^ 52 - 1) * (2 ^ 52 - 1)))
    with 5708990770823816706522339769678042279104741375 in H.
  change (2 ^ 48 * (2 ^ 52 * 2 ^ 52)) with 5708990770823839524233143877797980545530986496 in H.
  lia.
Qed.

(* ---- the partial theorem ---- *)

Theorem bound_table_partial price fh pct h m :
  0 <= price <= u64M -> 0 <= pct ->
  let blocks := su32 (h - fh) in
  uses_libm blocks pct = false ->
  ~ KnownClass price pct blocks ->
  exists r, cumulative_percentage_change price fh pct h m = Some r /\
            compound (Z.to_nat blocks) price pct <= r.
Proof.
  intros Hpr Hp blocks Hu Hk.
  destruct (cpc_table price fh pct h m Hp Hu) as (t & Ht & ->). fold blocks in Ht.
  eexists; split; [reflexivity|].
  assert (Hb : 0 <= blocks) by apply su32_nonneg.
  pose proof (table_accuracy blocks pct t Hb Hp Hu Ht) as Hacc.
  destruct (compound_bound (Z.to_nat blocks) price pct ltac:(lia) Hp) as (C0 & C1).
  rewrite Z2Nat.id in C1 by lia.
  pose proof (compound_le_u64 (Z.to_nat blocks) price pct Hpr) as C2.
  set (C := compound (Z.to_nat blocks) price pct) in *.
  unfold KnownClass in Hk.
  set (E100 := 100 ^ blocks) in *. set (Epb := (100 + pct) ^ blocks) in *.
  assert (HE100 : 0 < E100) by (apply Z.pow_pos_nonneg; lia).
  assert (HEpb : 1 <= Epb).
  { unfold Epb. replace 1 with (1 ^ blocks) by (apply Z.pow_1_l; lia). apply Z.pow_le_mono_l. lia. }
  (* C < 2^47 and price < 2^47 *)
  assert (HC : C < 2 ^ 47).
  { apply Z.mul_lt_mono_pos_r with E100; [lia|]. lia. }
  assert (Hprice : price < 2 ^ 53).
  { assert (price * 1 <= price * Epb) by (apply Z.mul_le_mono_nonneg_l; lia).
    assert (price * Epb < 2 ^ 47 * E100) by lia.
    (* blocks = 0 gives E100 = 1; in general price <= price * Epb / ... ; use C-free argument *)
    destruct (Z_lt_ge_dec price (2 ^ 53)) as [|G]; [assumption|exfalso].
    (* (100+pct)^b >= 100^b *)
    assert (E100 <= Epb) by (apply Z.pow_le_mono_l; lia).
    assert (2 ^ 53 * E100 <= price * Epb).
    { apply Z.le_trans with (price * E100).
      - apply Z.mul_le_mono_nonneg_r; lia.
      - apply Z.mul_le_mono_nonneg_l; lia. }
    assert (2 ^ 47 * E100 < 2 ^ 53 * E100) by (apply Z.mul_lt_mono_pos_r; [lia|cbn; lia]).
    lia. }
  assert (HU : 0 < U) by (apply pow2_pos; lia).
  assert (Ht0 : 0 <= t).
  { destruct (table_monotone blocks blocks pct ltac:(lia) Hp Hu Hu) as (t1 & t2 & E1 & _ & Hle).
    rewrite Ht in E1. inversion E1; subst. lia. }
  rewrite apply_multiple_post, (f_of_u64_exact price ltac:(lia)). cbn [fmul].
  (* first rounding: the product *)
  set (c := price * t).
  assert (Hc0 : 0 <= c) by (apply Z.mul_nonneg_nonneg; lia).
  assert (Hdiv : price * U * t / 2 ^ 1074 = c).
  { fold U. replace (price * U * t) with (c * U) by (unfold c; ring). apply Z.div_mul. lia. }
  assert (Hpos : 0 <= price * U * t).
  { replace (price * U * t) with (c * U) by (unfold c; ring). apply Z.mul_nonneg_nonneg; lia. }
  pose proof (round_q_lower (price * U * t) 1074 Hpos ltac:(lia)) as HA. rewrite Hdiv in HA.
  pose proof (round_q_nonneg (price * U * t) 1074 Hpos ltac:(lia)) as HA0.
  unfold fl_of_q at 1. set (A := round_q (price * U * t) 1074) in *.
  destruct (2098 <? bitlen A) eqn:EA.
  { (* overflow to +inf: the result is u64::MAX *)
    unfold post. destruct cutoff_value as (cc & ->). destruct comp1_value as (d & -> & _).
    cbn [fgt fadd f_ceil_to_u64]. exact C2. }
  unfold post. destruct cutoff_value as (cc & ->). destruct comp1_value as (d & -> & Hd).
  rewrite comp0_value. apply Z.leb_le in Hd. cbn [fgt].
  (* second rounding: the compensation addition *)
  assert (exists dd, 0 <= dd /\
            fadd (FFin A) (if cc <? A then FFin d else FFin 0) = fl_of_q (A + dd) 0) as (dd & Hdd & ->).
  { destruct (cc <? A); [exists d|exists 0]; cbn [fadd]; split; try reflexivity; lia. }
  pose proof (round_q_lower (A + dd) 0 ltac:(lia) ltac:(lia)) as HB.
  rewrite Z.pow_0_r, Z.div_1_r in HB.
  unfold fl_of_q. set (B := round_q (A + dd) 0) in *.
  destruct (2098 <? bitlen B) eqn:EB; cbn [f_ceil_to_u64]; [exact C2|].
  apply Z.min_glb; [exact C2|]. apply ceil_ge. apply no_unit_lost; [lia|].
  (* chain the inequalities *)
  set (K48 := 2 ^ 48 - 1) in *. set (K52 := 2 ^ 52 - 1) in *.
  set (P48 := 2 ^ 48) in *. set (P52 := 2 ^ 52) in *.
  assert (HK52 : 0 <= K52) by (unfold K52; cbn; lia).
  assert (HK48 : 0 <= K48) by (unfold K48; cbn; lia).
  assert (HP52 : 0 < P52) by (unfold P52; cbn; lia).
  assert (HP48 : 0 < P48) by (unfold P48; cbn; lia).
  (* cancel 100^blocks *)
  apply Z.mul_le_mono_pos_r with E100; [exact HE100|].
  (* S1: C * E100 <= price * Epb *)
  (* S2: Epb * U * K48 <= t * E100 * P48 *)
  (* S3: c * K52 <= A * P52,  A * K52 <= (A + dd) * K52 <= B * P52 *)
  assert (S3 : c * (K52 * K52) <= B * (P52 * P52)).
  { apply Z.le_trans with (A * P52 * K52).
    - replace (c * (K52 * K52)) with (c * K52 * K52) by ring.
      apply Z.mul_le_mono_nonneg_r; lia.
    - apply Z.le_trans with ((A + dd) * K52 * P52).
      + replace (A * P52 * K52) with (A * K52 * P52) by ring.
        apply Z.mul_le_mono_nonneg_r; [lia|]. apply Z.mul_le_mono_nonneg_r; lia.
      + replace (B * (P52 * P52)) with (B * P52 * P52) by ring.
        apply Z.mul_le_mono_nonneg_r; lia. }
  apply Z.le_trans with (price * Epb * U * (K48 * (K52 * K52))).
  { replace (C * U * (K48 * (K52 * K52)) * E100) with (C * E100 * (U * (K48 * (K52 * K52)))) by ring.
    replace (price * Epb * U * (K48 * (K52 * K52))) with (price * Epb * (U * (K48 * (K52 * K52)))) by ring.
    apply Z.mul_le_mono_nonneg_r; [|exact C1].
    apply Z.mul_nonneg_nonneg; [lia|]. apply Z.mul_nonneg_nonneg; [lia|].
    apply Z.mul_nonneg_nonneg; lia. }
  apply Z.le_trans with (price * (t * E100 * P48) * (K52 * K52)).
  { replace (price * Epb * U * (K48 * (K52 * K52))) with (price * (Epb * U * K48) * (K52 * K52)) by ring.
    apply Z.mul_le_mono_nonneg_r; [apply Z.mul_nonneg_nonneg; lia|].
    apply Z.mul_le_mono_nonneg_l; [lia|exact Hacc]. }
  replace (price * (t * E100 * P48) * (K52 * K52)) with (c * (K52 * K52) * (E100 * P48)) by (unfold c; ring).
  replace (B * (P48 * (P52 * P52)) * E100) with (B * (P52 * P52) * (E100 * P48)) by ring.
  apply Z.mul_le_mono_nonneg_r; [|exact S3].
  apply Z.mul_nonneg_nonneg; lia.
Qed.

(* ---- the full statement is false: witness inside the known class ---- *)

Theorem bound_table_refuted :
  exists price fh pct h m r,
    0 <= price <= u64M /\ 0 <= pct /\ uses_libm (su32 (h - fh)) pct = false /\
    KnownClass price pct (su32 (h - fh)) /\
    cumulative_percentage_change price fh pct h m = Some r /\
    r < compound (Z.to_nat (su32 (h - fh))) price pct.
Proof.
  exists 10000000000000000, 0, 13, 2, FNaN, 12768999999999998.
  split; [unfold u64M; lia|]. split; [lia|]. split; [vm_compute; reflexivity|].
  split; [apply known_classb_iff; vm_compute; reflexivity|].
  split; vm_compute; reflexivity.
Qed.

(* non-vacuity of the partial theorem: a large price outside the known class, deepest table
   entry; estimate and compounded price differ only in the last digits *)
Example bound_partial_nonvacuous :
  ~ KnownClass 500000000000 24 (su32 (24 - 0)) /\ uses_libm (su32 (24 - 0)) 24 = false /\
  exists r c, cumulative_percentage_change 500000000000 0 24 24 FNaN = Some r /\
              compound 24 500000000000 24 = c /\ (c <=? r) = true /\ (87000000000000 <? c) = true.
Proof.
  split; [intros H; apply known_classb_iff in H; vm_compute in H; discriminate|].
  split; [vm_compute; reflexivity|].
  eexists; eexists. split; [vm_compute; reflexivity|]. split; [vm_compute; reflexivity|].
  split; vm_compute; reflexivity.
Qed.

(* ---- meaning of the checker evaluated on the implementation's results ---- *)

Definition EstimatesSpec (price pct : Z) (rs : list (Z * Z)) : Prop :=
  (forall br, In br rs -> 0 <= snd br) /\
  (forall x y, In x rs -> In y rs -> fst x <= fst y -> snd x <= snd y) /\
  (forall br, In br rs -> fst br <= COMPOUND_LIMIT ->
              compound (Z.to_nat (fst br)) price pct <= snd br).

Lemma estimates_okb_iff price pct rs :
  estimates_okb price pct rs = true <-> EstimatesSpec price pct rs.
Proof.
  unfold estimates_okb, EstimatesSpec, total_okb, monotone_okb, bound_okb.
  rewrite !Bool.andb_true_iff, !forallb_forall. split.
  - intros ((H1 & H2) & H3). repeat split.
    + intros br Hi. specialize (H1 br Hi). lia.
    + intros x y Hx Hy Hle. specialize (H2 x Hx). rewrite forallb_forall in H2.
      specialize (H2 y Hy). lia.
    + intros br Hi Hl. specialize (H3 br Hi). lia.
  - intros (H1 & H2 & H3). repeat split.
    + intros br Hi. specialize (H1 br Hi). lia.
    + intros x Hx. rewrite forallb_forall. intros y Hy. specialize (H2 x y Hx Hy). lia.
    + intros br Hi. specialize (H3 br Hi). lia.
Qed.
