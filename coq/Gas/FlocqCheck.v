(* Cross-check of the exact-integer binary64 model (Gas.Model: f_of_u64, fmul, fadd, fgt) against
   Flocq's IEEE 754 binary64 (b64_mult, b64_plus, binary_normalize, Bcompare; round to nearest
   even) by computation on a grid of operands: every table entry and special values (0,
   subnormals, huge, +infinity) x boundary prices.  NaN results are compared as "is NaN". *)
From Flocq Require Import Core.Zaux IEEE754.BinarySingleNaN IEEE754.Binary IEEE754.Bits.
From FC Require Import Gas.Model.
Open Scope Z_scope.

Definition is_nan_bits (b : Z) : bool :=
  (Z.land (Z.shiftr b 52) 2047 =? 2047) && negb (Z.land b 4503599627370495 =? 0).

Definition same_bits (mine flocq : Z) : bool :=
  (mine =? flocq) || (is_nan_bits mine && is_nan_bits flocq).

Definition ref_mult (a b : Z) : Z :=
  bits_of_b64 (b64_mult mode_NE (b64_of_bits a) (b64_of_bits b)).
Definition ref_plus (a b : Z) : Z :=
  bits_of_b64 (b64_plus mode_NE (b64_of_bits a) (b64_of_bits b)).
Definition ref_of_u64 (p : Z) : Z :=
  bits_of_b64 (binary_normalize 53 1024 (eq_refl _) (eq_refl _) mode_NE p 0 false).
Definition ref_gt (a b : Z) : bool :=
  match Bcompare 53 1024 (b64_of_bits a) (b64_of_bits b) with Some Gt => true | _ => false end.

Definition my_mult (a b : Z) : Z := f_to_bits (fmul (f_const a) (f_const b)).
Definition my_plus (a b : Z) : Z := f_to_bits (fadd (f_const a) (f_const b)).
Definition my_of_u64 (p : Z) : Z := f_to_bits (f_of_u64 p).
Definition my_gt (a b : Z) : bool := fgt (f_const a) (f_const b).

Definition prices : list Z :=
  [0; 1; 2; 3; 99; 100; 101; 1000000000; 1125899906842623; 1125899906842624;
   9007199254740991; 9007199254740992; 9007199254740993; 9007199254740995; 10000000000000000;
   16948547188989277; 16948547188989278; 100000000000000000; 4611686018427387904;
   9223372036854776833; 9223372036854776832; 9223372036854777856;
   105409966135482295; 18446744073709550591; 18446744073709551614; 18446744073709551615].

(* prices used in the cross products (all of [prices] are used for the conversion check) *)
Definition xprices : list Z :=
  [0; 1; 3; 100; 9007199254740993; 10000000000000000; 16948547188989278;
   9223372036854776833; 105409966135482295; 18446744073709551615].

(* multipliers: the whole table + specials: 0, min subnormal, a subnormal, min normal, 1e-300,
   1e300, max double, +inf, 1.5, 0.1 *)
Definition multipliers : list Z :=
  concat precomputed_exp_bits ++
  [0; 1; 4503599627370495; 4503599627370496; 118865398825516; 9108283763562293798;
   9218868437227405311; 9218868437227405312; 4609434218613702656; 4591870180066957722].

Definition check_of_u64 : bool :=
  forallb (fun p => same_bits (my_of_u64 p) (ref_of_u64 p)) prices.

Definition check_mult : bool :=
  forallb (fun p => forallb (fun m => same_bits (my_mult (my_of_u64 p) m) (ref_mult (ref_of_u64 p) m))
                            multipliers) xprices.

(* products, then + 2000.0 / + 0.0, and the comparison with the cutoff *)
Definition check_plus_gt : bool :=
  forallb (fun p => forallb (fun m =>
      let x := ref_mult (ref_of_u64 p) m in
      is_nan_bits x ||
      (same_bits (my_plus x rounding_error_compensation_bits) (ref_plus x rounding_error_compensation_bits) &&
       same_bits (my_plus x 0) (ref_plus x 0) &&
       Bool.eqb (my_gt x rounding_error_cutoff_bits) (ref_gt x rounding_error_cutoff_bits)))
    multipliers) xprices.

(* multiplications among the specials themselves (overflow, underflow, inf * 0) *)
Definition specials : list Z :=
  [0; 1; 3; 4503599627370495; 4503599627370496; 4503599627370497; 118865398825516;
   9108283763562293798; 9218868437227405311; 9218868437227405312; 4609434218613702656;
   4591870180066957722; 4607182418800017408; 4602678819172646912; 4602678819172646913;
   13835058055282163712 - 9223372036854775808].
Definition check_specials : bool :=
  forallb (fun a => forallb (fun b =>
      same_bits (my_mult a b) (ref_mult a b) && same_bits (my_plus a b) (ref_plus a b) &&
      Bool.eqb (my_gt a b) (ref_gt a b)) specials) specials.

Lemma flocq_agrees_of_u64 : check_of_u64 = true.
Proof. vm_compute. reflexivity. Qed.
Lemma flocq_agrees_mult : check_mult = true.
Proof. vm_compute. reflexivity. Qed.
Lemma flocq_agrees_plus_gt : check_plus_gt = true.
Proof. vm_compute. reflexivity. Qed.
Lemma flocq_agrees_specials : check_specials = true.
Proof. vm_compute. reflexivity. Qed.

Lemma flocq_agrees_all :
  check_of_u64 = true /\ check_mult = true /\ check_plus_gt = true /\ check_specials = true.
Proof.
  exact (conj flocq_agrees_of_u64 (conj flocq_agrees_mult (conj flocq_agrees_plus_gt flocq_agrees_specials))).
Qed.
