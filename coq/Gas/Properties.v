(* Property theorems of the Gas cluster (C34, C35). Nothing but statements, [exact], and
   Print Assumptions. *)
From FC Require Import Gas.Model Gas.Proofs34 Gas.Proofs35 Gas.Proofs35b Gas.FlocqCheck.
Open Scope Z_scope.

(* ======================= C34 ======================= *)
(* wf u = the machine ranges of the fields the bounds depend on: prices in u64, percentages in
   u16, gas_price_factor in 1..=u64::MAX.  Nothing is assumed about rewards, costs, profits,
   PID components, the activity tracker or the unrecorded-blocks map. *)

(* Every state, every update sequence: each observed (before, update, result, after) satisfies
   StepSpec = { zero capacity / non-next height: rejected, state and map unchanged;
                accepted L2 block: config untouched, height advanced, ExecSpec, DaSpec;
                empty DA range: nothing changes; DA record with 0 bytes: error, prices and height
                untouched; DA record: exec price untouched, DaSpec }. *)
Theorem gas_bounds_all_sequences : forall ops u bl,
  wf u -> TraceSpec (u, bl) ops (run (u, bl) ops).
Proof. exact trace_spec_all. Qed.
Print Assumptions gas_bounds_all_sequences.

(* The decidable checker evaluated on the implementation's traces means exactly TraceSpec. *)
Theorem gas_trace_checker_sound : forall ops st tr,
  trace_okb st ops tr = true <-> TraceSpec st ops tr.
Proof. exact trace_okb_iff. Qed.
Print Assumptions gas_trace_checker_sound.

Theorem gas_wf_preserved : forall ops u bl,
  wf u -> Forall (fun x => wf (fst (fst x))) (run (u, bl) ops).
Proof. exact wf_run. Qed.
Print Assumptions gas_wf_preserved.

(* Once inside the bounds (which any accepted L2 block establishes, see exec_ge_min_scaled /
   da_within_scaled_bounds), the prices stay inside along every sequence. *)
Theorem gas_invariant_all_sequences : forall ops u bl,
  wf u -> Inv u -> Forall (fun x => Inv (fst (fst x))) (run (u, bl) ops).
Proof. exact inv_run. Qed.
Print Assumptions gas_invariant_all_sequences.

Theorem exec_ge_min_scaled : forall u bl h used cap bytes fee u' bl',
  wf u -> update_l2_block_data u bl h used cap bytes fee = (u', bl', R_OK) ->
  min_scaled_exec_gas_price u' <= exec_price u'.
Proof. exact exec_ge_min_scaled_l. Qed.
Print Assumptions exec_ge_min_scaled.

Theorem da_within_scaled_bounds : forall u bl h used cap bytes fee u' bl',
  wf u -> update_l2_block_data u bl h used cap bytes fee = (u', bl', R_OK) ->
  min_scaled_da_gas_price u' <= da_price u' <= max_scaled_da_gas_price u'.
Proof. exact da_within_scaled_bounds_l. Qed.
Print Assumptions da_within_scaled_bounds.

Theorem da_within_scaled_bounds_record : forall u bl s e rb rc u' bl',
  wf u -> s <= e -> update_da_record_data u bl s e rb rc = (u', bl', R_OK) ->
  min_scaled_da_gas_price u' <= da_price u' <= max_scaled_da_gas_price u'.
Proof. exact da_within_scaled_bounds_record_l. Qed.
Print Assumptions da_within_scaled_bounds_record.

Theorem exec_step_bounded : forall u bl h used cap bytes fee u' bl',
  wf u -> update_l2_block_data u bl h used cap bytes fee = (u', bl', R_OK) ->
  Z.abs (exec_price u' - exec_price u) <= exec_price u * exec_pct u / 100 \/
  (exec_price u < min_scaled_exec_gas_price u /\ exec_price u' = min_scaled_exec_gas_price u).
Proof. exact exec_step_bounded_l. Qed.
Print Assumptions exec_step_bounded.

Theorem da_step_bounded : forall u bl h used cap bytes fee u' bl',
  wf u -> update_l2_block_data u bl h used cap bytes fee = (u', bl', R_OK) ->
  Z.abs (da_price u' - da_price u) <= da_price u * da_pct u / 100 \/
  (da_price u < min_scaled_da_gas_price u /\ da_price u' = min_scaled_da_gas_price u) \/
  (max_scaled_da_gas_price u < da_price u /\ da_price u' = max_scaled_da_gas_price u).
Proof. exact da_step_bounded_l. Qed.
Print Assumptions da_step_bounded.

(* update_da_record_data also calls update_da_gas_price: the DA bound is per CALL, so a block
   whose processing includes k DA records (v1/service.rs handle_normal_block) can move the DA
   price by up to (1+pct/100)^(k+1). *)
Theorem da_record_step_bounded : forall u bl s e rb rc u' bl',
  wf u -> s <= e -> update_da_record_data u bl s e rb rc = (u', bl', R_OK) ->
  exec_price u' = exec_price u /\
  (Z.abs (da_price u' - da_price u) <= da_price u * da_pct u / 100 \/
   (da_price u < min_scaled_da_gas_price u /\ da_price u' = min_scaled_da_gas_price u) \/
   (max_scaled_da_gas_price u < da_price u /\ da_price u' = max_scaled_da_gas_price u)).
Proof. exact da_record_step_bounded_l. Qed.
Print Assumptions da_record_step_bounded.

Theorem da_record_error_keeps_prices : forall u bl s e rc,
  s <= e ->
  let '(u', _, res) := update_da_record_data u bl s e 0 rc in
  res = R_COST_PER_BYTE /\ exec_price u' = exec_price u /\ da_price u' = da_price u.
Proof. exact da_record_error_keeps_prices_l. Qed.
Print Assumptions da_record_error_keeps_prices.

Theorem step_bounded_under_invariant : forall u bl o,
  wf u -> Inv u ->
  let '(u', _, _) := step (u, bl) o in
  Z.abs (exec_price u' - exec_price u) <= exec_price u * exec_pct u / 100 /\
  Z.abs (da_price u' - da_price u) <= da_price u * da_pct u / 100.
Proof. exact step_pct_under_inv. Qed.
Print Assumptions step_bounded_under_invariant.

(* Non-consecutive heights: rejected, state and unrecorded-blocks map unchanged — for every
   state, without any hypothesis ... *)
Theorem skipped_height_rejected_unchanged : forall u bl h used cap bytes fee,
  h <> su32 (l2_height u + 1) ->
  update_l2_block_data u bl h used cap bytes fee = (u, bl, R_SKIPPED).
Proof. exact l2_skipped. Qed.
Print Assumptions skipped_height_rejected_unchanged.

(* ... where the expected height is l2_block_height + 1 below the u32 ceiling ... *)
Theorem accepted_iff_next_height : forall u bl h used cap bytes fee,
  wf u -> 0 <= l2_height u < u32M ->
  (snd (update_l2_block_data u bl h used cap bytes fee) = R_OK <-> h = l2_height u + 1).
Proof. exact l2_accepts_only_next. Qed.
Print Assumptions accepted_iff_next_height.

(* ... and the excluded corner: at l2_block_height = u32::MAX, saturating_add makes the expected
   height u32::MAX, so the same height is accepted again (not a consecutive height). *)
Theorem repeated_height_accepted_at_u32max : forall u bl used cap bytes fee,
  wf u -> l2_height u = u32M ->
  snd (update_l2_block_data u bl u32M used cap bytes fee) = R_OK.
Proof. exact l2_repeated_height_accepted_at_u32max. Qed.
Print Assumptions repeated_height_accepted_at_u32max.

(* Descaled prices (AlgorithmV1 / algorithm()): the bounds carry over when min * factor
   (resp. max(max,min) * factor) does not saturate u64; otherwise u64::MAX / factor may be
   below the configured minimum. *)
Theorem descaled_exec_ge_min : forall u u',
  1 <= factor u -> factor u' = factor u -> 0 <= min_exec u -> min_exec u * factor u <= u64M ->
  min_scaled_exec_gas_price u <= exec_price u' -> min_exec u <= descaled_exec_price u'.
Proof. exact Proofs34.descaled_exec_ge_min. Qed.
Print Assumptions descaled_exec_ge_min.

Theorem descaled_da_within : forall u u',
  1 <= factor u -> factor u' = factor u -> 0 <= min_da u ->
  Z.max (max_da u) (min_da u) * factor u <= u64M ->
  min_scaled_da_gas_price u <= da_price u' <= max_scaled_da_gas_price u ->
  min_da u <= descaled_da_price u' <= Z.max (max_da u) (min_da u).
Proof. exact Proofs34.descaled_da_within. Qed.
Print Assumptions descaled_da_within.

(* ======================= C35 ======================= *)
(* The table (dimensions, every f64 literal as its exact bit pattern, the comparison operators
   of the guard, the two rounding constants) is Gas/ExpTable.v, regenerated from utils.rs by
   translators/exptable2coq.py on every run.  binary64 arithmetic is modelled exactly (integers
   in units of 2^-1074, round to nearest even); libm's exp/ln are NOT modelled: the multiplier
   of the non-table branch is an argument (the value the implementation computed). *)

(* Totality: for every u32 horizon and every u64 percentage (and ANY libm multiplier) the
   function returns; in particular every (blocks, percentage) the guard sends to the table is
   inside the table.  (With the original guard `>` this fails: table_total_ok does not compute
   to true and the model returns None for blocks = 25 / percentage = 25.) *)
Theorem table_lookup_in_bounds : forall b p,
  0 <= b -> 0 <= p -> uses_libm b p = false -> exists t, table_value b p = Some t.
Proof. exact table_total. Qed.
Print Assumptions table_lookup_in_bounds.

Theorem estimate_total : forall price fh pct h m,
  0 <= pct -> exists r, cumulative_percentage_change price fh pct h m = Some r.
Proof. exact cpc_total. Qed.
Print Assumptions estimate_total.

Theorem worst_case_estimate_total : forall exec_price da_price fh pct da_pct h m m',
  0 <= pct -> 0 <= da_pct ->
  exists r, worst_case (cumulative_percentage_change exec_price fh pct h m)
                       (cumulative_percentage_change da_price fh da_pct h m') = Some r.
Proof. exact worst_case_total. Qed.
Print Assumptions worst_case_estimate_total.

(* Round-to-nearest-even onto the binary64 grid is monotone (the lemma the next two rest on). *)
Theorem round_to_nearest_even_monotone : forall a b k,
  0 <= a <= b -> 0 <= k -> round_q a k <= round_q b k.
Proof. exact round_q_mono. Qed.
Print Assumptions round_to_nearest_even_monotone.

(* Monotone in the horizon, table branch: all prices, all percentages, all pairs of horizons
   that both use the table. *)
Theorem estimate_monotone_in_horizon_table : forall price fh pct h1 h2 m1 m2,
  0 <= price -> 0 <= pct -> su32 (h1 - fh) <= su32 (h2 - fh) ->
  uses_libm (su32 (h1 - fh)) pct = false -> uses_libm (su32 (h2 - fh)) pct = false ->
  exists r1 r2, cumulative_percentage_change price fh pct h1 m1 = Some r1 /\
                cumulative_percentage_change price fh pct h2 m2 = Some r2 /\ r1 <= r2.
Proof. exact cpc_monotone_table. Qed.
Print Assumptions estimate_monotone_in_horizon_table.

(* Monotone in the horizon, libm branch: PARTIAL -- relative to the libm oracle: if the
   multipliers the implementation computed are finite and ordered, so are the estimates.
   (That exp(blocks * ln(..)) is monotone in blocks, and the table/libm seam, are checked on the
   implementation's outputs by Pcheck, not proved.) *)
Theorem estimate_monotone_in_horizon_libm_partial : forall price fh pct h1 h2 t1 t2,
  0 <= price -> 0 <= t1 <= t2 ->
  uses_libm (su32 (h1 - fh)) pct = true -> uses_libm (su32 (h2 - fh)) pct = true ->
  exists r1 r2, cumulative_percentage_change price fh pct h1 (FFin t1) = Some r1 /\
                cumulative_percentage_change price fh pct h2 (FFin t2) = Some r2 /\ r1 <= r2.
Proof. exact cpc_monotone_libm. Qed.
Print Assumptions estimate_monotone_in_horizon_libm_partial.

(* Bounding the compounded price: the full statement (for all prices) is FALSE ... *)
Theorem estimate_bounds_compounded_refuted :
  exists price fh pct h m r,
    0 <= price <= u64M /\ 0 <= pct /\ uses_libm (su32 (h - fh)) pct = false /\
    KnownClass price pct (su32 (h - fh)) /\
    cumulative_percentage_change price fh pct h m = Some r /\
    r < compound (Z.to_nat (su32 (h - fh))) price pct.
Proof. exact bound_table_refuted. Qed.
Print Assumptions estimate_bounds_compounded_refuted.

(* ... and holds in the table branch outside KnownClass = { price * (1+pct/100)^blocks >= 2^47 }. *)
Theorem estimate_bounds_compounded_partial : forall price fh pct h m,
  0 <= price <= u64M -> 0 <= pct ->
  let blocks := su32 (h - fh) in
  uses_libm blocks pct = false ->
  ~ KnownClass price pct blocks ->
  exists r, cumulative_percentage_change price fh pct h m = Some r /\
            compound (Z.to_nat blocks) price pct <= r.
Proof. exact bound_table_partial. Qed.
Print Assumptions estimate_bounds_compounded_partial.

Theorem estimates_checker_sound : forall price pct rs,
  estimates_okb price pct rs = true <-> EstimatesSpec price pct rs.
Proof. exact estimates_okb_iff. Qed.
Print Assumptions estimates_checker_sound.

(* The integer model of binary64 agrees with Flocq's IEEE 754 binary64 operations on a grid
   (every table entry x boundary prices, subnormals, overflow, inf * 0). *)
Theorem float_model_agrees_with_flocq :
  check_of_u64 = true /\ check_mult = true /\ check_plus_gt = true /\ check_specials = true.
Proof. exact flocq_agrees_all. Qed.
Print Assumptions float_model_agrees_with_flocq.
