(* Property theorems of the Gas cluster (C34, C35). Nothing but statements, [exact], and
   Print Assumptions. *)
From FC Require Import Gas.Model Gas.Proofs34.
Open Scope Z_scope.

(* ======================= C34 ======================= *)
(* wf u = the machine ranges of the fields the bounds depend on: prices in u64, percentages in
   u16, gas_price_factor in 1..=u64::MAX.  Nothing is assumed about rewards, costs, profits,
   PID components, the activity tracker or the unrecorded-blocks map. *)

(* Every state, every update sequence: each observed (before, update, result, after) satisfies
   StepSpec = { zero capacity / non-next height: rejected, state and map unchanged;
                accepted L2 block: config untouched, height advanced, ExecSpec, DaSpec;
                empty DA range: nothing changes; DA record with 0 bytes: error, prices and height
                untouched; DA record: exec price untouched, DaSpec }. *)
Theorem gas_bounds_all_sequences : forall ops u bl,
  wf u -> TraceSpec (u, bl) ops (run (u, bl) ops).
Proof. exact trace_spec_all. Qed.
Print Assumptions gas_bounds_all_sequences.

(* The decidable checker evaluated on the implementation's traces means exactly TraceSpec. *)
Theorem gas_trace_checker_sound : forall ops st tr,
  trace_okb st ops tr = true <-> TraceSpec st ops tr.
Proof. exact trace_okb_iff. Qed.
Print Assumptions gas_trace_checker_sound.

Theorem gas_wf_preserved : forall ops u bl,
  wf u -> Forall (fun x => wf (fst (fst x))) (run (u, bl) ops).
Proof. exact wf_run. Qed.
Print Assumptions gas_wf_preserved.

(* Once inside the bounds (which any accepted L2 block establishes, see exec_ge_min_scaled /
   da_within_scaled_bounds), the prices stay inside along every sequence. *)
Theorem gas_invariant_all_sequences : forall ops u bl,
  wf u -> Inv u -> Forall (fun x => Inv (fst (fst x))) (run (u, bl) ops).
Proof. exact inv_run. Qed.
Print Assumptions gas_invariant_all_sequences.

Theorem exec_ge_min_scaled : forall u bl h used cap bytes fee u' bl',
  wf u -> update_l2_block_data u bl h used cap bytes fee = (u', bl', R_OK) ->
  min_scaled_exec_gas_price u' <= exec_price u'.
Proof. exact exec_ge_min_scaled_l. Qed.
Print Assumptions exec_ge_min_scaled.

Theorem da_within_scaled_bounds : forall u bl h used cap bytes fee u' bl',
  wf u -> update_l2_block_data u bl h used cap bytes fee = (u', bl', R_OK) ->
  min_scaled_da_gas_price u' <= da_price u' <= max_scaled_da_gas_price u'.
Proof. exact da_within_scaled_bounds_l. Qed.
Print Assumptions da_within_scaled_bounds.

Theorem da_within_scaled_bounds_record : forall u bl s e rb rc u' bl',
  wf u -> s <= e -> update_da_record_data u bl s e rb rc = (u', bl', R_OK) ->
  min_scaled_da_gas_price u' <= da_price u' <= max_scaled_da_gas_price u'.
Proof. exact da_within_scaled_bounds_record_l. Qed.
Print Assumptions da_within_scaled_bounds_record.

Theorem exec_step_bounded : forall u bl h used cap bytes fee u' bl',
  wf u -> update_l2_block_data u bl h used cap bytes fee = (u', bl', R_OK) ->
  Z.abs (exec_price u' - exec_price u) <= exec_price u * exec_pct u / 100 \/
  (exec_price u < min_scaled_exec_gas_price u /\ exec_price u' = min_scaled_exec_gas_price u).
Proof. exact exec_step_bounded_l. Qed.
Print Assumptions exec_step_bounded.

Theorem da_step_bounded : forall u bl h used cap bytes fee u' bl',
  wf u -> update_l2_block_data u bl h used cap bytes fee = (u', bl', R_OK) ->
  Z.abs (da_price u' - da_price u) <= da_price u * da_pct u / 100 \/
  (da_price u < min_scaled_da_gas_price u /\ da_price u' = min_scaled_da_gas_price u) \/
  (max_scaled_da_gas_price u < da_price u /\ da_price u' = max_scaled_da_gas_price u).
Proof. exact da_step_bounded_l. Qed.
Print Assumptions da_step_bounded.

(* update_da_record_data also calls update_da_gas_price: the DA bound is per CALL, so a block
   whose processing includes k DA records (v1/service.rs handle_normal_block) can move the DA
   price by up to (1+pct/100)^(k+1). *)
Theorem da_record_step_bounded : forall u bl s e rb rc u' bl',
  wf u -> s <= e -> update_da_record_data u bl s e rb rc = (u', bl', R_OK) ->
  exec_price u' = exec_price u /\
  (Z.abs (da_price u' - da_price u) <= da_price u * da_pct u / 100 \/
   (da_price u < min_scaled_da_gas_price u /\ da_price u' = min_scaled_da_gas_price u) \/
   (max_scaled_da_gas_price u < da_price u /\ da_price u' = max_scaled_da_gas_price u)).
Proof. exact da_record_step_bounded_l. Qed.
Print Assumptions da_record_step_bounded.

Theorem da_record_error_keeps_prices : forall u bl s e rc,
  s <= e ->
  let '(u', _, res) := update_da_record_data u bl s e 0 rc in
  res = R_COST_PER_BYTE /\ exec_price u' = exec_price u /\ da_price u' = da_price u.
Proof. exact da_record_error_keeps_prices_l. Qed.
Print Assumptions da_record_error_keeps_prices.

Theorem step_bounded_under_invariant : forall u bl o,
  wf u -> Inv u ->
  let '(u', _, _) := step (u, bl) o in
  Z.abs (exec_price u' - exec_price u) <= exec_price u * exec_pct u / 100 /\
  Z.abs (da_price u' - da_price u) <= da_price u * da_pct u / 100.
Proof. exact step_pct_under_inv. Qed.
Print Assumptions step_bounded_under_invariant.

(* Non-consecutive heights: rejected, state and unrecorded-blocks map unchanged — for every
   state, without any hypothesis ... *)
Theorem skipped_height_rejected_unchanged : forall u bl h used cap bytes fee,
  h <> su32 (l2_height u + 1) ->
  update_l2_block_data u bl h used cap bytes fee = (u, bl, R_SKIPPED).
Proof. exact l2_skipped. Qed.
Print Assumptions skipped_height_rejected_unchanged.

(* ... where the expected height is l2_block_height + 1 below the u32 ceiling ... *)
Theorem accepted_iff_next_height : forall u bl h used cap bytes fee,
  wf u -> 0 <= l2_height u < u32M ->
  (snd (update_l2_block_data u bl h used cap bytes fee) = R_OK <-> h = l2_height u + 1).
Proof. exact l2_accepts_only_next. Qed.
Print Assumptions accepted_iff_next_height.

(* ... and the excluded corner: at l2_block_height = u32::MAX, saturating_add makes the expected
   height u32::MAX, so the same height is accepted again (not a consecutive height). *)
Theorem repeated_height_accepted_at_u32max : forall u bl used cap bytes fee,
  wf u -> l2_height u = u32M ->
  snd (update_l2_block_data u bl u32M used cap bytes fee) = R_OK.
Proof. exact l2_repeated_height_accepted_at_u32max. Qed.
Print Assumptions repeated_height_accepted_at_u32max.

(* Descaled prices (AlgorithmV1 / algorithm()): the bounds carry over when min * factor
   (resp. max(max,min) * factor) does not saturate u64; otherwise u64::MAX / factor may be
   below the configured minimum. *)
Theorem descaled_exec_ge_min : forall u u',
  1 <= factor u -> factor u' = factor u -> 0 <= min_exec u -> min_exec u * factor u <= u64M ->
  min_scaled_exec_gas_price u <= exec_price u' -> min_exec u <= descaled_exec_price u'.
Proof. exact Proofs34.descaled_exec_ge_min. Qed.
Print Assumptions descaled_exec_ge_min.

Theorem descaled_da_within : forall u u',
  1 <= factor u -> factor u' = factor u -> 0 <= min_da u ->
  Z.max (max_da u) (min_da u) * factor u <= u64M ->
  min_scaled_da_gas_price u <= da_price u' <= max_scaled_da_gas_price u ->
  min_da u <= descaled_da_price u' <= Z.max (max_da u) (min_da u).
Proof. exact Proofs34.descaled_da_within. Qed.
Print Assumptions descaled_da_within.
