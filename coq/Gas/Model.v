(* Executable model of fuel-gas-price-algorithm:
     crates/fuel-gas-price-algorithm/src/v1.rs     AlgorithmUpdaterV1, L2ActivityTracker (C34)
     crates/fuel-gas-price-algorithm/src/utils.rs  cumulative_percentage_change          (C35)
   All machine arithmetic is over Z with the saturation / checked / truncating behaviour of
   the Rust operators written out (u16 / u32 / u64 / u128 / i128).  Definitions only. *)
From FC Require Export Common.T.
From FC Require Export Gas.ExpTable.
Open Scope Z_scope.

(* ------------------------------------------------------------------ *)
(* machine integers                                                    *)

Definition u8M   : Z := 255.
Definition u16M  : Z := 65535.
Definition u32M  : Z := 4294967295.
Definition u64M  : Z := 18446744073709551615.
Definition u128M : Z := 340282366920938463463374607431768211455.
Definition i128M : Z := 170141183460469231731687303715884105727.
Definition i128m : Z := -170141183460469231731687303715884105728.

Definition clampZ (lo hi z : Z) : Z := Z.max lo (Z.min hi z).
Definition su16 (z : Z) : Z := clampZ 0 u16M z.
Definition su32 (z : Z) : Z := clampZ 0 u32M z.
Definition su64 (z : Z) : Z := clampZ 0 u64M z.
Definition su128 (z : Z) : Z := clampZ 0 u128M z.
Definition si128 (z : Z) : Z := clampZ i128m i128M z.

(* i128::checked_div: None on division by zero and on MIN / -1; truncating otherwise *)
Definition i128_checked_div (a b : Z) : option Z :=
  if b =? 0 then None
  else if (a =? i128m) && (b =? -1) then None
  else Some (Z.quot a b).

(* u128::div_ceil, d <> 0 *)
Definition div_ceil (n d : Z) : Z :=
  n / d + (if n mod d =? 0 then 0 else 1).

(* ------------------------------------------------------------------ *)
(* C34: AlgorithmUpdaterV1                                             *)

Record tracker := {
  max_activity : Z;            (* u16 *)
  capped_thr : Z;              (* u16 capped_activity_threshold *)
  decrease_thr : Z;            (* u16 decrease_activity_threshold *)
  chain_activity : Z;          (* u16 *)
  block_thr : Z                (* ClampedPercentage block_activity_threshold *)
}.

Record updater := {
  exec_price : Z;              (* u64 new_scaled_exec_price *)
  min_exec : Z;                (* u64 min_exec_gas_price *)
  exec_pct : Z;                (* u16 exec_gas_price_change_percent *)
  l2_height : Z;               (* u32 l2_block_height *)
  fullness_thr : Z;            (* ClampedPercentage l2_block_fullness_threshold_percent *)
  da_price : Z;                (* u64 new_scaled_da_gas_price *)
  factor : Z;                  (* NonZeroU64 gas_price_factor *)
  min_da : Z;                  (* u64 min_da_gas_price *)
  max_da : Z;                  (* u64 max_da_gas_price *)
  da_pct : Z;                  (* u16 max_da_gas_price_change_percent *)
  total_rewards : Z;           (* u128 total_da_rewards *)
  known_cost : Z;              (* u128 latest_known_total_da_cost *)
  projected_cost : Z;          (* u128 projected_total_da_cost *)
  p_comp : Z;                  (* i64 da_p_component *)
  d_comp : Z;                  (* i64 da_d_component *)
  last_profit : Z;             (* i128 *)
  second_profit : Z;           (* i128 second_to_last_profit *)
  cost_per_byte : Z;           (* u128 latest_da_cost_per_byte *)
  unrec_bytes : Z;             (* u128 unrecorded_blocks_bytes *)
  activity : tracker
}.

(* BTreeMap<Height, Bytes>, ascending by height *)
Definition blocks := list (Z * Z).

Fixpoint bt_insert (h b : Z) (m : blocks) : blocks :=
  match m with
  | [] => [(h, b)]
  | (h', b') :: r =>
      if h <? h' then (h, b) :: m
      else if h =? h' then (h, b) :: r
      else (h', b') :: bt_insert h b r
  end.

(* ClampedPercentage::new *)
Definition clamped_pct (v : Z) : Z := Z.min v 100.

(* L2ActivityTracker::new_full / new *)
Definition tracker_new (normal capped decrease act thr : Z) : tracker :=
  let decrease_activity_threshold := decrease in
  let capped_activity_threshold := su16 (decrease + capped) in
  let max_act := su16 (capped_activity_threshold + normal) in
  {| max_activity := max_act;
     capped_thr := capped_activity_threshold;
     decrease_thr := decrease_activity_threshold;
     chain_activity := Z.min act max_act;
     block_thr := clamped_pct thr |}.

Inductive safety := Normal | Capped | AlwaysDecrease.

Definition safety_mode (t : tracker) : safety :=
  if capped_thr t <=? chain_activity t then Normal
  else if decrease_thr t <=? chain_activity t then Capped
  else AlwaysDecrease.

Definition tracker_update (t : tracker) (block_usage : Z) : tracker :=
  let act :=
    if block_usage <? block_thr t then su16 (chain_activity t - 1)
    else Z.min (su16 (chain_activity t + 1)) (max_activity t) in
  {| max_activity := max_activity t; capped_thr := capped_thr t;
     decrease_thr := decrease_thr t; chain_activity := act; block_thr := block_thr t |}.

Definition set_activity (u : updater) (t : tracker) : updater :=
  {| exec_price := exec_price u; min_exec := min_exec u; exec_pct := exec_pct u;
     l2_height := l2_height u; fullness_thr := fullness_thr u; da_price := da_price u;
     factor := factor u; min_da := min_da u; max_da := max_da u; da_pct := da_pct u;
     total_rewards := total_rewards u; known_cost := known_cost u;
     projected_cost := projected_cost u; p_comp := p_comp u; d_comp := d_comp u;
     last_profit := last_profit u; second_profit := second_profit u;
     cost_per_byte := cost_per_byte u; unrec_bytes := unrec_bytes u; activity := t |}.

Definition set_exec_price (u : updater) (v : Z) : updater :=
  {| exec_price := v; min_exec := min_exec u; exec_pct := exec_pct u;
     l2_height := l2_height u; fullness_thr := fullness_thr u; da_price := da_price u;
     factor := factor u; min_da := min_da u; max_da := max_da u; da_pct := da_pct u;
     total_rewards := total_rewards u; known_cost := known_cost u;
     projected_cost := projected_cost u; p_comp := p_comp u; d_comp := d_comp u;
     last_profit := last_profit u; second_profit := second_profit u;
     cost_per_byte := cost_per_byte u; unrec_bytes := unrec_bytes u; activity := activity u |}.

Definition set_da_price (u : updater) (v : Z) : updater :=
  {| exec_price := exec_price u; min_exec := min_exec u; exec_pct := exec_pct u;
     l2_height := l2_height u; fullness_thr := fullness_thr u; da_price := v;
     factor := factor u; min_da := min_da u; max_da := max_da u; da_pct := da_pct u;
     total_rewards := total_rewards u; known_cost := known_cost u;
     projected_cost := projected_cost u; p_comp := p_comp u; d_comp := d_comp u;
     last_profit := last_profit u; second_profit := second_profit u;
     cost_per_byte := cost_per_byte u; unrec_bytes := unrec_bytes u; activity := activity u |}.

(* the accounting fields: height, rewards, known cost, projected cost, profits, cost per byte,
   unrecorded bytes *)
Definition set_acct (u : updater) (h rew known proj lp slp cpb unrec : Z) : updater :=
  {| exec_price := exec_price u; min_exec := min_exec u; exec_pct := exec_pct u;
     l2_height := h; fullness_thr := fullness_thr u; da_price := da_price u;
     factor := factor u; min_da := min_da u; max_da := max_da u; da_pct := da_pct u;
     total_rewards := rew; known_cost := known; projected_cost := proj;
     p_comp := p_comp u; d_comp := d_comp u; last_profit := lp; second_profit := slp;
     cost_per_byte := cpb; unrec_bytes := unrec; activity := activity u |}.

Definition descaled_exec_price (u : updater) : Z := exec_price u / factor u.
Definition descaled_da_price (u : updater) : Z := da_price u / factor u.

Definition min_scaled_exec_gas_price (u : updater) : Z := su64 (min_exec u * factor u).
Definition min_scaled_da_gas_price (u : updater) : Z := su64 (min_da u * factor u).
Definition max_scaled_da_gas_price (u : updater) : Z :=
  su64 (Z.max (max_da u) (min_da u) * factor u).

Definition da_portion_of_fee (u : updater) (fee_wei : Z) : Z :=
  let numerator := su128 (fee_wei * descaled_da_price u) in
  let denominator := su128 (descaled_exec_price u + descaled_da_price u) in
  if denominator =? 0 then 0 else div_ceil numerator denominator.

(* i128::try_from(u128).unwrap_or(i128::MAX) *)
Definition clamped_as_i128 (v : Z) : Z := if v <=? i128M then v else i128M.

Definition exec_change (u : updater) (principle : Z) : Z :=
  su64 (principle * exec_pct u) / 100.

Definition update_exec_gas_price (u : updater) (used capacity : Z) : updater :=
  let threshold := fullness_thr u in
  let scaled_exec_gas_price := exec_price u in
  let fullness_percent :=
    if capacity =? 0 then threshold else su64 (used * 100) / capacity in
  let scaled' :=
    if threshold <=? fullness_percent
    then su64 (scaled_exec_gas_price + exec_change u scaled_exec_gas_price)
    else su64 (scaled_exec_gas_price - exec_change u scaled_exec_gas_price) in
  set_exec_price u (Z.max (min_scaled_exec_gas_price u) scaled').

Definition p (u : updater) : Z :=
  let checked_p := i128_checked_div (last_profit u) (p_comp u) in
  si128 (match checked_p with Some x => x | None => 0 end * -1).

Definition d (u : updater) : Z :=
  let slope := si128 (last_profit u - second_profit u) in
  let checked_d := i128_checked_div slope (d_comp u) in
  si128 (match checked_d with Some x => x | None => 0 end * -1).

Definition max_change (u : updater) : Z := su64 (da_price u * da_pct u) / 100.

Definition da_change (u : updater) (p d : Z) : Z :=
  let scaled_pd_change := si128 (si128 (p + d) * factor u) in
  let max_change := max_change u in
  let clamped_change := Z.min (si128 (Z.abs scaled_pd_change)) max_change in
  si128 (Z.sgn scaled_pd_change * clamped_change).

Definition da_change_accounting_for_activity (u : updater) (maybe_da_change : Z) : Z :=
  if 0 <? maybe_da_change then
    match safety_mode (activity u) with
    | Normal => maybe_da_change
    | Capped => 0
    | AlwaysDecrease => si128 (max_change u * -1)
    end
  else maybe_da_change.

Definition update_da_gas_price (u : updater) : updater :=
  let p := p u in
  let d := d u in
  let maybe_scaled_da_change := da_change u p d in
  let scaled_da_change := da_change_accounting_for_activity u maybe_scaled_da_change in
  let sum := da_price u + scaled_da_change in
  let maybe_new_scaled_da_gas_price :=
    if (i128m <=? sum) && (sum <=? i128M) && (0 <=? sum) && (sum <=? u64M) then sum
    else if 0 <? scaled_da_change then u64M else 0 in
  set_da_price u
    (Z.min (Z.max (min_scaled_da_gas_price u) maybe_new_scaled_da_gas_price)
           (max_scaled_da_gas_price u)).

Definition update_activity (u : updater) (used capacity : Z) : updater :=
  let block_activity := su64 (used * 100) / capacity in
  let usage := clamped_pct (if block_activity <=? u8M then block_activity else 100) in
  set_activity u (tracker_update (activity u) usage).

(* result of an update: 0 = Ok, 1 = SkippedL2Block, 2 = CouldNotCalculateCostPerByte,
   9 = capacity 0 rejected by the caller (v1/service.rs validate_block_gas_capacity:
   NonZeroU64 cannot be built, the updater is not called) *)
Definition R_OK : Z := 0.
Definition R_SKIPPED : Z := 1.
Definition R_COST_PER_BYTE : Z := 2.
Definition R_ZERO_CAPACITY : Z := 9.

Definition update_l2_block_data (u : updater) (bl : blocks)
    (height used capacity block_bytes fee_wei : Z) : updater * blocks * Z :=
  let expected := su32 (l2_height u + 1) in
  if negb (height =? expected) then (u, bl, R_SKIPPED)
  else
    (* rewards (computed with the prices before the update) *)
    let block_da_reward := da_portion_of_fee u fee_wei in
    let total_da_rewards := su128 (total_rewards u + block_da_reward) in
    let rewards := clamped_as_i128 total_da_rewards in
    (* costs *)
    let block_projected_da_cost := su128 (block_bytes * cost_per_byte u) in
    let projected_total := su128 (projected_cost u + block_projected_da_cost) in
    let projected_i := clamped_as_i128 projected_total in
    (* profit *)
    let profit := si128 (rewards - projected_i) in
    let u1 := set_acct u height total_da_rewards (known_cost u) projected_total
                       profit (last_profit u) (cost_per_byte u) (unrec_bytes u) in
    (* activity *)
    let u2 := update_activity u1 used capacity in
    (* gas prices *)
    let u3 := update_exec_gas_price u2 used capacity in
    let u4 := update_da_gas_price u3 in
    (* metadata *)
    let bl' := bt_insert height block_bytes bl in
    let u5 := set_acct u4 (l2_height u4) (total_rewards u4) (known_cost u4) (projected_cost u4)
                       (last_profit u4) (second_profit u4) (cost_per_byte u4)
                       (su128 (unrec_bytes u4 + block_bytes)) in
    (u5, bl', R_OK).

(* update_unrecorded_block_bytes: remove every height of start..=end from the map, summing
   (saturating) the bytes of those present.  The Rust loop walks the range in ascending order,
   which is the order of the map. *)
Definition in_range (s e h : Z) : bool := (s <=? h) && (h <=? e).
Definition removed_total (s e : Z) (bl : blocks) : Z :=
  fold_left (fun acc hb => if in_range s e (fst hb) then su128 (acc + snd hb) else acc) bl 0.
Definition remove_range (s e : Z) (bl : blocks) : blocks :=
  filter (fun hb => negb (in_range s e (fst hb))) bl.

Definition update_da_record_data (u : updater) (bl : blocks)
    (s e recorded_bytes recording_cost : Z) : updater * blocks * Z :=
  if e <? s then (u, bl, R_OK)           (* heights.is_empty() *)
  else
    (* da_block_update *)
    let total := removed_total s e bl in
    let bl' := remove_range s e bl in
    let unrec := su128 (unrec_bytes u - total) in
    let new_da_block_cost := su128 (known_cost u + recording_cost) in
    if recorded_bytes =? 0 then
      (set_acct u (l2_height u) (total_rewards u) new_da_block_cost (projected_cost u)
                (last_profit u) (second_profit u) (cost_per_byte u) unrec, bl', R_COST_PER_BYTE)
    else
      let cpb := recording_cost / recorded_bytes in
      (* recalculate_projected_cost *)
      let projection_portion := su128 (unrec * cpb) in
      let proj := su128 (new_da_block_cost + projection_portion) in
      let u1 := set_acct u (l2_height u) (total_rewards u) new_da_block_cost proj
                         (last_profit u) (second_profit u) cpb unrec in
      (update_da_gas_price u1, bl', R_OK).

(* AlgorithmUpdaterV1::algorithm().calculate() *)
Definition calculate (u : updater) : Z := su64 (descaled_exec_price u + descaled_da_price u).

Inductive op :=
| OpL2 (height used capacity block_bytes fee_wei : Z)
| OpDA (s e recorded_bytes recording_cost : Z).

Definition step (st : updater * blocks) (o : op) : updater * blocks * Z :=
  let '(u, bl) := st in
  match o with
  | OpL2 h used cap bytes fee =>
      if cap =? 0 then (u, bl, R_ZERO_CAPACITY) else update_l2_block_data u bl h used cap bytes fee
  | OpDA s e rb rc => update_da_record_data u bl s e rb rc
  end.

(* trace of (result, state after) *)
Fixpoint run (st : updater * blocks) (ops : list op) : list (updater * blocks * Z) :=
  match ops with
  | [] => []
  | o :: r => let '(u', bl', res) := step st o in (u', bl', res) :: run (u', bl') r
  end.

(* ---- the decidable checker of one observed (before, op, result, after) ---- *)

Fixpoint blocks_eqb (a b : blocks) : bool :=
  match a, b with
  | [], [] => true
  | (h, x) :: a', (h', x') :: b' => (h =? h') && (x =? x') && blocks_eqb a' b'
  | _, _ => false
  end.

Definition tracker_eqb (a b : tracker) : bool :=
  (max_activity a =? max_activity b) && (capped_thr a =? capped_thr b) &&
  (decrease_thr a =? decrease_thr b) && (chain_activity a =? chain_activity b) &&
  (block_thr a =? block_thr b).

(* the configuration fields an update never touches *)
Definition config_eqb (a b : updater) : bool :=
  (min_exec a =? min_exec b) && (exec_pct a =? exec_pct b) &&
  (fullness_thr a =? fullness_thr b) && (factor a =? factor b) &&
  (min_da a =? min_da b) && (max_da a =? max_da b) && (da_pct a =? da_pct b) &&
  (p_comp a =? p_comp b) && (d_comp a =? d_comp b).

Definition updater_eqb (a b : updater) : bool :=
  config_eqb a b && (exec_price a =? exec_price b) && (l2_height a =? l2_height b) &&
  (da_price a =? da_price b) && (total_rewards a =? total_rewards b) &&
  (known_cost a =? known_cost b) && (projected_cost a =? projected_cost b) &&
  (last_profit a =? last_profit b) && (second_profit a =? second_profit b) &&
  (cost_per_byte a =? cost_per_byte b) && (unrec_bytes a =? unrec_bytes b) &&
  tracker_eqb (activity a) (activity b).

(* exec price: at least the scaled minimum, and moved by at most pct% of the old price
   unless the old price was below the minimum (then it is exactly the clamped minimum) *)
Definition exec_bounds_okb (u u' : updater) : bool :=
  (min_scaled_exec_gas_price u <=? exec_price u') &&
  ((Z.abs (exec_price u' - exec_price u) <=? su64 (exec_price u * exec_pct u) / 100) ||
   ((exec_price u <? min_scaled_exec_gas_price u) &&
    (exec_price u' =? min_scaled_exec_gas_price u))).

(* DA price: within the scaled bounds, and moved by at most pct% of the old price unless the
   old price was outside the bounds (then it is exactly the bound it was clamped to) *)
Definition da_bounds_okb (u u' : updater) : bool :=
  (min_scaled_da_gas_price u <=? da_price u') &&
  (da_price u' <=? max_scaled_da_gas_price u) &&
  ((Z.abs (da_price u' - da_price u) <=? su64 (da_price u * da_pct u) / 100) ||
   ((da_price u <? min_scaled_da_gas_price u) && (da_price u' =? min_scaled_da_gas_price u)) ||
   ((max_scaled_da_gas_price u <? da_price u) && (da_price u' =? max_scaled_da_gas_price u))).

Definition step_okb (st : updater * blocks) (o : op) (st' : updater * blocks) (res : Z) : bool :=
  let '(u, bl) := st in
  let '(u', bl') := st' in
  match o with
  | OpL2 h used cap bytes fee =>
      if cap =? 0 then (res =? R_ZERO_CAPACITY) && updater_eqb u u' && blocks_eqb bl bl'
      else if negb (h =? su32 (l2_height u + 1)) then
        (* skipped / repeated height: rejected, nothing changes *)
        (res =? R_SKIPPED) && updater_eqb u u' && blocks_eqb bl bl'
      else
        (res =? R_OK) && config_eqb u u' && (l2_height u' =? h) &&
        exec_bounds_okb u u' && da_bounds_okb u u'
  | OpDA s e rb rc =>
      if e <? s then (res =? R_OK) && updater_eqb u u' && blocks_eqb bl bl'
      else if rb =? 0 then
        (res =? R_COST_PER_BYTE) && config_eqb u u' && (exec_price u' =? exec_price u) &&
        (da_price u' =? da_price u) && (l2_height u' =? l2_height u)
      else
        (res =? R_OK) && config_eqb u u' && (exec_price u' =? exec_price u) &&
        (l2_height u' =? l2_height u) && da_bounds_okb u u'
  end.

Fixpoint trace_okb (st : updater * blocks) (ops : list op) (tr : list (updater * blocks * Z)) : bool :=
  match ops, tr with
  | [], [] => true
  | o :: r, (u', bl', res) :: tr' => step_okb st o (u', bl') res && trace_okb (u', bl') r tr'
  | _, _ => false
  end.

(* ---- T codecs and main34 ---- *)

Definition state_T (u : updater) : T :=
  L (map I [exec_price u; min_exec u; exec_pct u; l2_height u; fullness_thr u; da_price u;
            factor u; min_da u; max_da u; da_pct u; total_rewards u; known_cost u;
            projected_cost u; p_comp u; d_comp u; last_profit u; second_profit u;
            cost_per_byte u; unrec_bytes u;
            max_activity (activity u); capped_thr (activity u); decrease_thr (activity u);
            chain_activity (activity u); block_thr (activity u)]).

Definition mk_updater (c : list Z) (t : tracker) : option updater :=
  match c with
  | [a0; a1; a2; a3; a4; a5; a6; a7; a8; a9; a10; a11; a12; a13; a14; a15; a16; a17; a18] =>
      Some {| exec_price := a0; min_exec := a1; exec_pct := a2; l2_height := a3;
              fullness_thr := a4; da_price := a5; factor := a6; min_da := a7; max_da := a8;
              da_pct := a9; total_rewards := a10; known_cost := a11; projected_cost := a12;
              p_comp := a13; d_comp := a14; last_profit := a15; second_profit := a16;
              cost_per_byte := a17; unrec_bytes := a18; activity := t |}
  | _ => None
  end.

Definition getListZ (t : T) : option (list Z) :=
  match getL t with Some l => mapM getZ l | None => None end.

(* observed state: 24 numbers *)
Definition T_state (t : T) : option updater :=
  match getListZ t with
  | Some l =>
      match skipn 19 l with
      | [m; c; d; a; b] =>
          mk_updater (firstn 19 l)
            {| max_activity := m; capped_thr := c; decrease_thr := d; chain_activity := a;
               block_thr := b |}
      | _ => None
      end
  | None => None
  end.

(* input configuration: 19 numbers (threshold raw) + the 5 arguments of L2ActivityTracker::new *)
Definition T_config (c t : T) : option updater :=
  match getListZ c, getListZ t with
  | Some c, Some [n; cp; dc; a; thr] =>
      match mk_updater c (tracker_new n cp dc a thr) with
      | Some u =>
          Some (set_acct
                  {| exec_price := exec_price u; min_exec := min_exec u; exec_pct := exec_pct u;
                     l2_height := l2_height u; fullness_thr := clamped_pct (fullness_thr u);
                     da_price := da_price u; factor := factor u; min_da := min_da u;
                     max_da := max_da u; da_pct := da_pct u; total_rewards := total_rewards u;
                     known_cost := known_cost u; projected_cost := projected_cost u;
                     p_comp := p_comp u; d_comp := d_comp u; last_profit := last_profit u;
                     second_profit := second_profit u; cost_per_byte := cost_per_byte u;
                     unrec_bytes := unrec_bytes u; activity := activity u |}
                  (l2_height u) (total_rewards u) (known_cost u) (projected_cost u)
                  (last_profit u) (second_profit u) (cost_per_byte u) (unrec_bytes u))
      | None => None
      end
  | _, _ => None
  end.

Definition blocks_T (b : blocks) : T := L (map (fun hb => L [I (fst hb); I (snd hb)]) b).
Definition T_blocks (t : T) : option blocks :=
  match getL t with
  | Some l => mapM (fun x => match x with
                             | L [I h; I b] => Some (h, b)
                             | _ => None end) l
  | None => None
  end.

Definition T_op (t : T) : option op :=
  match t with
  | L [I 0; I h; I used; I cap; I bytes; I fee] => Some (OpL2 h used cap bytes fee)
  | L [I 1; I s; I e; I rb; I rc] => Some (OpDA s e rb rc)
  | _ => None
  end.

Definition snapshot_T (u : updater) (bl : blocks) : list T :=
  [state_T u; blocks_T bl; I (calculate u)].

Definition trace_T (tr : list (updater * blocks * Z)) : T :=
  L (map (fun x => let '(u, bl, res) := x in L (I res :: snapshot_T u bl)) tr).

Definition T_trace (t : T) : option (list (updater * blocks * Z)) :=
  match getL t with
  | Some l => mapM (fun x => match x with
                             | L [I res; s; b; _] =>
                                 match T_state s, T_blocks b with
                                 | Some u, Some bl => Some (u, bl, res)
                                 | _, _ => None
                                 end
                             | _ => None end) l
  | None => None
  end.

(* BTreeMap construction from the input list (later duplicates replace) *)
Definition blocks_of_list (l : blocks) : blocks :=
  fold_left (fun m hb => bt_insert (fst hb) (snd hb) m) l [].

Definition main34 (input observed : T) : T :=
  match input with
  | L [c; t; b; L ops] =>
      match T_config c t, T_blocks b, mapM T_op ops with
      | Some u, Some bl, Some ops =>
          let bl := blocks_of_list bl in
          let model := L [L (snapshot_T u bl); trace_T (run (u, bl) ops)] in
          let pc := match observed with
                    | L [L [s0; b0; _]; tr] =>
                        match T_state s0, T_blocks b0, T_trace tr with
                        | Some u0, Some bl0, Some tr =>
                            updater_eqb u u0 && blocks_eqb bl bl0 && trace_okb (u0, bl0) ops tr
                        | _, _, _ => false
                        end
                    | _ => false
                    end in
          L [model; tB pc]
      | _, _, _ => tErr 2
      end
  | _ => tErr 1
  end.

(* ------------------------------------------------------------------ *)
(* C35: cumulative_percentage_change                                   *)

(* binary64 restricted to what the function can produce: NaN, +infinity and the non-negative
   finite values.  Every finite double is an integer multiple of 2^-1074, so a finite value is
   represented EXACTLY by the integer n = value * 2^1074; the doubles are the n < 2^2098 whose
   binary expansion has at most 53 significant bits (subnormals: n < 2^52). *)
Inductive fl := FNaN | FInf | FFin (n : Z).

Definition bitlen (n : Z) : Z := if n <=? 0 then 0 else Z.log2 n + 1.

(* a / 2^s rounded to the nearest integer, ties to even *)
Definition rne_shift (a s : Z) : Z :=
  if s <=? 0 then a
  else
    let q := Z.shiftr a s in
    let r := a - Z.shiftl q s in
    let h := Z.shiftl 1 (s - 1) in
    if r <? h then q
    else if h <? r then q + 1
    else if Z.even q then q else q + 1.

(* round-to-nearest-even of the non-negative dyadic a / 2^k (in units of 2^-1074) onto the
   binary64 grid: the grid spacing at x is 2^g with g = max 0 (bitlen (floor x) - 53) *)
Definition round_q (a k : Z) : Z :=
  let g := Z.max 0 (bitlen (Z.shiftr a k) - 53) in
  Z.shiftl (rne_shift a (k + g)) g.

(* overflow: a rounded result >= 2^1024 (n >= 2^2098) becomes +infinity *)
Definition fl_of_q (a k : Z) : fl :=
  let n := round_q a k in if 2098 <? bitlen n then FInf else FFin n.

Definition f_of_u64 (x : Z) : fl := fl_of_q (Z.shiftl x 1074) 0.      (* u64 as f64 *)

Definition fmul (a b : fl) : fl :=
  match a, b with
  | FNaN, _ | _, FNaN => FNaN
  | FInf, FInf => FInf
  | FInf, FFin n | FFin n, FInf => if n =? 0 then FNaN else FInf
  | FFin x, FFin y => fl_of_q (x * y) 1074
  end.

Definition fadd (a b : fl) : fl :=
  match a, b with
  | FNaN, _ | _, FNaN => FNaN
  | FInf, _ | _, FInf => FInf
  | FFin x, FFin y => fl_of_q (x + y) 0
  end.

Definition fgt (a b : fl) : bool :=
  match a, b with
  | FNaN, _ | _, FNaN => false
  | FInf, FInf => false
  | FInf, FFin _ => true
  | FFin _, FInf => false
  | FFin x, FFin y => y <? x
  end.

(* approx.ceil() as u64 : NaN -> 0, saturating *)
Definition f_ceil_to_u64 (a : fl) : Z :=
  match a with
  | FNaN => 0
  | FInf => u64M
  | FFin n => Z.min u64M (Z.shiftr (n + (Z.shiftl 1 1074 - 1)) 1074)
  end.

(* bit pattern -> value; None for a negative non-zero value (cannot arise here) *)
Definition f_of_bits (bits : Z) : option fl :=
  let sign := Z.shiftr bits 63 in
  let e := Z.land (Z.shiftr bits 52) 2047 in
  let m := Z.land bits 4503599627370495 in
  if e =? 2047 then (if m =? 0 then (if sign =? 0 then Some FInf else None) else Some FNaN)
  else
    let n := if e =? 0 then m else Z.shiftl (4503599627370496 + m) (e - 1) in
    if sign =? 0 then Some (FFin n) else if n =? 0 then Some (FFin 0) else None.

(* value -> bit pattern (canonical: the argument is a double) *)
Definition f_to_bits (a : fl) : Z :=
  match a with
  | FNaN => 9221120237041090560
  | FInf => 9218868437227405312
  | FFin n =>
      if n <? 4503599627370496 then n
      else let l := bitlen n in
           Z.shiftl (l - 52) 52 + (Z.shiftr n (l - 53) - 4503599627370496)
  end.

Definition f_const (bits : Z) : fl := match f_of_bits bits with Some f => f | None => FNaN end.
Definition rounding_error_cutoff : fl := f_const rounding_error_cutoff_bits.
Definition rounding_error_compensation : fl := f_const rounding_error_compensation_bits.

Definition guard_holds (c : guard_cmp) (x bound : Z) : bool :=
  match c with GuardGt => bound <? x | GuardGe => bound <=? x end.

(* if blocks <cmp> BLOCK_COUNT_M as u32 || percentage <cmp> PERCENTAGE_COUNT_N as u64 *)
Definition uses_libm (blocks percentage : Z) : bool :=
  guard_holds guard_blocks blocks block_count_m ||
  guard_holds guard_percentage percentage percentage_count_n.

(* PRECOMPUTED_EXP[blocks as usize][percentage as usize]; None = index out of bounds = panic *)
Definition table_get (blocks percentage : Z) : option Z :=
  match nth_error precomputed_exp_bits (Z.to_nat blocks) with
  | Some row => nth_error row (Z.to_nat percentage)
  | None => None
  end.

(* the tail of the function, from the multiplier on *)
Definition apply_multiple (price : Z) (multiple : fl) : Z :=
  let approx := fmul (f_of_u64 price) multiple in
  let approx :=
    fadd approx (fmul rounding_error_compensation
                      (f_of_u64 (if fgt approx rounding_error_cutoff then 1 else 0))) in
  f_ceil_to_u64 approx.

(* libm_multiple = what f64::exp(blocks as f64 * (1.0 + percentage as f64 / 100.0).ln())
   evaluated to in the implementation (an input of the model: libm is not modelled).
   None = panic. *)
Definition cumulative_percentage_change
    (new_exec_price for_height percentage height : Z) (libm_multiple : fl) : option Z :=
  let blocks := su32 (height - for_height) in
  let multiple :=
    if uses_libm blocks percentage then Some libm_multiple
    else match table_get blocks percentage with
         | Some bits => f_of_bits bits
         | None => None
         end in
  match multiple with
  | Some m => Some (apply_multiple new_exec_price m)
  | None => None
  end.

(* AlgorithmV1::worst_case *)
Definition worst_case (exec da : option Z) : option Z :=
  match exec, da with
  | Some e, Some d => Some (su64 (e + d))
  | _, _ => None
  end.

(* The reference the estimate must bound: the maximal per-block increase applied once per
   block with integer rounding (exec_change / UniversalGasPriceProvider next price):
   p + p.saturating_mul(pct).saturating_div(100), saturating *)
Definition next_price (p pct : Z) : Z := su64 (p + su64 (p * pct) / 100).
Fixpoint compound (n : nat) (p pct : Z) : Z :=
  match n with O => p | S k => compound k (next_price p pct) pct end.

(* ---- Pcheck of C35 on one case: one price / percentage, several horizons ---- *)

Definition PANIC : Z := -777.
Definition COMPOUND_LIMIT : Z := 300.       (* the bound is evaluated for horizons up to here *)

(* results : list of (blocks, result) *)
Definition total_okb (rs : list (Z * Z)) : bool := forallb (fun br => 0 <=? snd br) rs.

Definition monotone_okb (rs : list (Z * Z)) : bool :=
  forallb (fun x => forallb (fun y => negb (fst x <=? fst y) || (snd x <=? snd y)) rs) rs.

Definition bound_okb (price pct : Z) (rs : list (Z * Z)) : bool :=
  forallb (fun br => (COMPOUND_LIMIT <? fst br) ||
                     (compound (Z.to_nat (fst br)) price pct <=? snd br)) rs.

Definition estimates_okb (price pct : Z) (rs : list (Z * Z)) : bool :=
  total_okb rs && monotone_okb rs && bound_okb price pct rs.

(* ---- T codec and main35 ---- *)

Definition optZ_T (o : option Z) : T := match o with Some z => I z | None => I PANIC end.

Definition f_of_bits_or_nan (bits : Z) : fl := match f_of_bits bits with Some f => f | None => FNaN end.

(* observed entry: (r mbits r_da mbits_da worst) *)
Definition entry35 (price fh pct da_price da_pct h : Z) (obs : T) : T :=
  let '(mb, mb_da) := match obs with
                      | L [_; I mb; _; I mb_da; _] => (mb, mb_da)
                      | _ => (-1, -1)
                      end in
  let r := cumulative_percentage_change price fh pct h (f_of_bits_or_nan mb) in
  let r_da := cumulative_percentage_change da_price fh da_pct h (f_of_bits_or_nan mb_da) in
  let worst := if (pct <=? u16M) && (da_pct <=? u16M) then optZ_T (worst_case r r_da) else I (-1) in
  L [optZ_T r; I mb; optZ_T r_da; I mb_da; worst].

Fixpoint entries35 (price fh pct da_price da_pct : Z) (hs : list Z) (obs : list T) : list T :=
  match hs with
  | [] => []
  | h :: hs' =>
      let (o, obs') := match obs with o :: r => (o, r) | [] => (L [], []) end in
      entry35 price fh pct da_price da_pct h o :: entries35 price fh pct da_price da_pct hs' obs'
  end.

Fixpoint obs_results (fh : Z) (hs : list Z) (obs : list T) (col : nat) : option (list (Z * Z)) :=
  match hs, obs with
  | [], [] => Some []
  | h :: hs', L e :: obs' =>
      match nth_error e col, obs_results fh hs' obs' col with
      | Some (I r), Some rest => Some ((su32 (h - fh), r) :: rest)
      | _, _ => None
      end
  | _, _ => None
  end.

Definition main35 (input observed : T) : T :=
  match input with
  | L [I price; I fh; I pct; hs; I da_price; I da_pct] =>
      match getListZ hs with
      | Some hs =>
          let obs := match observed with L l => l | _ => [] end in
          let model := L (entries35 price fh pct da_price da_pct hs obs) in
          let pc :=
            match obs_results fh hs obs 0, obs_results fh hs obs 2, obs_results fh hs obs 4 with
            | Some rs, Some rs_da, Some ws =>
                estimates_okb price pct rs && estimates_okb da_price da_pct rs_da &&
                ((negb ((pct <=? u16M) && (da_pct <=? u16M))) || (total_okb ws && monotone_okb ws))
            | _, _, _ => false
            end in
          L [model; tB pc]
      | None => tErr 2
      end
  | _ => tErr 1
  end.

Definition main_T (req : T) : T :=
  match req with
  | L [I 34; input; observed] => main34 input observed
  | L [I 35; input; observed] => main35 input observed
  | _ => tErr 0
  end.
