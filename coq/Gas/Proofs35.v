(* C35: cumulative_percentage_change -- totality and monotonicity in the horizon. *)
From FC Require Import Gas.Model.
From Coq Require Import ZifyBool Lia.
Open Scope Z_scope.

(* ------------------------------------------------------------------ *)
(* facts about the table as parsed from utils.rs (re-checked on every run) *)

Definition zrange (n : Z) : list Z := map Z.of_nat (seq 0 (Z.to_nat n)).

Lemma in_zrange n x : 0 <= x < n -> In x (zrange n).
Proof.
  intros H. unfold zrange. apply in_map_iff. exists (Z.to_nat x). split; [lia|].
  apply in_seq. lia.
Qed.

(* first index NOT sent to the table by a guard  `x <cmp> bound` *)
Definition table_limit (c : guard_cmp) (bound : Z) : Z :=
  match c with GuardGt => bound + 1 | GuardGe => bound end.

Lemma guard_false_limit c x bound : guard_holds c x bound = false -> x < table_limit c bound.
Proof. destruct c; cbn [guard_holds table_limit]; lia. Qed.

Definition table_value (b p : Z) : option Z :=
  match table_get b p with
  | Some bits => match f_of_bits bits with Some (FFin t) => Some t | _ => None end
  | None => None
  end.

Definition is_some {A} (o : option A) : bool := match o with Some _ => true | None => false end.

(* every (blocks, percentage) that the guard sends to the table is inside the table and
   holds a finite non-negative double *)
Definition table_total_b : bool :=
  forallb (fun b => forallb (fun p => is_some (table_value b p))
                            (zrange (table_limit guard_percentage percentage_count_n)))
          (zrange (table_limit guard_blocks block_count_m)).

Lemma table_total_ok : table_total_b = true.
Proof. vm_compute. reflexivity. Qed.

Lemma table_total b p :
  0 <= b -> 0 <= p -> uses_libm b p = false -> exists t, table_value b p = Some t.
Proof.
  intros Hb Hp Hu. unfold uses_libm in Hu. apply Bool.orb_false_iff in Hu as (H1 & H2).
  apply guard_false_limit in H1, H2.
  pose proof table_total_ok as H. unfold table_total_b in H.
  rewrite forallb_forall in H. specialize (H b (in_zrange _ _ (conj Hb H1))).
  rewrite forallb_forall in H. specialize (H p (in_zrange _ _ (conj Hp H2))).
  destruct (table_value b p) as [t|]; [eauto|discriminate].
Qed.

(* every column of the table is non-decreasing in the number of blocks *)
Definition table_monotone_b : bool :=
  forallb (fun p =>
    forallb (fun b1 =>
      forallb (fun b2 =>
        negb (b1 <=? b2) ||
        match table_value b1 p, table_value b2 p with
        | Some t1, Some t2 => (0 <=? t1) && (t1 <=? t2)
        | _, _ => false
        end) (zrange (table_limit guard_blocks block_count_m)))
      (zrange (table_limit guard_blocks block_count_m)))
    (zrange (table_limit guard_percentage percentage_count_n)).

Lemma table_monotone_ok : table_monotone_b = true.
Proof. vm_compute. reflexivity. Qed.

Lemma table_monotone b1 b2 p :
  0 <= b1 <= b2 -> 0 <= p -> uses_libm b1 p = false -> uses_libm b2 p = false ->
  exists t1 t2, table_value b1 p = Some t1 /\ table_value b2 p = Some t2 /\ 0 <= t1 <= t2.
Proof.
  intros Hb Hp Hu1 Hu2. unfold uses_libm in Hu1, Hu2.
  apply Bool.orb_false_iff in Hu1 as (H1 & H2). apply Bool.orb_false_iff in Hu2 as (H3 & _).
  apply guard_false_limit in H1, H2, H3.
  pose proof table_monotone_ok as H. unfold table_monotone_b in H.
  rewrite forallb_forall in H. specialize (H p (in_zrange _ _ (conj Hp H2))).
  rewrite forallb_forall in H. specialize (H b1 (in_zrange _ _ (conj (proj1 Hb) H1))).
  assert (Hb2 : 0 <= b2) by lia.
  rewrite forallb_forall in H. specialize (H b2 (in_zrange _ _ (conj Hb2 H3))).
  destruct (table_value b1 p) as [t1|], (table_value b2 p) as [t2|];
    try (exfalso; lia).
  exists t1, t2. repeat split; lia.
Qed.

(* the constants *)
Lemma cutoff_value : exists c, rounding_error_cutoff = FFin c.
Proof. vm_compute. eexists. reflexivity. Qed.

Definition comp0 : fl := fmul rounding_error_compensation (f_of_u64 0).
Definition comp1 : fl := fmul rounding_error_compensation (f_of_u64 1).
Lemma comp0_value : comp0 = FFin 0.
Proof. vm_compute. reflexivity. Qed.
Lemma comp1_value : exists d, comp1 = FFin d /\ (0 <=? d) = true.
Proof. vm_compute. eexists. split; reflexivity. Qed.

(* ------------------------------------------------------------------ *)
(* round-to-nearest-even is monotone                                   *)

Lemma pow2_pos s : 0 <= s -> 0 < 2 ^ s.
Proof. intros. apply Z.pow_pos_nonneg; lia. Qed.

Lemma rne_shift_bounds a s : 0 < s -> a / 2 ^ s <= rne_shift a s <= a / 2 ^ s + 1.
Proof.
  intros Hs. unfold rne_shift. destruct (s <=? 0) eqn:E; [lia|].
  rewrite Z.shiftr_div_pow2 by lia.
  destruct (_ <? _); [lia|]. destruct (_ <? _); [lia|]. destruct (Z.even _); lia.
Qed.

Lemma rne_shift_mono a b s : 0 <= s -> a <= b -> rne_shift a s <= rne_shift b s.
Proof.
  intros Hs Hab. destruct (Z.eq_dec s 0) as [->|Hs0].
  { unfold rne_shift. cbn. lia. }
  assert (Hs' : 0 < s) by lia.
  pose proof (rne_shift_bounds a s Hs') as Ha. pose proof (rne_shift_bounds b s Hs') as Hb.
  pose proof (pow2_pos s Hs) as HP.
  assert (Hq : a / 2 ^ s <= b / 2 ^ s) by (apply Z.div_le_mono; lia).
  destruct (Z.eq_dec (a / 2 ^ s) (b / 2 ^ s)) as [Heq|Hne]; [|lia].
  clear Ha Hb. unfold rne_shift. destruct (s <=? 0) eqn:E; [lia|].
  rewrite !Z.shiftr_div_pow2, !Z.shiftl_mul_pow2 by lia. rewrite <- Heq.
  set (q := a / 2 ^ s) in *. set (h := 1 * 2 ^ (s - 1)).
  destruct (a - q * 2 ^ s <? h) eqn:E1, (b - q * 2 ^ s <? h) eqn:E2,
           (h <? a - q * 2 ^ s) eqn:E3, (h <? b - q * 2 ^ s) eqn:E4, (Z.even q); lia.
Qed.

Lemma bitlen_nonneg n : 0 <= bitlen n.
Proof. unfold bitlen. destruct (n <=? 0); [lia|]. pose proof (Z.log2_nonneg n). lia. Qed.

Lemma bitlen_mono a b : a <= b -> bitlen a <= bitlen b.
Proof.
  intros H. unfold bitlen. destruct (a <=? 0) eqn:Ea, (b <=? 0) eqn:Eb; try lia.
  - pose proof (Z.log2_nonneg b). lia.
  - pose proof (Z.log2_le_mono a b H). lia.
Qed.

Lemma bitlen_upper n : 0 <= n -> n < 2 ^ bitlen n.
Proof.
  intros H. unfold bitlen. destruct (n <=? 0) eqn:E.
  - cbn. lia.
  - pose proof (Z.log2_spec n ltac:(lia)). replace (Z.log2 n + 1) with (Z.succ (Z.log2 n)) by lia. lia.
Qed.

Lemma bitlen_lower n : 0 < bitlen n -> 2 ^ (bitlen n - 1) <= n.
Proof.
  unfold bitlen. destruct (n <=? 0) eqn:E; [lia|]. intros _.
  pose proof (Z.log2_spec n ltac:(lia)). replace (Z.log2 n + 1 - 1) with (Z.log2 n) by lia. lia.
Qed.

Lemma round_q_nonneg a k : 0 <= a -> 0 <= k -> 0 <= round_q a k.
Proof.
  intros Ha Hk. unfold round_q.
  set (g := Z.max 0 (bitlen (Z.shiftr a k) - 53)).
  assert (Hg : 0 <= g) by lia.
  rewrite Z.shiftl_mul_pow2 by lia. apply Z.mul_nonneg_nonneg; [|pose proof (pow2_pos g Hg); lia].
  destruct (Z.eq_dec (k + g) 0) as [E|E].
  - rewrite E. unfold rne_shift. cbn. lia.
  - pose proof (rne_shift_bounds a (k + g) ltac:(lia)).
    assert (0 <= a / 2 ^ (k + g)) by (apply Z.div_pos; [lia|apply pow2_pos; lia]). lia.
Qed.

Theorem round_q_mono a b k : 0 <= a <= b -> 0 <= k -> round_q a k <= round_q b k.
Proof.
  intros Hab Hk. unfold round_q. rewrite !Z.shiftr_div_pow2 by lia.
  pose proof (pow2_pos k Hk) as HK.
  assert (Hq : a / 2 ^ k <= b / 2 ^ k) by (apply Z.div_le_mono; lia).
  assert (Hqa : 0 <= a / 2 ^ k) by (apply Z.div_pos; lia).
  pose proof (bitlen_mono _ _ Hq) as Hbl.
  set (ga := Z.max 0 (bitlen (a / 2 ^ k) - 53)).
  set (gb := Z.max 0 (bitlen (b / 2 ^ k) - 53)).
  assert (Hga : 0 <= ga) by lia. assert (Hgb : 0 <= gb) by lia.
  rewrite !Z.shiftl_mul_pow2 by lia.
  destruct (Z.eq_dec ga gb) as [E|E].
  - rewrite <- E. apply Z.mul_le_mono_nonneg_r; [pose proof (pow2_pos ga Hga); lia|].
    apply rne_shift_mono; lia.
  - assert (Hlt : ga < gb) by lia.
    pose proof (pow2_pos ga Hga) as HGa. pose proof (pow2_pos gb Hgb) as HGb.
    (* b side: at least 2^52 grid steps *)
    assert (Hb1 : 2 ^ (52 + gb) <= b / 2 ^ k).
    { pose proof (bitlen_lower (b / 2 ^ k) ltac:(lia)).
      assert (2 ^ (52 + gb) <= 2 ^ (bitlen (b / 2 ^ k) - 1)) by (apply Z.pow_le_mono_r; lia). lia. }
    assert (Hb2 : 2 ^ 52 <= b / 2 ^ (k + gb)).
    { rewrite Z.pow_add_r by lia. rewrite <- Z.div_div by lia.
      replace (2 ^ 52) with (2 ^ 52 * 2 ^ gb / 2 ^ gb) by (apply Z.div_mul; lia).
      apply Z.div_le_mono; [lia|]. rewrite <- Z.pow_add_r by lia. exact Hb1. }
    pose proof (rne_shift_bounds b (k + gb) ltac:(lia)) as Rb.
    (* a side: fewer than 2^53 grid steps *)
    assert (Ha1 : a / 2 ^ k < 2 ^ (53 + ga)).
    { pose proof (bitlen_upper (a / 2 ^ k) Hqa).
      assert (2 ^ bitlen (a / 2 ^ k) <= 2 ^ (53 + ga)) by (apply Z.pow_le_mono_r; lia). lia. }
    assert (Ha2 : rne_shift a (k + ga) <= 2 ^ 53).
    { destruct (Z.eq_dec (k + ga) 0) as [E0|E0].
      - assert (k = 0) by lia. assert (ga = 0) by lia. subst k. rewrite E0.
        unfold rne_shift. cbn [Z.leb Z.compare]. rewrite Z.pow_0_r, Z.div_1_r in Ha1.
        replace (53 + ga) with 53 in Ha1 by lia. lia.
      - pose proof (rne_shift_bounds a (k + ga) ltac:(lia)) as Ra.
        assert (a / 2 ^ (k + ga) < 2 ^ 53).
        { rewrite Z.pow_add_r by lia. rewrite <- Z.div_div by lia.
          apply Z.div_lt_upper_bound; [lia|]. rewrite <- Z.pow_add_r by lia.
          replace (ga + 53) with (53 + ga) by lia. exact Ha1. }
        lia. }
    assert (0 <= rne_shift a (k + ga)).
    { pose proof (round_q_nonneg a k ltac:(lia) Hk) as Hn. unfold round_q in Hn.
      rewrite Z.shiftr_div_pow2 in Hn by lia. fold ga in Hn. rewrite Z.shiftl_mul_pow2 in Hn by lia.
      apply Z.mul_nonneg_cancel_r in Hn; lia. }
    apply Z.le_trans with (2 ^ 53 * 2 ^ ga).
    { apply Z.mul_le_mono_nonneg_r; lia. }
    apply Z.le_trans with (2 ^ 52 * 2 ^ gb).
    { rewrite <- !Z.pow_add_r by lia. apply Z.pow_le_mono_r; lia. }
    apply Z.mul_le_mono_nonneg_r; lia.
Qed.

(* ------------------------------------------------------------------ *)
(* order on the float values and monotonicity of the operations         *)

Definition fle (a b : fl) : Prop :=
  match a, b with
  | FFin x, FFin y => 0 <= x <= y
  | FFin x, FInf => 0 <= x
  | FInf, FInf => True
  | _, _ => False
  end.

Lemma fl_of_q_mono a b k : 0 <= a <= b -> 0 <= k -> fle (fl_of_q a k) (fl_of_q b k).
Proof.
  intros Hab Hk. unfold fl_of_q.
  pose proof (round_q_mono a b k Hab Hk) as H. pose proof (round_q_nonneg a k ltac:(lia) Hk) as H0.
  pose proof (bitlen_mono _ _ H) as Hb.
  destruct (2098 <? bitlen (round_q a k)) eqn:E1, (2098 <? bitlen (round_q b k)) eqn:E2;
    cbn [fle]; lia.
Qed.

Lemma fl_of_q_shape a k : fl_of_q a k = FInf \/ exists n, fl_of_q a k = FFin n.
Proof. unfold fl_of_q. destruct (_ <? _); eauto. Qed.

Lemma ceil_le_u64 a : f_ceil_to_u64 a <= u64M.
Proof. destruct a; cbn [f_ceil_to_u64]; unfold u64M; lia. Qed.

Lemma ceil_mono a b : fle a b -> f_ceil_to_u64 a <= f_ceil_to_u64 b.
Proof.
  destruct a as [| |x], b as [| |y]; cbn [fle]; try tauto; intros H.
  - lia.
  - apply ceil_le_u64.
  - cbn [f_ceil_to_u64]. rewrite !Z.shiftr_div_pow2 by lia.
    assert ((x + (Z.shiftl 1 1074 - 1)) / 2 ^ 1074 <= (y + (Z.shiftl 1 1074 - 1)) / 2 ^ 1074).
    { apply Z.div_le_mono; [apply pow2_pos|]; lia. }
    lia.
Qed.

(* everything after the multiplication *)
Definition post (approx : fl) : Z :=
  f_ceil_to_u64 (fadd approx (if fgt approx rounding_error_cutoff then comp1 else comp0)).

Lemma apply_multiple_post price m : apply_multiple price m = post (fmul (f_of_u64 price) m).
Proof.
  unfold apply_multiple, post, comp1, comp0.
  destruct (fgt (fmul (f_of_u64 price) m) rounding_error_cutoff); reflexivity.
Qed.

Lemma post_mono a b : fle a b -> post a <= post b.
Proof.
  unfold post. destruct cutoff_value as (c & ->). destruct comp1_value as (d & -> & Hd).
  rewrite comp0_value. apply Z.leb_le in Hd.
  destruct a as [| |x], b as [| |y]; cbn [fle]; try tauto; intros H.
  - cbn [fgt fadd]. lia.
  - cbn [fgt fadd]. apply ceil_le_u64.
  - cbn [fgt]. apply ceil_mono.
    destruct (c <? x) eqn:E1, (c <? y) eqn:E2; cbn [fadd]; try (apply fl_of_q_mono; lia).
Qed.

Lemma f_of_u64_shape price : 0 <= price ->
  f_of_u64 price = FInf \/ exists x, f_of_u64 price = FFin x /\ 0 <= x.
Proof.
  intros Hp. unfold f_of_u64, fl_of_q.
  assert (0 <= Z.shiftl price 1074).
  { rewrite Z.shiftl_mul_pow2 by lia. pose proof (pow2_pos 1074). lia. }
  pose proof (round_q_nonneg (Z.shiftl price 1074) 0 ltac:(lia) ltac:(lia)).
  destruct (_ <? _); eauto.
Qed.

(* the estimate is monotone in a finite multiplier *)
Lemma apply_multiple_mono price t1 t2 :
  0 <= price -> 0 <= t1 <= t2 ->
  apply_multiple price (FFin t1) <= apply_multiple price (FFin t2).
Proof.
  intros Hp Ht. rewrite !apply_multiple_post.
  destruct (f_of_u64_shape price Hp) as [->|(x & -> & Hx)].
  - cbn [fmul]. destruct (t1 =? 0) eqn:E1, (t2 =? 0) eqn:E2; try lia.
    + unfold post at 1. cbn [fgt fadd f_ceil_to_u64]. unfold post.
      destruct cutoff_value as (c & ->). destruct comp1_value as (d & -> & _).
      cbn [fgt fadd f_ceil_to_u64]. unfold u64M. lia.
  - cbn [fmul]. apply post_mono. apply fl_of_q_mono; [|lia].
    split; [apply Z.mul_nonneg_nonneg; lia|apply Z.mul_le_mono_nonneg_l; lia].
Qed.

(* ------------------------------------------------------------------ *)
(* totality and monotonicity of cumulative_percentage_change           *)

Lemma su32_nonneg z : 0 <= su32 z.
Proof. unfold su32, clampZ, u32M. lia. Qed.

Lemma cpc_table price fh pct h m :
  0 <= pct -> uses_libm (su32 (h - fh)) pct = false ->
  exists t, table_value (su32 (h - fh)) pct = Some t /\
            cumulative_percentage_change price fh pct h m = Some (apply_multiple price (FFin t)).
Proof.
  intros Hp Hu. destruct (table_total _ _ (su32_nonneg _) Hp Hu) as (t & Ht).
  exists t. split; [exact Ht|]. unfold cumulative_percentage_change. rewrite Hu.
  unfold table_value in Ht. destruct (table_get _ _) as [bits|]; [|discriminate].
  destruct (f_of_bits bits) as [[| |n]|]; try discriminate. congruence.
Qed.

(* no input reaches an out-of-bounds table index: the function never panics *)
Theorem cpc_total price fh pct h m :
  0 <= pct -> exists r, cumulative_percentage_change price fh pct h m = Some r.
Proof.
  intros Hp. destruct (uses_libm (su32 (h - fh)) pct) eqn:Hu.
  - unfold cumulative_percentage_change. rewrite Hu. eauto.
  - destruct (cpc_table price fh pct h m Hp Hu) as (t & _ & ->). eauto.
Qed.

Theorem worst_case_total exec_price da_price fh pct da_pct h m m' :
  0 <= pct -> 0 <= da_pct ->
  exists r, worst_case (cumulative_percentage_change exec_price fh pct h m)
                       (cumulative_percentage_change da_price fh da_pct h m') = Some r.
Proof.
  intros H1 H2. destruct (cpc_total exec_price fh pct h m H1) as (r1 & ->).
  destruct (cpc_total da_price fh da_pct h m' H2) as (r2 & ->). cbn [worst_case]. eauto.
Qed.

(* within the table branch the estimate never decreases as the horizon grows *)
Theorem cpc_monotone_table price fh pct h1 h2 m1 m2 :
  0 <= price -> 0 <= pct -> su32 (h1 - fh) <= su32 (h2 - fh) ->
  uses_libm (su32 (h1 - fh)) pct = false -> uses_libm (su32 (h2 - fh)) pct = false ->
  exists r1 r2, cumulative_percentage_change price fh pct h1 m1 = Some r1 /\
                cumulative_percentage_change price fh pct h2 m2 = Some r2 /\ r1 <= r2.
Proof.
  intros Hpr Hp Hb Hu1 Hu2.
  destruct (cpc_table price fh pct h1 m1 Hp Hu1) as (t1 & Ht1 & ->).
  destruct (cpc_table price fh pct h2 m2 Hp Hu2) as (t2 & Ht2 & ->).
  destruct (table_monotone _ _ pct (conj (su32_nonneg _) Hb) Hp Hu1 Hu2)
    as (t1' & t2' & E1 & E2 & Hle).
  rewrite Ht1 in E1. rewrite Ht2 in E2. inversion E1; inversion E2; subst.
  eexists; eexists; repeat split. apply apply_multiple_mono; assumption.
Qed.

(* libm branch: for the SAME libm oracle ordering (multiplier reported by the implementation
   non-decreasing and finite), the estimate is monotone as well *)
Theorem cpc_monotone_libm price fh pct h1 h2 t1 t2 :
  0 <= price -> 0 <= t1 <= t2 ->
  uses_libm (su32 (h1 - fh)) pct = true -> uses_libm (su32 (h2 - fh)) pct = true ->
  exists r1 r2, cumulative_percentage_change price fh pct h1 (FFin t1) = Some r1 /\
                cumulative_percentage_change price fh pct h2 (FFin t2) = Some r2 /\ r1 <= r2.
Proof.
  intros Hpr Ht Hu1 Hu2. unfold cumulative_percentage_change. rewrite Hu1, Hu2.
  eexists; eexists; repeat split. apply apply_multiple_mono; assumption.
Qed.

(* worst_case = saturating sum: monotone when both parts are *)
Lemma worst_case_mono e1 e2 d1 d2 :
  e1 <= e2 -> d1 <= d2 ->
  exists w1 w2, worst_case (Some e1) (Some d1) = Some w1 /\ worst_case (Some e2) (Some d2) = Some w2 /\ w1 <= w2.
Proof. intros. cbn [worst_case]. eexists; eexists; repeat split. unfold su64, clampZ. lia. Qed.
