From FC Require Import Gas.Model.
Require Extraction.
Require Import ExtrOcamlBasic.
Extraction "gas_model.ml" main_T.
