(* Executable model of fuel-core-producer:
     crates/services/producer/src/block_producer.rs
       Producer::select_new_da_height                (C30)
       Producer::new_header_with_new_da_height       (caller: gas limit from the consensus
                                                      parameters, tx limit u16::MAX - 1)
   u64 arithmetic is explicit (saturating_add).  The relayer port is a function
   [info : N -> N * N] (DA height -> (gas_cost, tx_count)); its calls are assumed to
   succeed (a port error is propagated unchanged by `?` and is not modelled). *)
From FC Require Export Common.T.
Open Scope N_scope.

Inductive result :=
| ROk (h : N)        (* Ok(new_best) *)
| RInvalid           (* Err(Error::InvalidDaFinalizationState { .. }) *)
| RNoNew.            (* Err(anyhow!(NO_NEW_DA_HEIGHT_FOUND)) *)

(* local variables of the `for height in next_da_height..=highest.0` loop *)
Record lstate := {
  l_height : N;        (* the loop variable *)
  l_total_cost : N;
  l_total_txs : N;
  l_new_best : N;
  l_broke : bool       (* `break` was taken *)
}.

(* [p] iterations of [f] with early exit as soon as [stop] holds; structural on the
   binary representation, so that a range of up to 2^64 heights needs no unary fuel. *)
Fixpoint iterP {S : Type} (p : positive) (f : S -> S) (stop : S -> bool) (s : S) : S :=
  if stop s then s else
  match p with
  | xH => f s
  | xO p' => iterP p' f stop (iterP p' f stop s)
  | xI p' => iterP p' f stop (iterP p' f stop (f s))
  end.

(* one pass through the loop body *)
Definition body (info : N -> N * N) (gas_limit tx_limit : N) (s : lstate) : lstate :=
  let '(gas_cost, tx_count) := info (l_height s) in
  let total_cost := sat_add u64max (l_total_cost s) gas_cost in
  let total_transactions := sat_add u64max (l_total_txs s) tx_count in
  if (gas_limit <? total_cost) || (tx_limit <? total_transactions)
  then {| l_height := l_height s; l_total_cost := total_cost; l_total_txs := total_transactions;
          l_new_best := l_new_best s; l_broke := true |}
  else {| l_height := l_height s + 1; l_total_cost := total_cost;
          l_total_txs := total_transactions; l_new_best := l_height s; l_broke := false |}.

(* [highest] is the answer of relayer.wait_for_at_least_height(previous_da_height) *)
Definition select_new_da_height (info : N -> N * N) (gas_limit previous_da_height tx_limit highest : N)
  : result :=
  if highest <? previous_da_height then RInvalid
  else if highest =? previous_da_height then ROk highest
  else
    let next_da_height := sat_add u64max previous_da_height 1 in
    let s0 := {| l_height := next_da_height; l_total_cost := 0; l_total_txs := 0;
                 l_new_best := previous_da_height; l_broke := false |} in
    let s := match highest + 1 - next_da_height with
             | N0 => s0
             | Npos p => iterP p (body info gas_limit tx_limit) l_broke s0
             end in
    if l_new_best s =? previous_da_height then RNoNew else ROk (l_new_best s).

(* new_header_with_new_da_height: the limit of u16::MAX - 1 transactions *)
Definition block_tx_limit : N := 65534.
Definition new_header_da_height (info : N -> N * N) (block_gas_limit previous_da_height highest : N)
  : result :=
  select_new_da_height info block_gas_limit previous_da_height block_tx_limit highest.

(* ------------------------------------------------------------------ *)
(* the decidable checker (Pcheck of C30)                                *)

(* sum of f over the k heights a, a+1, .., a+k-1 *)
Fixpoint sumf (f : N -> N) (a : N) (k : nat) : N :=
  match k with
  | O => 0
  | S k' => sumf f a k' + f (a + N.of_nat k')
  end.

(* saturating (u64) sum of f over the heights prev+1 ..= h *)
Definition psum (f : N -> N) (prev h : N) : N :=
  N.min u64max (sumf f (prev + 1) (N.to_nat (h - prev))).

Definition cost_of (info : N -> N * N) (h : N) : N := fst (info h).
Definition txs_of (info : N -> N * N) (h : N) : N := snd (info h).

Definition withinb (info : N -> N * N) (gas_limit tx_limit prev h : N) : bool :=
  (psum (cost_of info) prev h <=? gas_limit) && (psum (txs_of info) prev h <=? tx_limit).

Definition da_okb (info : N -> N * N) (gas_limit tx_limit prev highest : N) (r : result) : bool :=
  match r with
  | ROk h =>
      (prev <=? h) && (h <=? highest) &&
      withinb info gas_limit tx_limit prev h &&
      ((h =? highest) || negb (withinb info gas_limit tx_limit prev (h + 1))) &&
      (negb (prev <? highest) || (prev <? h))
  | RInvalid => highest <? prev
  | RNoNew => (prev <? highest) && negb (withinb info gas_limit tx_limit prev (prev + 1))
  end.

(* ------------------------------------------------------------------ *)
(* T codecs and the entry point                                         *)

(* relayer table: list of (height, cost, count); first entry wins; absent = (0, 0)
   (MockRelayer: `.get(height).cloned().unwrap_or_default()`) *)
Fixpoint lookup_info (tbl : list (N * (N * N))) (h : N) : N * N :=
  match tbl with
  | [] => (0, 0)
  | (h', v) :: r => if h' =? h then v else lookup_info r h
  end.

Definition T_entry (t : T) : option (N * (N * N)) :=
  match t with
  | L [h; c; n] => match getN h, getN c, getN n with
                   | Some h, Some c, Some n => Some (h, (c, n))
                   | _, _, _ => None
                   end
  | _ => None
  end.

Definition result_T (r : result) : T :=
  match r with
  | ROk h => L [I 0; tN h]
  | RInvalid => L [I 1]
  | RNoNew => L [I 2]
  end.
Definition T_result (t : T) : option result :=
  match t with
  | L [I 0%Z; h] => option_map ROk (getN h)
  | L [I 1%Z] => Some RInvalid
  | L [I 2%Z] => Some RNoNew
  | _ => None
  end.

(* input  (prev highest gas_limit tx_limit ((h cost count) ...))
   observed (r_hook r_block): the hooked select_new_da_height with [tx_limit], and the DA
   height of the header built by produce_and_execute_block_transactions (limit 65534) *)
Definition main30 (input observed : T) : T :=
  match input with
  | L [prev; highest; gl; tl; L tbl] =>
      match getN prev, getN highest, getN gl, getN tl, mapM T_entry tbl with
      | Some prev, Some highest, Some gl, Some tl, Some tbl =>
          let info := lookup_info tbl in
          let model := L [result_T (select_new_da_height info gl prev tl highest);
                          result_T (new_header_da_height info gl prev highest)] in
          let pc := match observed with
                    | L [r1; r2] =>
                        match T_result r1, T_result r2 with
                        | Some r1, Some r2 =>
                            da_okb info gl tl prev highest r1 &&
                            da_okb info gl block_tx_limit prev highest r2
                        | _, _ => false
                        end
                    | _ => false
                    end in
          L [model; tB pc]
      | _, _, _, _, _ => tErr 2
      end
  | _ => tErr 1
  end.

Definition main_T (req : T) : T :=
  match req with
  | L [I 30%Z; input; observed] => main30 input observed
  | _ => tErr 0
  end.
