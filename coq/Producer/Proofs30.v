(* Proofs for C30: select_new_da_height picks the longest prefix of DA blocks that fits. *)
From FC Require Import Producer.Model.
From Coq Require Import ZifyBool ZifyN ZifyNat.
Open Scope N_scope.

(* ---------- iterP is bounded iteration of the guarded step ---------- *)

Section Iter.
  Context {S : Type} (f : S -> S) (stop : S -> bool).

  Definition guarded (s : S) : S := if stop s then s else f s.

  Fixpoint itern (n : nat) (s : S) : S :=
    match n with O => s | Datatypes.S n' => itern n' (guarded s) end.

  Lemma itern_add n : forall m s, itern (n + m) s = itern m (itern n s).
  Proof. induction n as [|n IH]; intros m s; cbn [itern Nat.add]; [reflexivity|apply IH]. Qed.

  Lemma itern_stop n : forall s, stop s = true -> itern n s = s.
  Proof.
    induction n as [|n IH]; intros s Hs; cbn [itern]; [reflexivity|].
    unfold guarded. rewrite Hs. now apply IH.
  Qed.

  Lemma iterP_itern p : forall s, iterP p f stop s = itern (Pos.to_nat p) s.
  Proof.
    induction p as [p IH|p IH|]; intros s; cbn [iterP]; destruct (stop s) eqn:E;
      try (now rewrite itern_stop).
    - rewrite !IH. rewrite Pos2Nat.inj_xI.
      replace (2 * Pos.to_nat p)%nat with (Pos.to_nat p + Pos.to_nat p)%nat by lia.
      cbn [itern]. rewrite itern_add.
      replace (guarded s) with (f s) by (unfold guarded; now rewrite E). reflexivity.
    - rewrite !IH. rewrite Pos2Nat.inj_xO.
      replace (2 * Pos.to_nat p)%nat with (Pos.to_nat p + Pos.to_nat p)%nat by lia.
      now rewrite itern_add.
    - change (Pos.to_nat 1) with 1%nat. cbn [itern]. unfold guarded. now rewrite E.
  Qed.
End Iter.

(* ---------- prefix sums ---------- *)

Lemma sumf_mono f a k k' : (k <= k')%nat -> sumf f a k <= sumf f a k'.
Proof.
  induction 1 as [|k' _ IH]; [lia|]. cbn [sumf]. lia.
Qed.

Lemma psum_mono f prev h h' : h <= h' -> psum f prev h <= psum f prev h'.
Proof.
  intros Hle. unfold psum.
  pose proof (sumf_mono f (prev + 1) (N.to_nat (h - prev)) (N.to_nat (h' - prev))) as H.
  lia.
Qed.

Lemma psum_zero f prev : psum f prev (prev + N.of_nat 0) = 0.
Proof. unfold psum. replace (N.to_nat (prev + N.of_nat 0 - prev)) with O by lia. reflexivity. Qed.

Lemma psum_succ f prev j :
  psum f prev (prev + N.of_nat (S j)) =
  sat_add u64max (psum f prev (prev + N.of_nat j)) (f (prev + 1 + N.of_nat j)).
Proof.
  unfold psum, sat_add.
  replace (N.to_nat (prev + N.of_nat (S j) - prev)) with (S j) by lia.
  replace (N.to_nat (prev + N.of_nat j - prev)) with j by lia.
  cbn [sumf]. lia.
Qed.

(* ---------- the specification ---------- *)

(* the saturating (u64) sums of gas cost and transaction count over the DA heights
   prev+1 ..= h are within the limits *)
Definition within (info : N -> N * N) (gas_limit tx_limit prev h : N) : Prop :=
  psum (cost_of info) prev h <= gas_limit /\ psum (txs_of info) prev h <= tx_limit.

Definition Spec (info : N -> N * N) (gas_limit tx_limit prev highest : N) (r : result) : Prop :=
  match r with
  | ROk h =>
      prev <= h <= highest /\
      within info gas_limit tx_limit prev h /\
      (h = highest \/ ~ within info gas_limit tx_limit prev (h + 1)) /\
      (prev < highest -> prev < h)
  | RInvalid => highest < prev
  | RNoNew => prev < highest /\ ~ within info gas_limit tx_limit prev (prev + 1)
  end.

Lemma withinb_iff info gl tl prev h : withinb info gl tl prev h = true <-> within info gl tl prev h.
Proof. unfold withinb, within. rewrite andb_true_iff, !N.leb_le. reflexivity. Qed.

Lemma withinb_false info gl tl prev h :
  negb (withinb info gl tl prev h) = true <-> ~ within info gl tl prev h.
Proof.
  rewrite <- withinb_iff. destruct (withinb info gl tl prev h); cbn; split; intro H;
    try discriminate; try reflexivity; try congruence; try (exfalso; now apply H).
Qed.

Lemma within_mono_all info gl tl prev h h' :
  h <= h' -> within info gl tl prev h' -> within info gl tl prev h.
Proof.
  intros Hle [H1 H2]. split.
  - pose proof (psum_mono (cost_of info) prev h h' Hle). lia.
  - pose proof (psum_mono (txs_of info) prev h h' Hle). lia.
Qed.

Lemma da_okb_iff info gl tl prev highest r :
  da_okb info gl tl prev highest r = true <-> Spec info gl tl prev highest r.
Proof.
  destruct r as [h| |]; unfold da_okb, Spec.
  - rewrite !andb_true_iff, !orb_true_iff, withinb_iff, withinb_false.
    split.
    + intros [[[[H1 H2] H3] H4] H5].
      split; [lia|]. split; [exact H3|]. split.
      * destruct H4 as [H4|H4]; [left; lia|right; exact H4].
      * lia.
    + intros [H1 [H3 [H4 H5]]].
      split; [split; [split; [lia|exact H3]|]|].
      * destruct H4 as [H4|H4]; [left; lia|right; exact H4].
      * destruct (prev <? highest) eqn:E; [right; lia|left; reflexivity].
  - lia.
  - rewrite andb_true_iff, withinb_false. split; intros [H1 H2]; split; try lia; assumption.
Qed.

(* ---------- the loop invariant ---------- *)

Section Loop.
  Variable info : N -> N * N.
  Variables gl tl prev : N.

  Let W := within info gl tl prev.

  (* after j passes *)
  Definition Inv (j : nat) (s : lstate) : Prop :=
    if l_broke s
    then exists j', (j' < j)%nat /\ l_new_best s = prev + N.of_nat j' /\
                    W (prev + N.of_nat j') /\ ~ W (prev + N.of_nat j' + 1)
    else l_height s = prev + 1 + N.of_nat j /\
         l_total_cost s = psum (cost_of info) prev (prev + N.of_nat j) /\
         l_total_txs s = psum (txs_of info) prev (prev + N.of_nat j) /\
         l_new_best s = prev + N.of_nat j /\
         W (prev + N.of_nat j).

  Lemma inv_step j s : Inv j s -> Inv (S j) (guarded (body info gl tl) l_broke s).
  Proof.
    unfold Inv, guarded. destruct (l_broke s) eqn:Eb.
    - rewrite Eb. intros [j' [Hlt H]]. exists j'. split; [lia|exact H].
    - intros [Hh [Hc [Ht [Hb Hw]]]]. unfold body.
      destruct (info (l_height s)) as [c n] eqn:Ei.
      assert (Ec : psum (cost_of info) prev (prev + N.of_nat (S j)) =
                   sat_add u64max (l_total_cost s) c).
      { rewrite psum_succ, <- Hc, <- Hh. unfold cost_of. now rewrite Ei. }
      assert (Et : psum (txs_of info) prev (prev + N.of_nat (S j)) =
                   sat_add u64max (l_total_txs s) n).
      { rewrite psum_succ, <- Ht, <- Hh. unfold txs_of. now rewrite Ei. }
      destruct ((gl <? sat_add u64max (l_total_cost s) c) ||
                (tl <? sat_add u64max (l_total_txs s) n)) eqn:Ex; cbn [l_broke l_height
                  l_total_cost l_total_txs l_new_best].
      + exists j. split; [lia|]. split; [exact Hb|]. split; [exact Hw|].
        unfold W, within. replace (prev + N.of_nat j + 1) with (prev + N.of_nat (S j)) by lia.
        rewrite Ec, Et. lia.
      + split; [lia|]. split; [now rewrite Ec|]. split; [now rewrite Et|].
        split; [lia|]. unfold W, within. rewrite Ec, Et. lia.
  Qed.

  Lemma inv_itern n : forall j s,
    Inv j s -> Inv (n + j) (itern (body info gl tl) l_broke n s).
  Proof.
    induction n as [|n IH]; intros j s H; cbn [itern Nat.add]; [exact H|].
    replace (S (n + j)) with (n + S j)%nat by lia. apply IH. now apply inv_step.
  Qed.
End Loop.

(* ---------- the theorem ---------- *)

Theorem select_new_da_height_spec info gl tl prev highest :
  prev <= u64max -> highest <= u64max ->
  Spec info gl tl prev highest (select_new_da_height info gl prev tl highest).
Proof.
  intros Hp Hh. unfold select_new_da_height.
  destruct (highest <? prev) eqn:E1; [cbn; lia|].
  destruct (highest =? prev) eqn:E2.
  { assert (highest = prev) by lia. subst. cbn [Spec].
    assert (Hw : within info gl tl prev prev).
    { unfold within, psum. replace (N.to_nat (prev - prev)) with O by lia. cbn [sumf]. lia. }
    split; [lia|]. split; [exact Hw|]. split; [now left|lia]. }
  assert (Hlt : prev < highest) by lia.
  assert (En : sat_add u64max prev 1 = prev + 1) by (unfold sat_add; lia).
  rewrite En.
  set (s0 := {| l_height := prev + 1; l_total_cost := 0; l_total_txs := 0;
                l_new_best := prev; l_broke := false |}).
  assert (H0 : Inv info gl tl prev 0 s0).
  { unfold Inv, s0; cbn [l_broke l_height l_total_cost l_total_txs l_new_best].
    rewrite !psum_zero. repeat split; try lia.
    - unfold within. rewrite !psum_zero. lia.
    - unfold within. rewrite !psum_zero. lia. }
  destruct (highest + 1 - (prev + 1)) as [|p] eqn:Ep; [lia|].
  rewrite iterP_itern.
  pose proof (inv_itern info gl tl prev (Pos.to_nat p) 0 s0 H0) as HI.
  rewrite Nat.add_0_r in HI.
  set (s := itern (body info gl tl) l_broke (Pos.to_nat p) s0) in *.
  assert (Egap : N.of_nat (Pos.to_nat p) = highest - prev) by lia.
  unfold Inv in HI. destruct (l_broke s) eqn:Eb.
  - destruct HI as [j' [Hj [Hb [Hw Hnw]]]]. rewrite Hb.
    destruct (prev + N.of_nat j' =? prev) eqn:E3.
    + cbn [Spec]. split; [exact Hlt|]. replace (prev + 1) with (prev + N.of_nat j' + 1) by lia. exact Hnw.
    + cbn [Spec]. split; [lia|]. split; [exact Hw|]. split; [right; exact Hnw|lia].
  - destruct HI as [_ [_ [_ [Hb Hw]]]]. rewrite Hb.
    destruct (prev + N.of_nat (Pos.to_nat p) =? prev) eqn:E3; [lia|].
    cbn [Spec]. rewrite Egap in *. replace (prev + (highest - prev)) with highest in * by lia.
    split; [lia|]. split; [exact Hw|]. split; [now left|lia].
Qed.

(* ---------- consequences: the error cases, exactly ---------- *)

Theorem select_new_da_height_errors info gl tl prev highest :
  prev <= u64max -> highest <= u64max ->
  let r := select_new_da_height info gl prev tl highest in
  (r = RInvalid <-> highest < prev) /\
  (r = RNoNew <-> prev < highest /\ ~ within info gl tl prev (prev + 1)) /\
  (highest = prev -> r = ROk prev) /\
  ((exists h, r = ROk h) <-> highest = prev \/ (prev < highest /\ within info gl tl prev (prev + 1))).
Proof.
  intros Hp Hh r.
  pose proof (select_new_da_height_spec info gl tl prev highest Hp Hh) as HS.
  fold r in HS.
  assert (Hinv : highest < prev -> r = RInvalid).
  { intro H. unfold r, select_new_da_height. replace (highest <? prev) with true by lia. reflexivity. }
  assert (Heq : highest = prev -> r = ROk prev).
  { intro H. unfold r, select_new_da_height. replace (highest <? prev) with false by lia.
    replace (highest =? prev) with true by lia. now subst. }
  assert (Hfirst : forall h, prev < h -> within info gl tl prev h -> within info gl tl prev (prev + 1)).
  { intros h Hl Hw. apply (within_mono_all info gl tl prev (prev + 1) h); [lia|exact Hw]. }
  split; [|split; [|split; [exact Heq|]]].
  - split; [|exact Hinv]. intro E. rewrite E in HS. exact HS.
  - split.
    + intro E. rewrite E in HS. exact HS.
    + intros [Hlt Hnw]. destruct r as [h| |] eqn:Er; cbn [Spec] in HS.
      * exfalso. apply Hnw. apply (Hfirst h); [apply HS; exact Hlt|apply HS].
      * lia.
      * reflexivity.
  - split.
    + intros [h E]. rewrite E in HS. cbn [Spec] in HS.
      destruct (N.eq_dec highest prev) as [->|Hne]; [now left|right].
      assert (prev < highest) by lia. split; [assumption|].
      apply (Hfirst h); [apply HS; assumption|apply HS].
    + intros [->|[Hlt Hw]]; [exists prev; now apply Heq|].
      destruct r as [h| |] eqn:Er; cbn [Spec] in HS.
      * now exists h.
      * lia.
      * exfalso. now apply (proj2 HS).
Qed.

(* every shorter prefix is within the limits too *)
Theorem within_prefix_closed info gl tl prev h k :
  k <= h -> within info gl tl prev h -> within info gl tl prev k.
Proof. apply within_mono_all. Qed.

(* a u64::MAX gas limit can never be exceeded by the saturating sum *)
Lemma gas_limit_max_never_exceeded f prev h : psum f prev h <= u64max.
Proof. unfold psum. lia. Qed.

(* non-vacuity: the unit-test scenario will_only_advance_da_height_if_enough_gas_remaining
   (limit 1000 minus 300 of L2 gas is not modelled: plain limit 700) and all three results *)
Example spec_nonvacuous :
  let info := lookup_info [(101, (500, 1)); (102, (200, 1)); (103, (0, 0)); (104, (500, 7))] in
  select_new_da_height info 700 100 65534 104 = ROk 103 /\
  select_new_da_height info 499 100 65534 104 = RNoNew /\
  select_new_da_height info 700 100 1 104 = ROk 101 /\
  select_new_da_height info 700 105 65534 104 = RInvalid /\
  select_new_da_height info 700 104 65534 104 = ROk 104 /\
  select_new_da_height (fun _ => (u64max, 0)) u64max 5 65534 9 = ROk 9.
Proof. vm_compute. repeat split; reflexivity. Qed.
