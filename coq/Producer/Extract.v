From FC Require Import Producer.Model.
Require Extraction.
Require Import ExtrOcamlBasic.
Extraction "producer_model.ml" main_T.
