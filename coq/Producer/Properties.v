(* Property theorems of the Producer cluster (C30). Nothing but statements, [exact], and
   Print Assumptions. *)
From FC Require Import Producer.Model Producer.Proofs30.
Open Scope N_scope.

(* C30. For every relayer table [info] (DA height -> (gas cost, tx count)), every gas limit and
   transaction limit, every previous DA height and every height reported by the relayer
   (both u64):  Ok h  =>  prev <= h <= highest, the saturating u64 sums of cost and of tx count
   over prev+1 ..= h are within both limits, h = highest or the sums over prev+1 ..= h+1 exceed a
   limit (maximality), and h > prev whenever highest > prev;  InvalidDaFinalizationState =>
   highest < prev;  NO_NEW_DA_HEIGHT_FOUND => highest > prev and the first DA block alone
   exceeds a limit.  ([Spec] is defined in Proofs30.v; the sums saturate at u64::MAX, so a
   limit of u64::MAX can never be exceeded.) *)
Theorem da_height_max_prefix : forall info gas_limit tx_limit prev highest,
  prev <= u64max -> highest <= u64max ->
  Spec info gas_limit tx_limit prev highest
       (select_new_da_height info gas_limit prev tx_limit highest).
Proof. exact select_new_da_height_spec. Qed.
Print Assumptions da_height_max_prefix.

(* The error cases exactly, and the Ok case exactly. *)
Theorem da_height_errors_exact : forall info gas_limit tx_limit prev highest,
  prev <= u64max -> highest <= u64max ->
  let r := select_new_da_height info gas_limit prev tx_limit highest in
  (r = RInvalid <-> highest < prev) /\
  (r = RNoNew <-> prev < highest /\ ~ within info gas_limit tx_limit prev (prev + 1)) /\
  (highest = prev -> r = ROk prev) /\
  ((exists h, r = ROk h) <->
   highest = prev \/ (prev < highest /\ within info gas_limit tx_limit prev (prev + 1))).
Proof. exact select_new_da_height_errors. Qed.
Print Assumptions da_height_errors_exact.

(* The block producer's caller uses the consensus parameters' block gas limit and a limit of
   u16::MAX - 1 transactions. *)
Theorem new_header_da_height_max_prefix : forall info block_gas_limit prev highest,
  prev <= u64max -> highest <= u64max ->
  Spec info block_gas_limit 65534 prev highest
       (new_header_da_height info block_gas_limit prev highest).
Proof. exact (fun info gl => select_new_da_height_spec info gl 65534). Qed.
Print Assumptions new_header_da_height_max_prefix.

(* within-limits is prefix closed: every shorter prefix is within the limits too *)
Theorem within_prefix : forall info gas_limit tx_limit prev h k,
  k <= h -> within info gas_limit tx_limit prev h -> within info gas_limit tx_limit prev k.
Proof. exact within_prefix_closed. Qed.
Print Assumptions within_prefix.

(* the decidable checker evaluated on the implementation's answers means [Spec] *)
Theorem da_checker_sound : forall info gas_limit tx_limit prev highest r,
  da_okb info gas_limit tx_limit prev highest r = true <->
  Spec info gas_limit tx_limit prev highest r.
Proof. exact da_okb_iff. Qed.
Print Assumptions da_checker_sound.
