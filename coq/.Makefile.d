Common/T.vo Common/T.glob Common/T.v.beautified Common/T.required_vo: Common/T.v 
Common/T.vio: Common/T.v 
Common/T.vos Common/T.vok Common/T.required_vos: Common/T.v 
Sync/Model.vo Sync/Model.glob Sync/Model.v.beautified Sync/Model.required_vo: Sync/Model.v Common/T.vo
Sync/Model.vio: Sync/Model.v Common/T.vio
Sync/Model.vos Sync/Model.vok Sync/Model.required_vos: Sync/Model.v Common/T.vos
Sync/Proofs28.vo Sync/Proofs28.glob Sync/Proofs28.v.beautified Sync/Proofs28.required_vo: Sync/Proofs28.v Sync/Model.vo
Sync/Proofs28.vio: Sync/Proofs28.v Sync/Model.vio
Sync/Proofs28.vos Sync/Proofs28.vok Sync/Proofs28.required_vos: Sync/Proofs28.v Sync/Model.vos
Sync/Proofs27.vo Sync/Proofs27.glob Sync/Proofs27.v.beautified Sync/Proofs27.required_vo: Sync/Proofs27.v Sync/Model.vo
Sync/Proofs27.vio: Sync/Proofs27.v Sync/Model.vio
Sync/Proofs27.vos Sync/Proofs27.vok Sync/Proofs27.required_vos: Sync/Proofs27.v Sync/Model.vos
Sync/Properties.vo Sync/Properties.glob Sync/Properties.v.beautified Sync/Properties.required_vo: Sync/Properties.v Sync/Model.vo Sync/Proofs27.vo Sync/Proofs28.vo
Sync/Properties.vio: Sync/Properties.v Sync/Model.vio Sync/Proofs27.vio Sync/Proofs28.vio
Sync/Properties.vos Sync/Properties.vok Sync/Properties.required_vos: Sync/Properties.v Sync/Model.vos Sync/Proofs27.vos Sync/Proofs28.vos
