From FC Require Import Relayer.Model.
Require Extraction.
Require Import ExtrOcamlBasic.
Extraction "relayer_model.ml" main_T.
