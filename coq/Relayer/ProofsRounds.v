(* C29, part 5: any number of run::run iterations; the model's trace passes the checker. *)
From FC Require Import Relayer.Model Relayer.ProofsPage Relayer.ProofsWrite Relayer.ProofsLoop
  Relayer.ProofsRun.
From Coq Require Import ZifyBool ZifyN ZifyNat Lia.
Open Scope N_scope.

Definition rounds_wf (rounds : list (N * list N)) : Prop :=
  Forall (fun r => fst r < u64max) rounds.

(* ---------- what every state reached by iterations satisfies ---------- *)

Lemma run_rounds_inv chain d0 l0 rounds : forall t,
  TaskInv chain d0 l0 t -> rounds_wf rounds ->
  TaskInv chain d0 l0 (snd (run_rounds chain t rounds)) /\
  t_height t <= t_height (snd (run_rounds chain t rounds)).
Proof.
  induction rounds as [|[fin script] r IH]; intros t HI Hw; cbn [run_rounds].
  - cbn. split; [exact HI|lia].
  - inversion Hw as [|? ? Hfin Hr]; subst. cbn [fst] in Hfin.
    pose proof (run_once_spec chain d0 l0 t fin script HI Hfin) as H.
    destruct (run_once chain t fin script) as [[t' ok] pages]. destruct H as [HI' HR].
    destruct (IH t' HI' Hr) as [A B].
    destruct (run_rounds chain t' r) as [obs tf]. cbn [snd] in *. split; [exact A|].
    assert (t_height t <= t_height t').
    { unfold RoundSpec in HR. destruct (fin <=? t_height t); [lia|]. destruct HR as [next HR]. lia. }
    lia.
Qed.

(* every height above the initial one and up to the published height holds exactly that DA
   block's events *)
Lemma stored_exact_inv chain d0 l0 t : TaskInv chain d0 l0 t ->
  forall h, l0 < h <= t_height t -> db_get (t_db t) h = Some (expected_events chain h).
Proof.
  intros [Hs Hb H0 k Hdb Hh] h Hr. rewrite Hdb. apply db_get_canon; [exact Hb|lia].
Qed.

(* the published heights never decrease, iteration after iteration *)
Fixpoint monotone_from (x : N) (hs : list N) : Prop :=
  match hs with
  | [] => True
  | h :: r => x <= h /\ monotone_from h r
  end.

Lemma run_rounds_monotone chain d0 l0 rounds : forall t,
  TaskInv chain d0 l0 t -> rounds_wf rounds ->
  monotone_from (t_height t) (map r_height (fst (run_rounds chain t rounds))).
Proof.
  induction rounds as [|[fin script] r IH]; intros t HI Hw; cbn [run_rounds]; [exact Logic.I|].
  inversion Hw as [|? ? Hfin Hr]; subst. cbn [fst] in Hfin.
  pose proof (run_once_spec chain d0 l0 t fin script HI Hfin) as H.
  destruct (run_once chain t fin script) as [[t' ok] pages]. destruct H as [HI' HR].
  specialize (IH t' HI' Hr). destruct (run_rounds chain t' r) as [obs tf]. cbn [fst map] in *.
  cbn [monotone_from r_height observe_round]. split; [|exact IH].
  unfold RoundSpec in HR. destruct (fin <=? t_height t); [lia|]. destruct HR as [next HR]. lia.
Qed.

(* ---------- meaning of the page checker ---------- *)

Inductive Tiles : N -> list (N * N) -> N -> Prop :=
| tiles_nil a : Tiles a [] a
| tiles_cons a b r next : a <= b -> Tiles (b + 1) r next -> Tiles a ((a, b) :: r) next.

Lemma pages_tileb_sound latest pages : forall from next,
  pages_tileb from latest pages = Some next <->
  Tiles from pages next /\ Forall (fun p => snd p <= latest) pages.
Proof.
  induction pages as [|[a b] r IH]; intros from next; cbn [pages_tileb].
  - split.
    + intro H. injection H as <-. split; constructor.
    + intros [H _]. inversion H; subst. reflexivity.
  - destruct ((a =? from) && (a <=? b) && (b <=? latest)) eqn:Ec.
    + rewrite IH. assert (a = from /\ a <= b /\ b <= latest) as [-> [H1 H2]] by lia. split.
      * intros [A B]. split; [now constructor|constructor; [exact H2|exact B]].
      * intros [A B]. inversion A; subst. inversion B; subst. split; assumption.
    + split; [discriminate|]. intros [A B]. inversion A; subst. inversion B; subst. cbn in *. lia.
Qed.

(* tiles are consecutive, disjoint and cover [from, next) *)
Lemma tiles_cover from pages next : Tiles from pages next ->
  from <= next /\
  forall h, from <= h < next -> exists a b, In (a, b) pages /\ a <= h <= b.
Proof.
  induction 1 as [a|a b r next Hab _ [IH1 IH2]].
  - split; [lia|]. intros h Hh. lia.
  - split; [lia|]. intros h Hh. destruct (N.le_gt_cases h b) as [Hle|Hgt].
    + exists a, b. split; [now left|lia].
    + destruct (IH2 h ltac:(lia)) as [a' [b' [Hin Hr]]]. exists a', b'. split; [now right|exact Hr].
Qed.

Lemma tiles_disjoint from pages next : Tiles from pages next ->
  forall a b, In (a, b) pages -> from <= a /\ a <= b /\ b < next.
Proof.
  induction 1 as [a0|a0 b0 r next Hab Ht IH]; intros a b Hin; [destruct Hin|].
  destruct (tiles_cover _ _ _ Ht) as [Hle _].
  destruct Hin as [Hin|Hin].
  - injection Hin as <- <-. lia.
  - specialize (IH a b Hin). lia.
Qed.

(* ---------- the model's observations pass the checker ---------- *)

Lemma run_once_facts chain t fin script :
  let '(t', ok, pages) := run_once chain t fin script in
  (db_latest (t_db t') = None -> t_height t' = t_height t) /\
  (t_height t < fin -> forall h, db_latest (t_db t') = Some h -> t_synced t' = (fin <=? h) /\ t_height t' = h).
Proof.
  unfold run_once. destruct (fin <=? t_height t) eqn:Es.
  - split; [reflexivity|]. intro. lia.
  - set (r := dl_loop _ _ _ _ _ _ _). destruct (db_latest (dl_db r)) as [h|] eqn:El; cbn [t_db t_height t_synced].
    + rewrite El. split; [discriminate|]. intros _ h' H. injection H as <-. split; reflexivity.
    + rewrite El. split; [reflexivity|]. intros _ h' H. discriminate.
Qed.

Lemma round_ok_model chain d0 l0 t fin script :
  TaskInv chain d0 l0 t -> fin < u64max ->
  let '(t', ok, pages) := run_once chain t fin script in
  round_okb (t_height t) (ps_current (t_sizer t)) fin (observe_round t' ok pages) = true.
Proof.
  intros HI Hfin.
  pose proof (run_once_spec chain d0 l0 t fin script HI Hfin) as HS.
  pose proof (run_once_facts chain t fin script) as HF.
  destruct HI as [Hs _ _ _ _ _].
  destruct (run_once chain t fin script) as [[t' ok] pages]. destruct HS as [HI' HR]. destruct HF as [F1 F2].
  assert (Hlat : forall h, db_latest (t_db t') = Some h -> h = t_height t').
  { destruct HI' as [_ _ H0 k Hdb Hh]. intros h Hl. rewrite Hdb in Hl. rewrite Hh.
    apply (canon_latest chain d0 l0 k H0 h Hl). }
  unfold round_okb, observe_round; cbn [r_db_height r_height r_synced r_ok r_pages].
  unfold RoundSpec in HR. destruct (fin <=? t_height t) eqn:Es.
  - destruct HR as [-> [-> Hh]]. rewrite Hh.
    destruct (db_latest (t_db t')) as [h|] eqn:El.
    + pose proof (Hlat h eq_refl) as Eh. subst h. rewrite Hh, !N.eqb_refl.
      destruct (Bool.eqb (t_synced t') (fin <=? t_height t)); reflexivity.
    + rewrite !N.eqb_refl. reflexivity.
  - destruct HR as [next [T [H1 [H2 [H3 [Hok Herr]]]]]]. rewrite T.
    assert (Hfirst : match db_latest (t_db t') with
                     | Some h => (h =? t_height t') && Bool.eqb (t_synced t') (fin <=? t_height t')
                                 || (false && (h =? t_height t'))
                     | None => t_height t' =? t_height t
                     end = true).
    { destruct (db_latest (t_db t')) as [h|] eqn:El.
      - destruct (F2 ltac:(lia) h eq_refl) as [A B]. rewrite B, N.eqb_refl, A.
        cbn. rewrite orb_false_r. apply Bool.eqb_reflx.
      - rewrite (F1 eq_refl). apply N.eqb_refl. }
    rewrite Hfirst. cbn [andb].
    destruct ok.
    + destruct (Hok eq_refl) as [A [B C]]. subst next.
      replace (fin + 1 =? fin + 1) with true by lia. rewrite orb_true_r. cbn [andb].
      destruct pages as [|pg pr].
      * cbn in T. injection T as T. lia.
      * rewrite B. apply N.eqb_refl.
    + destruct (Herr eq_refl) as [A B]. destruct pages as [|pg pr]; [congruence|].
      rewrite B. apply N.eqb_refl.
Qed.

Lemma rounds_ok_model chain d0 l0 rounds : forall t,
  TaskInv chain d0 l0 t -> rounds_wf rounds ->
  rounds_okb (t_height t) (ps_current (t_sizer t)) rounds (fst (run_rounds chain t rounds)) = true.
Proof.
  induction rounds as [|[fin script] r IH]; intros t HI Hw; cbn [run_rounds]; [reflexivity|].
  inversion Hw as [|? ? Hfin Hr]; subst. cbn [fst] in Hfin.
  pose proof (run_once_spec chain d0 l0 t fin script HI Hfin) as HS.
  pose proof (round_ok_model chain d0 l0 t fin script HI Hfin) as HO.
  destruct (run_once chain t fin script) as [[t' ok] pages]. destruct HS as [HI' HR].
  specialize (IH t' HI' Hr). destruct (run_rounds chain t' r) as [obs tf]. cbn [fst] in *.
  cbn [rounds_okb]. rewrite HO. cbn [andb r_height r_page_size observe_round].
  rewrite IH, andb_true_r.
  unfold RoundSpec in HR. destruct (fin <=? t_height t); [lia|]. destruct HR as [next HR]. lia.
Qed.

Lemma last_default {A} (l : list A) d1 d2 : l <> [] -> last l d1 = last l d2.
Proof.
  induction l as [|x r IH]; [congruence|]. intros _. destruct r as [|y r']; [reflexivity|].
  change (last (x :: y :: r') d1) with (last (y :: r') d1).
  change (last (x :: y :: r') d2) with (last (y :: r') d2). apply IH. discriminate.
Qed.

Lemma last_heights chain rounds : forall t,
  last (map r_height (fst (run_rounds chain t rounds))) (t_height t) =
  t_height (snd (run_rounds chain t rounds)).
Proof.
  induction rounds as [|[fin script] r IH]; intros t; cbn [run_rounds]; [reflexivity|].
  destruct (run_once chain t fin script) as [[t' ok] pages].
  specialize (IH t'). destruct (run_rounds chain t' r) as [obs tf]. cbn [fst snd] in *.
  cbn [map r_height observe_round].
  destruct (map r_height obs) as [|h hs] eqn:Em.
  - cbn in *. exact IH.
  - change (last (t_height t' :: h :: hs) (t_height t)) with (last (h :: hs) (t_height t)).
    rewrite (last_default (h :: hs) (t_height t) (t_height t')) by discriminate. exact IH.
Qed.

Theorem run_ok_model chain deploy d0 ps ml grow rounds :
  1 <= ps -> rounds_wf rounds ->
  let t0 := task_new deploy d0 ps ml grow in
  keys_below d0 (t_height t0 + 1) ->
  run_okb chain (t_height t0) ps rounds (fst (run_rounds chain t0 rounds))
          (t_db (snd (run_rounds chain t0 rounds))) = true.
Proof.
  intros Hps Hw t0 Hk.
  pose proof (task_new_inv chain deploy d0 ps ml grow Hps Hk) as HI. fold t0 in HI.
  unfold run_okb. rewrite andb_true_iff. split.
  - apply (rounds_ok_model chain d0 (t_height t0) rounds t0 HI Hw).
  - rewrite (last_heights chain rounds t0).
    destruct (run_rounds_inv chain d0 (t_height t0) rounds t0 HI Hw) as [HI' Hmono].
    unfold stored_okb. apply forallb_forall. intros h Hh. apply nseqN_In in Hh.
    rewrite (stored_exact_inv chain d0 (t_height t0) _ HI' h) by lia.
    clear. induction (expected_events chain h) as [|e l IHl]; cbn; [reflexivity|].
    unfold event_eqb. rewrite !N.eqb_refl. exact IHl.
Qed.

(* ---------- readable per-iteration statement ---------- *)

Theorem run_once_tiles chain d0 l0 t finalized script :
  TaskInv chain d0 l0 t -> t_height t < finalized -> finalized < u64max ->
  let '(t', ok, pages) := run_once chain t finalized script in
  exists next,
    Tiles (t_height t + 1) pages next /\ Forall (fun p => snd p <= finalized) pages /\
    t_height t <= t_height t' /\ t_height t' < next /\ next <= finalized + 1 /\
    (ok = true -> next = finalized + 1 /\ t_height t' = finalized /\ t_synced t' = true) /\
    (ok = false -> pages <> [] /\ t_height t' + 1 = last_page_start pages 0).
Proof.
  intros HI Hlt Hfin. pose proof (run_once_spec chain d0 l0 t finalized script HI Hfin) as H.
  destruct (run_once chain t finalized script) as [[t' ok] pages]. destruct H as [_ HR].
  unfold RoundSpec in HR. replace (finalized <=? t_height t) with false in HR by lia.
  destruct HR as [next [T R]]. exists next. apply pages_tileb_sound in T. destruct T as [T1 T2].
  split; [exact T1|]. split; [exact T2|]. exact R.
Qed.

Lemma events_eqb_eq a : forall b, events_eqb a b = true <-> a = b.
Proof.
  induction a as [|x a IH]; intros [|y b]; cbn; try (split; [discriminate|congruence]); [tauto|].
  rewrite andb_true_iff, IH. unfold event_eqb. destruct x, y; cbn. split.
  - intros [H ->]. f_equal. f_equal; lia.
  - intro H. injection H as -> -> -> ->. rewrite !N.eqb_refl. tauto.
Qed.

Theorem stored_okb_sound chain l0 final stored :
  stored_okb chain l0 final stored = true <->
  forall h, l0 < h <= final -> db_get stored h = Some (expected_events chain h).
Proof.
  unfold stored_okb. rewrite forallb_forall. split.
  - intros H h Hh. specialize (H h). rewrite nseqN_In in H. specialize (H ltac:(lia)).
    destruct (db_get stored h) as [evs|]; [|discriminate]. apply events_eqb_eq in H. now subst.
  - intros H h Hh. apply nseqN_In in Hh. rewrite (H h) by lia. now apply events_eqb_eq.
Qed.

(* at the very top of the u64 range the pages do overlap: height u64::MAX is requested twice.
   This is why the theorems assume finalized < u64::MAX. *)
Example pages_overlap_at_u64max :
  exists p p', gap_page (u64max - 1) u64max 5 = Some p /\ advance_and_resize p 5 = Some p' /\
               pg_end p = u64max /\ pg_start p' = u64max.
Proof.
  eexists; eexists. split; [vm_compute; reflexivity|]. split; [vm_compute; reflexivity|].
  split; vm_compute; reflexivity.
Qed.

(* non-vacuity: two iterations, the first cut short by an RPC error after one page (the page
   size shrinks to 1 and grows back to 2 after two successes) *)
Example relayer_nonvacuous :
  let chain := [ {| lg_height := 5; lg_index := 1; lg_kind := 0; lg_nonce := 7; lg_contract := 0 |};
                 {| lg_height := 5; lg_index := 0; lg_kind := 1; lg_nonce := 8; lg_contract := 0 |};
                 {| lg_height := 7; lg_index := 0; lg_kind := 0; lg_nonce := 9; lg_contract := 1 |};
                 {| lg_height := 8; lg_index := 3; lg_kind := 2; lg_nonce := 1; lg_contract := 0 |} ] in
  let t0 := task_new 5 [] 2 10000 2 in
  let r := run_rounds chain t0 [(9, [0; 1]); (9, [])] in
  map r_pages (fst r) = [[(5, 6); (7, 8)]; [(7, 7); (8, 8); (9, 9)]] /\
  map r_page_size (fst r) = [1; 2] /\
  map r_ok (fst r) = [false; true] /\ map r_height (fst r) = [6; 9] /\
  map fst (t_db (snd r)) = [5; 6; 7; 8; 9] /\
  db_get (t_db (snd r)) 5 = Some [ {| ev_kind := 1; ev_nonce := 8; ev_height := 5 |};
                                   {| ev_kind := 0; ev_nonce := 7; ev_height := 5 |} ] /\
  run_okb chain (t_height t0) 2 [(9, [0; 1]); (9, [])] (fst r) (t_db (snd r)) = true.
Proof. vm_compute. repeat split; reflexivity. Qed.
