(* C29, part 1: the page sizer never reaches 0, and pagination steps are contiguous. *)
From FC Require Import Relayer.Model.
From Coq Require Import ZifyBool ZifyN ZifyNat Lia.
Open Scope N_scope.

(* ---------- AdaptivePageSizer ---------- *)

Lemma sizer_update_pos s o : 1 <= ps_current s -> 1 <= ps_current (sizer_update s o).
Proof.
  intro H. destruct o as [n|]; unfold sizer_update, sizer_shrink, sizer_set; cbn.
  - destruct (ps_max_logs s <? n); cbn; [lia|].
    destruct ((ps_grow_threshold s <=? sat_add u64max (ps_successful s) 1) &&
              (ps_current s <? ps_max s)) eqn:E; cbn; [|exact H].
    apply andb_true_iff in E. destruct E as [_ E].
    set (g := sat_mul u64max (ps_current s) 125 / 100).
    destruct (ps_current s <? g) eqn:G; unfold sat_add, u64max; lia.
  - lia.
Qed.

Lemma sizer_update_le_max s o :
  ps_current s <= ps_max s -> 1 <= ps_max s ->
  ps_current (sizer_update s o) <= ps_max (sizer_update s o).
Proof.
  intros H H1. destruct o as [n|]; unfold sizer_update, sizer_shrink, sizer_set; cbn.
  - destruct (ps_max_logs s <? n); cbn.
    + pose proof (N.div_le_upper_bound (ps_current s) 2 (ps_current s)). 
      assert (ps_current s / 2 <= ps_current s) by (apply N.div_le_upper_bound; lia). lia.
    + destruct ((ps_grow_threshold s <=? sat_add u64max (ps_successful s) 1) &&
                (ps_current s <? ps_max s)); cbn; [|exact H].
      set (g := sat_mul u64max (ps_current s) 125 / 100).
      destruct (ps_current s <? g); lia.
  - assert (ps_current s / 2 <= ps_current s) by (apply N.div_le_upper_bound; lia). lia.
Qed.

(* ---------- pages ---------- *)

(* a well-formed page of a gap ending at [pg_stop p] < u64::MAX *)
Definition page_wf (p : page) : Prop :=
  pg_start p <= pg_end p /\ pg_end p <= pg_stop p /\ pg_stop p < u64max /\ 1 <= pg_size p /\
  pg_end p + 1 <= pg_start p + pg_size p /\
  (pg_end p = pg_stop p \/ pg_end p + 1 = pg_start p + pg_size p).

Lemma gap_page_spec oldest latest size :
  1 <= size -> oldest <= latest -> latest < u64max ->
  exists p, gap_page oldest latest size = Some p /\ page_wf p /\
            pg_start p = oldest /\ pg_stop p = latest.
Proof.
  intros Hs Hle Hmax. unfold gap_page, page_is_empty; cbn.
  set (e := N.min (sat_add u64max oldest (sat_sub size 1)) latest).
  assert (He : oldest <= e /\ e <= latest /\ e + 1 <= oldest + size /\
               (e = latest \/ e + 1 = oldest + size)).
  { unfold e, sat_add, sat_sub. lia. }
  replace (e <? oldest) with false by lia. replace (size =? 0) with false by lia. cbn.
  eexists. split; [reflexivity|]. unfold page_wf; cbn. lia.
Qed.

Lemma gap_page_empty oldest latest size :
  latest < oldest \/ size = 0 -> gap_page oldest latest size = None.
Proof.
  intro H. unfold gap_page, page_is_empty; cbn. unfold sat_add, sat_sub.
  destruct H as [H|H].
  - replace (N.min (N.min u64max (oldest + (size - 1))) latest <? oldest) with true by lia. reflexivity.
  - subst. rewrite orb_true_r. reflexivity.
Qed.

(* the next page starts right after the current one; there is no next page exactly when the
   current one reaches the end of the gap *)
Lemma advance_spec p s :
  page_wf p -> 1 <= s ->
  match advance_and_resize p s with
  | None => pg_end p = pg_stop p
  | Some p' => page_wf p' /\ pg_start p' = pg_end p + 1 /\ pg_stop p' = pg_stop p /\ pg_end p < pg_stop p
  end.
Proof.
  intros [H1 [H2 [H3 [H4 [H5 H6]]]]] Hs. unfold advance_and_resize, page_is_empty; cbn.
  set (st := sat_add u64max (pg_start p) (pg_size p)).
  set (en := N.min (sat_add u64max (pg_end p) s) (pg_stop p)).
  destruct (N.eq_dec (pg_end p) (pg_stop p)) as [Eend|Eend].
  - assert (en <? st = true) by (unfold en, st, sat_add; lia).
    rewrite H. cbn. exact Eend.
  - assert (Hst : st = pg_end p + 1) by (unfold st, sat_add; lia).
    assert (Hen : st <= en /\ en <= pg_stop p /\ en + 1 <= st + s /\ (en = pg_stop p \/ en + 1 = st + s))
      by (unfold en, sat_add; lia).
    replace (en <? st) with false by lia. replace (s =? 0) with false by lia. cbn.
    unfold page_wf; cbn. fold st en. lia.
Qed.
