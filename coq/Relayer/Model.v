(* Executable model of fuel-core-relayer (C29):
     crates/services/relayer/src/service.rs           AdaptivePageSizer::update, Task (RelayerData)
     crates/services/relayer/src/service/state.rs     EthState, EthSyncGap::page, EthSyncPage::advance_and_resize
     crates/services/relayer/src/service/get_logs.rs  download_logs, write_logs, sort_events_by_log_index
     crates/services/relayer/src/service/run.rs       run
     crates/services/relayer/src/storage.rs           RelayerDb::insert_events (height check)
   u64 arithmetic is explicit.  The DA node is a finite list of logs (in the order the node
   returns them) plus a script of RPC outcomes; the database is a height-sorted association
   list.  The shutdown watcher (take_until) is not modelled. *)
From FC Require Export Common.T.
Open Scope N_scope.

(* ------------------------------------------------------------------ *)
(* AdaptivePageSizer                                                    *)

Record sizer := {
  ps_current : N; ps_max : N; ps_successful : N; ps_grow_threshold : N; ps_max_logs : N
}.

Inductive outcome := Success (logs_downloaded : N) | Error.

Definition sizer_set (s : sizer) (current successful : N) : sizer :=
  {| ps_current := current; ps_max := ps_max s; ps_successful := successful;
     ps_grow_threshold := ps_grow_threshold s; ps_max_logs := ps_max_logs s |}.

Definition sizer_shrink (s : sizer) : sizer := sizer_set s (N.max (ps_current s / 2) 1) 0.

Definition sizer_update (s : sizer) (o : outcome) : sizer :=
  match o with
  | Error => sizer_shrink s
  | Success n =>
      if ps_max_logs s <? n then sizer_shrink s
      else
        let succ := sat_add u64max (ps_successful s) 1 in
        if (ps_grow_threshold s <=? succ) && (ps_current s <? ps_max s) then
          let grown := sat_mul u64max (ps_current s) 125 / 100 in
          sizer_set s (if ps_current s <? grown then N.min grown (ps_max s)
                       else N.min (sat_add u64max (ps_current s) 1) (ps_max s)) 0
        else sizer_set s (ps_current s) succ
  end.

Definition sizer_new (current max grow_threshold max_logs : N) : sizer :=
  {| ps_current := current; ps_max := max; ps_successful := 0;
     ps_grow_threshold := grow_threshold; ps_max_logs := max_logs |}.

(* ------------------------------------------------------------------ *)
(* EthSyncGap / EthSyncPage                                             *)

Record page := { pg_start : N; pg_end : N; pg_size : N; pg_stop : N }.  (* current = start..=end *)

Definition page_is_empty (p : page) : bool := (pg_end p <? pg_start p) || (pg_size p =? 0).

Definition gap_page (oldest latest page_size : N) : option page :=
  let p := {| pg_start := oldest;
              pg_end := N.min (sat_add u64max oldest (sat_sub page_size 1)) latest;
              pg_size := page_size; pg_stop := latest |} in
  if page_is_empty p then None else Some p.

Definition advance_and_resize (p : page) (new_page_size : N) : option page :=
  let p' := {| pg_start := sat_add u64max (pg_start p) (pg_size p);
               pg_end := N.min (sat_add u64max (pg_end p) new_page_size) (pg_stop p);
               pg_size := new_page_size; pg_stop := pg_stop p |} in
  if page_is_empty p' then None else Some p'.

(* ------------------------------------------------------------------ *)
(* the DA node's logs, fuel events, the database                        *)

Record log := { lg_height : N; lg_index : N; lg_kind : N; lg_nonce : N; lg_contract : N }.
(* kind 0 = MessageSent, 1 = Transaction, other = unknown event (EthEventLog::Ignored);
   contract 0 = a listened contract *)

Record event := { ev_kind : N; ev_nonce : N; ev_height : N }.

(* the filter of get_logs: contract address and block range *)
Definition provider_logs (chain : list log) (from to : N) : list log :=
  filter (fun l => (lg_contract l =? 0) && (from <=? lg_height l) && (lg_height l <=? to)) chain.

(* sort_events_by_log_index: a stable sort on log_index *)
Fixpoint insert_log (x : log) (l : list log) : list log :=
  match l with
  | [] => [x]
  | y :: r => if lg_index y <=? lg_index x then y :: insert_log x r else x :: l
  end.
Definition sort_by_log_index (l : list log) : list log := fold_left (fun acc x => insert_log x acc) l [].

Definition to_events (l : list log) : list event :=
  flat_map (fun x => if lg_kind x <? 2
                     then [{| ev_kind := lg_kind x; ev_nonce := lg_nonce x; ev_height := lg_height x |}]
                     else []) l.

Definition bucket (evs : list event) (h : N) : list event :=
  filter (fun e => ev_height e =? h) evs.

Definition db := list (N * list event).       (* sorted by height, one entry per height *)

Fixpoint db_put (d : db) (h : N) (evs : list event) : db :=
  match d with
  | [] => [(h, evs)]
  | (h', e') :: r => if h <? h' then (h, evs) :: d
                     else if h =? h' then (h, evs) :: r
                     else (h', e') :: db_put r h evs
  end.

Fixpoint db_latest (d : db) : option N :=
  match d with
  | [] => None
  | [(h, _)] => Some h
  | _ :: r => db_latest r
  end.

Fixpoint db_get (d : db) (h : N) : option (list event) :=
  match d with
  | [] => None
  | (h', e) :: r => if h' =? h then Some e else db_get r h
  end.

(* storage.rs insert_events; None = Err *)
Definition insert_events (d : db) (da_height : N) (events : list event) : option db :=
  let before := match db_latest d with Some h => h | None => 0 end in
  if negb (forallb (fun e => ev_height e =? da_height) events) then None
  else
    let d' := db_put d da_height events in
    match db_latest d' with
    | Some after => if after <? before then None else Some d'
    | None => None
    end.

(* the `for height in start_height..=last_height` loop of write_logs; on an error the
   entries written so far stay *)
Fixpoint write_heights (d : db) (evs : list event) (h : N) (n : nat) : db * bool :=
  match n with
  | O => (d, true)
  | S n' => match insert_events d h (bucket evs h) with
            | None => (d, false)
            | Some d' => write_heights d' evs (h + 1) n'
            end
  end.

Definition write_page (d : db) (start last : N) (logs : list log) : db * bool :=
  write_heights d (to_events (sort_by_log_index logs)) start (N.to_nat (last + 1 - start)).

(* ------------------------------------------------------------------ *)
(* download_logs |> write_logs                                          *)

Record dl := {
  dl_ok : bool; dl_sizer : sizer; dl_db : db; dl_script : list N; dl_pages : list (N * N)
}.

(* script codes: 0 = the call succeeds, 1 = RPC error response (the sizer shrinks),
   other = transport error (the sizer is not told); an exhausted script means success *)
Fixpoint dl_loop (fuel : nat) (chain : list log) (pg : option page) (sz : sizer) (d : db)
         (script : list N) (pages : list (N * N)) : dl :=
  match pg with
  | None => {| dl_ok := true; dl_sizer := sz; dl_db := d; dl_script := script; dl_pages := pages |}
  | Some p =>
      match fuel with
      | O => {| dl_ok := false; dl_sizer := sz; dl_db := d; dl_script := script; dl_pages := pages |}
      | S f =>
          let code := match script with [] => 0 | c :: _ => c end in
          let script' := match script with [] => [] | _ :: r => r end in
          let pages' := pages ++ [(pg_start p, pg_end p)] in
          if code =? 0 then
            let logs := provider_logs chain (pg_start p) (pg_end p) in
            let sz' := sizer_update sz (Success (N.of_nat (length logs))) in
            let pg' := advance_and_resize p (ps_current sz') in
            let '(d', ok) := write_page d (pg_start p) (pg_end p) logs in
            if ok then dl_loop f chain pg' sz' d' script' pages'
            else {| dl_ok := false; dl_sizer := sz'; dl_db := d'; dl_script := script'; dl_pages := pages' |}
          else if code =? 1 then
            {| dl_ok := false; dl_sizer := sizer_update sz Error; dl_db := d; dl_script := script';
               dl_pages := pages' |}
          else {| dl_ok := false; dl_sizer := sz; dl_db := d; dl_script := script'; dl_pages := pages' |}
      end
  end.

(* ------------------------------------------------------------------ *)
(* Task and run::run                                                    *)

Record task := {
  t_sizer : sizer; t_db : db;
  t_synced : bool; t_height : N      (* the published SyncState: Synced / PartiallySynced (height) *)
}.

Definition task_new (deploy : N) (d : db) (page_size max_logs grow : N) : task :=
  {| t_sizer := sizer_new page_size page_size grow max_logs; t_db := d; t_synced := false;
     t_height := match db_latest d with Some h => h | None => sat_sub deploy 1 end |}.

Definition gap_fuel (oldest latest : N) : nat := S (S (N.to_nat (latest + 1 - oldest))).

(* one iteration; [finalized] is the answer of the DA node, [script] the RPC outcomes *)
Definition run_once (chain : list log) (t : task) (finalized : N) (script : list N)
  : task * bool * list (N * N) :=
  let remote := finalized in
  let local := t_height t in
  if remote <=? local then (t, true, [])
  else
    let oldest := sat_add u64max local 1 in
    let r := dl_loop (gap_fuel oldest remote) chain
                     (gap_page oldest remote (ps_current (t_sizer t)))
                     (t_sizer t) (t_db t) script [] in
    let '(synced, height) := match db_latest (dl_db r) with
                             | Some h => (remote <=? h, h)
                             | None => (t_synced t, t_height t)
                             end in
    ({| t_sizer := dl_sizer r; t_db := dl_db r; t_synced := synced; t_height := height |},
     dl_ok r, dl_pages r).

(* what the harness observes after an iteration *)
Record robs := {
  r_ok : bool; r_pages : list (N * N); r_db_height : option N;
  r_synced : bool; r_height : N; r_page_size : N; r_successful : N
}.

Definition observe_round (t : task) (ok : bool) (pages : list (N * N)) : robs :=
  {| r_ok := ok; r_pages := pages; r_db_height := db_latest (t_db t);
     r_synced := t_synced t; r_height := t_height t;
     r_page_size := ps_current (t_sizer t); r_successful := ps_successful (t_sizer t) |}.

Fixpoint run_rounds (chain : list log) (t : task) (rounds : list (N * list N)) : list robs * task :=
  match rounds with
  | [] => ([], t)
  | (fin, script) :: r =>
      let '(t', ok, pages) := run_once chain t fin script in
      let '(obs, tf) := run_rounds chain t' r in
      (observe_round t' ok pages :: obs, tf)
  end.

(* ------------------------------------------------------------------ *)
(* the decidable checker (Pcheck of C29), on observations               *)

(* the pages are consecutive from [from], non-empty, and stay at or below [latest];
   returns the first height not yet covered *)
Fixpoint pages_tileb (from latest : N) (pages : list (N * N)) : option N :=
  match pages with
  | [] => Some from
  | (a, b) :: r => if (a =? from) && (a <=? b) && (b <=? latest) then pages_tileb (b + 1) latest r
                   else None
  end.

(* what height [h] of the DA chain must hold: the listened message / transaction logs of
   that block, ordered by log index (stable) *)
Definition expected_events (chain : list log) (h : N) : list event :=
  to_events (sort_by_log_index (filter (fun l => (lg_contract l =? 0) && (lg_height l =? h)) chain)).

Definition event_eqb (a b : event) : bool :=
  (ev_kind a =? ev_kind b) && (ev_nonce a =? ev_nonce b) && (ev_height a =? ev_height b).
Fixpoint events_eqb (a b : list event) : bool :=
  match a, b with
  | [], [] => true
  | x :: a', y :: b' => event_eqb x y && events_eqb a' b'
  | _, _ => false
  end.

Fixpoint nseqN (n : nat) (a : N) : list N :=
  match n with O => [] | S n' => a :: nseqN n' (a + 1) end.

Definition last_page_start (pages : list (N * N)) (d : N) : N := fst (last pages (d, d)).

(* one iteration, given the published height and page size before it *)
Definition round_okb (local page_size finalized : N) (o : robs) : bool :=
  (* the published height is the stored height whenever something is stored *)
  match r_db_height o with
  | Some h => (h =? r_height o) && Bool.eqb (r_synced o) (finalized <=? r_height o) || (finalized <=? local) && (h =? r_height o)
  | None => r_height o =? local
  end &&
  if finalized <=? local
  then r_ok o && match r_pages o with [] => true | _ => false end && (r_height o =? local)
  else
    match pages_tileb (local + 1) finalized (r_pages o) with
    | None => false
    | Some next =>
        if r_ok o then
          (* a successful iteration with a page size >= 1 covers the whole gap, and all of it
             is written *)
          (negb (1 <=? page_size) || (next =? finalized + 1)) &&
          match r_pages o with [] => r_height o =? local | _ => r_height o + 1 =? next end
        else
          (* an RPC error ends the stream: exactly the pages before the failing one are written *)
          match r_pages o with
          | [] => false
          | _ => r_height o + 1 =? last_page_start (r_pages o) 0
          end
    end.

Fixpoint rounds_okb (local page_size : N) (rounds : list (N * list N)) (obs : list robs) : bool :=
  match rounds, obs with
  | [], [] => true
  | (fin, _) :: r, o :: obs' =>
      round_okb local page_size fin o && (local <=? r_height o) &&
      rounds_okb (r_height o) (r_page_size o) r obs'
  | _, _ => false
  end.

(* every height above the initial one and up to the final published height holds exactly
   that DA block's events *)
Definition stored_okb (chain : list log) (local0 final : N) (stored : db) : bool :=
  forallb (fun h => match db_get stored h with
                    | Some evs => events_eqb evs (expected_events chain h)
                    | None => false
                    end)
          (nseqN (N.to_nat (final - local0)) (local0 + 1)).

Definition run_okb (chain : list log) (local0 page_size : N) (rounds : list (N * list N))
           (obs : list robs) (stored : db) : bool :=
  rounds_okb local0 page_size rounds obs &&
  stored_okb chain local0 (last (map r_height obs) local0) stored.

(* ------------------------------------------------------------------ *)
(* T codecs and the entry point                                         *)

Definition T_log (t : T) : option log :=
  match t with
  | L [h; i; k; n; c] =>
      match getN h, getN i, getN k, getN n, getN c with
      | Some h, Some i, Some k, Some n, Some c =>
          Some {| lg_height := h; lg_index := i; lg_kind := k; lg_nonce := n; lg_contract := c |}
      | _, _, _, _, _ => None
      end
  | _ => None
  end.

Definition T_round (t : T) : option (N * list N) :=
  match t with
  | L [f; s] => match getN f, getListN s with Some f, Some s => Some (f, s) | _, _ => None end
  | _ => None
  end.

Definition pages_T (l : list (N * N)) : T := L (map (fun p => L [tN (fst p); tN (snd p)]) l).
Definition robs_T (o : robs) : T :=
  L [I (if r_ok o then 0 else 1); pages_T (r_pages o); tOptN (r_db_height o);
     L [tB (r_synced o); tN (r_height o)]; L [tN (r_page_size o); tN (r_successful o)]].
Definition stored_T (d : db) : T :=
  L (map (fun e => L [tN (fst e); L (map (fun v => L [tN (ev_kind v); tN (ev_nonce v)]) (snd e))]) d).

Definition T_pages (t : T) : option (list (N * N)) :=
  match t with
  | L l => mapM (fun p => match p with
                          | L [a; b] => match getN a, getN b with
                                        | Some a, Some b => Some (a, b) | _, _ => None end
                          | _ => None end) l
  | _ => None
  end.

Definition T_robs (t : T) : option robs :=
  match t with
  | L [I res; pages; dbh; L [s; h]; L [ps; sc]] =>
      match T_pages pages, getOptN dbh, getB s, getN h, getN ps, getN sc with
      | Some pages, Some dbh, Some s, Some h, Some ps, Some sc =>
          Some {| r_ok := Z.eqb res 0; r_pages := pages; r_db_height := dbh; r_synced := s;
                  r_height := h; r_page_size := ps; r_successful := sc |}
      | _, _, _, _, _, _ => None
      end
  | _ => None
  end.

(* stored events are printed without their height; it is the entry's height *)
Definition T_stored (t : T) : option db :=
  match t with
  | L l => mapM (fun e => match e with
                          | L [h; L evs] =>
                              match getN h, mapM (fun v => match v with
                                                           | L [k; n] => match getN k, getN n with
                                                                         | Some k, Some n => Some (k, n)
                                                                         | _, _ => None end
                                                           | _ => None end) evs with
                              | Some h, Some evs =>
                                  Some (h, map (fun kn => {| ev_kind := fst kn; ev_nonce := snd kn;
                                                             ev_height := h |}) evs)
                              | _, _ => None
                              end
                          | _ => None end) l
  | _ => None
  end.

Fixpoint split_last {A} (l : list A) : option (list A * A) :=
  match l with
  | [] => None
  | [x] => Some ([], x)
  | x :: r => match split_last r with Some (i, z) => Some (x :: i, z) | None => None end
  end.

Definition main29 (input observed : T) : T :=
  match input with
  | L [deploy; dbi; ps; ml; grow; L logs; L rounds] =>
      match getN deploy, getOptN dbi, getN ps, getN ml, getN grow, mapM T_log logs, mapM T_round rounds with
      | Some deploy, Some dbi, Some ps, Some ml, Some grow, Some chain, Some rounds =>
          let d0 : db := match dbi with Some h => [(h, [])] | None => [] end in
          let t0 := task_new deploy d0 ps ml grow in
          let '(obs, tf) := run_rounds chain t0 rounds in
          let model := L (L [L [tB (t_synced t0); tN (t_height t0)]] :: map robs_T obs ++ [stored_T (t_db tf)]) in
          let pc := match observed with
                    | L (L [L [s0; h0]] :: rest) =>
                        match getB s0, getN h0, split_last rest with
                        | Some s0, Some h0, Some (robs, st) =>
                            match mapM T_robs robs, T_stored st with
                            | Some robs, Some st =>
                                negb s0 && (h0 =? t_height t0) && run_okb chain h0 ps rounds robs st
                            | _, _ => false
                            end
                        | _, _, _ => false
                        end
                    | _ => false
                    end in
          L [model; tB pc]
      | _, _, _, _, _, _, _ => tErr 2
      end
  | _ => tErr 1
  end.

Definition main_T (req : T) : T :=
  match req with
  | L [I 29%Z; input; observed] => main29 input observed
  | _ => tErr 0
  end.
