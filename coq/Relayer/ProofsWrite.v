(* C29, part 2: write_logs stores, for every height of a page, exactly that DA block's
   listened message / transaction events ordered by log index. *)
From FC Require Import Relayer.Model.
From Coq Require Import ZifyBool ZifyN ZifyNat Lia.
Open Scope N_scope.

(* ---------- the stable sort commutes with a filter ---------- *)

Fixpoint sorted_idx (l : list log) : Prop :=
  match l with
  | [] => True
  | x :: r => (forall y, In y r -> lg_index x <= lg_index y) /\ sorted_idx r
  end.

Lemma insert_log_In x l y : In y (insert_log x l) <-> y = x \/ In y l.
Proof.
  induction l as [|z r IH]; cbn; [intuition|].
  destruct (lg_index z <=? lg_index x); cbn; [rewrite IH|]; intuition.
Qed.

Lemma insert_log_sorted x l : sorted_idx l -> sorted_idx (insert_log x l).
Proof.
  induction l as [|z r IH]; cbn; [intuition|].
  intros [Hz Hr]. destruct (lg_index z <=? lg_index x) eqn:E; cbn.
  - split; [|now apply IH]. intros y Hy. apply insert_log_In in Hy. destruct Hy as [->|Hy]; [lia|now apply Hz].
  - split; [|split; assumption]. intros y [<-|Hy]; [lia|]. specialize (Hz y Hy). lia.
Qed.

Lemma filter_insert_log f x l : sorted_idx l ->
  filter f (insert_log x l) = if f x then insert_log x (filter f l) else filter f l.
Proof.
  induction l as [|z r IH]; cbn; [destruct (f x); reflexivity|].
  intros [Hz Hr]. destruct (lg_index z <=? lg_index x) eqn:E; cbn.
  - rewrite (IH Hr). destruct (f z) eqn:Fz; destruct (f x) eqn:Fx; cbn; rewrite ?E; reflexivity.
  - destruct (f x) eqn:Fx; cbn; destruct (f z) eqn:Fz; cbn; rewrite ?E; try reflexivity.
    (* z is dropped: x still goes in front of everything kept, all of which have a larger index *)
    clear IH. assert (Hall : forall y, In y (filter f r) -> lg_index x < lg_index y).
    { intros y Hy. apply filter_In in Hy. destruct Hy as [Hy _]. specialize (Hz y Hy). lia. }
    destruct (filter f r) as [|w r'] eqn:Ef; cbn; [reflexivity|].
    specialize (Hall w (or_introl eq_refl)). replace (lg_index w <=? lg_index x) with false by lia.
    reflexivity.
Qed.

Lemma sort_acc_spec f l : forall acc, sorted_idx acc ->
  sorted_idx (fold_left (fun a x => insert_log x a) l acc) /\
  filter f (fold_left (fun a x => insert_log x a) l acc) =
  fold_left (fun a x => insert_log x a) (filter f l) (filter f acc).
Proof.
  induction l as [|x l IH]; intros acc Hs; cbn; [split; [exact Hs|reflexivity]|].
  destruct (IH (insert_log x acc) (insert_log_sorted x acc Hs)) as [A B].
  split; [exact A|]. rewrite B, (filter_insert_log f x acc Hs).
  destruct (f x); reflexivity.
Qed.

Lemma filter_sort f l : filter f (sort_by_log_index l) = sort_by_log_index (filter f l).
Proof. unfold sort_by_log_index. now destruct (sort_acc_spec f l [] Logic.I) as [_ ->]. Qed.

Definition ev_of (x : log) : list event :=
  if lg_kind x <? 2
  then [{| ev_kind := lg_kind x; ev_nonce := lg_nonce x; ev_height := lg_height x |}] else [].

Lemma to_events_cons x l : to_events (x :: l) = ev_of x ++ to_events l.
Proof. reflexivity. Qed.

Lemma bucket_ev_of x h : bucket (ev_of x) h = if lg_height x =? h then ev_of x else [].
Proof.
  unfold bucket, ev_of. destruct (lg_kind x <? 2); cbn; destruct (lg_height x =? h); reflexivity.
Qed.

Lemma bucket_to_events l h :
  bucket (to_events l) h = to_events (filter (fun x => lg_height x =? h) l).
Proof.
  induction l as [|x l IH]; [reflexivity|].
  rewrite to_events_cons. unfold bucket in *. rewrite filter_app. fold (bucket (ev_of x) h).
  rewrite bucket_ev_of, IH. cbn [filter].
  destruct (lg_height x =? h); [now rewrite to_events_cons|reflexivity].
Qed.

Lemma filter_provider_logs chain a b h : a <= h -> h <= b ->
  filter (fun x => lg_height x =? h) (provider_logs chain a b) =
  filter (fun l => (lg_contract l =? 0) && (lg_height l =? h)) chain.
Proof.
  intros Ha Hb. unfold provider_logs. induction chain as [|x r IH]; cbn; [reflexivity|].
  destruct (lg_contract x =? 0) eqn:Ec; cbn.
  - destruct (lg_height x =? h) eqn:Eh.
    + replace (a <=? lg_height x) with true by lia. replace (lg_height x <=? b) with true by lia.
      cbn. rewrite Eh. now rewrite IH.
    + destruct ((a <=? lg_height x) && (lg_height x <=? b)); cbn; rewrite ?Eh; exact IH.
  - exact IH.
Qed.

(* what write_logs hands to insert_events for height h of the page [a, b] *)
Lemma page_bucket chain a b h : a <= h -> h <= b ->
  bucket (to_events (sort_by_log_index (provider_logs chain a b))) h = expected_events chain h.
Proof.
  intros Ha Hb. unfold expected_events.
  now rewrite bucket_to_events, filter_sort, filter_provider_logs.
Qed.

(* ---------- the database ---------- *)

Definition keys_below (d : db) (x : N) : Prop := forall k e, In (k, e) d -> k < x.

Lemma db_put_above d h e : keys_below d h -> db_put d h e = d ++ [(h, e)].
Proof.
  induction d as [|[k v] r IH]; intro H; cbn; [reflexivity|].
  assert (k < h) by (apply (H k v); now left).
  replace (h <? k) with false by lia. replace (h =? k) with false by lia.
  rewrite IH; [reflexivity|]. intros k' e' Hin. apply (H k' e'). now right.
Qed.

Lemma db_latest_app d h e : db_latest (d ++ [(h, e)]) = Some h.
Proof.
  induction d as [|[k v] r IH]; cbn; [reflexivity|].
  destruct (r ++ [(h, e)]) eqn:E; [destruct r; discriminate|]. exact IH.
Qed.

Lemma db_latest_In d m : db_latest d = Some m -> exists e, In (m, e) d.
Proof.
  induction d as [|[k v] r IH]; cbn; [discriminate|].
  destruct r as [|p r'].
  - intro H. injection H as <-. exists v. now left.
  - intro H. destruct (IH H) as [e He]. exists e. now right.
Qed.

Lemma db_get_app d h e k : keys_below d h ->
  db_get (d ++ [(h, e)]) k = if k =? h then Some e else db_get d k.
Proof.
  induction d as [|[k' v] r IH]; intro H; cbn.
  - rewrite (N.eqb_sym h k). destruct (k =? h); reflexivity.
  - assert (k' < h) by (apply (H k' v); now left).
    destruct (k' =? k) eqn:E.
    + replace (k =? h) with false by lia. reflexivity.
    + apply IH. intros k2 e2 Hin. apply (H k2 e2). now right.
Qed.

Lemma insert_events_above d h evs :
  keys_below d h -> forallb (fun e => ev_height e =? h) evs = true ->
  insert_events d h evs = Some (d ++ [(h, evs)]).
Proof.
  intros Hk Hf. unfold insert_events. rewrite Hf. cbn [negb].
  rewrite (db_put_above d h evs Hk), db_latest_app.
  destruct (db_latest d) as [m|] eqn:El.
  - destruct (db_latest_In d m El) as [e He]. specialize (Hk m e He).
    replace (h <? m) with false by lia. reflexivity.
  - replace (h <? 0) with false by lia. reflexivity.
Qed.

Lemma bucket_heights evs h : forallb (fun e => ev_height e =? h) (bucket evs h) = true.
Proof.
  unfold bucket. apply forallb_forall. intros e He. apply filter_In in He. apply He.
Qed.

Lemma keys_below_app d h e : keys_below d h -> keys_below (d ++ [(h, e)]) (h + 1).
Proof.
  intros H k v Hin. apply in_app_or in Hin. destruct Hin as [Hin|[Hin|[]]].
  - specialize (H k v Hin). lia.
  - injection Hin as <- _. lia.
Qed.

Lemma write_heights_spec evs n : forall d a, keys_below d a ->
  write_heights d evs a n = (d ++ map (fun h => (h, bucket evs h)) (nseqN n a), true).
Proof.
  induction n as [|n IH]; intros d a Hk; cbn [write_heights nseqN map].
  - now rewrite app_nil_r.
  - rewrite (insert_events_above d a (bucket evs a) Hk (bucket_heights evs a)).
    rewrite (IH _ (a + 1) (keys_below_app d a _ Hk)). now rewrite <- app_assoc.
Qed.

Lemma nseqN_In n : forall a h, In h (nseqN n a) <-> a <= h < a + N.of_nat n.
Proof.
  induction n as [|n IH]; intros a h; cbn [nseqN In]; [lia|]. rewrite IH. lia.
Qed.

Lemma nseqN_app n m : forall a, nseqN n a ++ nseqN m (a + N.of_nat n) = nseqN (n + m) a.
Proof.
  induction n as [|n IH]; intros a; cbn [nseqN app Nat.add].
  - f_equal. lia.
  - f_equal. rewrite <- IH. do 2 f_equal. lia.
Qed.

(* a page [a, b] is written as the expected events of each of its heights, in order *)
Lemma write_page_spec chain d a b : keys_below d a -> a <= b ->
  write_page d a b (provider_logs chain a b) =
  (d ++ map (fun h => (h, expected_events chain h)) (nseqN (N.to_nat (b + 1 - a)) a), true).
Proof.
  intros Hk Hab. unfold write_page. rewrite (write_heights_spec _ _ d a Hk). do 2 f_equal.
  apply map_ext_in. intros h Hh. apply nseqN_In in Hh. f_equal. apply page_bucket; lia.
Qed.
