(* C29, part 4: run::run iterations, restarting from the stored height. *)
From FC Require Import Relayer.Model Relayer.ProofsPage Relayer.ProofsWrite Relayer.ProofsLoop.
From Coq Require Import ZifyBool ZifyN ZifyNat Lia.
Open Scope N_scope.

(* ---------- the database in canonical form ---------- *)

Lemma nseqN_snoc n : forall a, nseqN (S n) a = nseqN n a ++ [a + N.of_nat n].
Proof.
  induction n as [|n IH]; intros a.
  - cbn. f_equal. lia.
  - change (nseqN (S (S n)) a) with (a :: nseqN (S n) (a + 1)). rewrite IH.
    cbn [nseqN app]. do 3 f_equal. lia.
Qed.

Lemma db_latest_canon chain d n a : (0 < n)%nat ->
  db_latest (d ++ map (E chain) (nseqN n a)) = Some (a + N.of_nat n - 1).
Proof.
  intro Hn. destruct n as [|n]; [lia|]. rewrite nseqN_snoc, map_app, app_assoc. cbn [map].
  unfold E at 2. rewrite db_latest_app. f_equal. lia.
Qed.

Lemma db_get_canon chain d n : forall a h, keys_below d a -> a <= h < a + N.of_nat n ->
  db_get (d ++ map (E chain) (nseqN n a)) h = Some (expected_events chain h).
Proof.
  induction n as [|n IH]; intros a h Hk Hh; [lia|].
  rewrite nseqN_snoc, map_app, app_assoc. cbn [map]. unfold E at 2.
  rewrite db_get_app by (apply keys_below_canon; exact Hk).
  destruct (h =? a + N.of_nat n) eqn:Eh.
  - f_equal. f_equal. lia.
  - apply IH; [exact Hk|lia].
Qed.

(* ---------- the task invariant ---------- *)

(* [l0]: the height published when the task was created; [d0]: the database found then.
   Since then the heights l0+1 .. t_height have been written, each with exactly its events. *)
Record TaskInv (chain : list log) (d0 : db) (l0 : N) (t : task) : Prop := {
  ti_size : 1 <= ps_current (t_sizer t);
  ti_below : keys_below d0 (l0 + 1);
  ti_latest0 : forall h, db_latest d0 = Some h -> h = l0;
  ti_k : nat;
  ti_db : t_db t = d0 ++ map (E chain) (nseqN ti_k (l0 + 1));
  ti_height : t_height t = l0 + N.of_nat ti_k
}.

Lemma task_new_inv chain deploy d0 ps ml grow :
  1 <= ps -> keys_below d0 (t_height (task_new deploy d0 ps ml grow) + 1) ->
  TaskInv chain d0 (t_height (task_new deploy d0 ps ml grow)) (task_new deploy d0 ps ml grow).
Proof.
  intros Hps Hk. apply Build_TaskInv with (ti_k := O); cbn; try assumption.
  - intros h Hh. now rewrite Hh.
  - now rewrite app_nil_r.
  - lia.
Qed.

Lemma canon_latest chain d0 l0 k :
  (forall h, db_latest d0 = Some h -> h = l0) ->
  forall h, db_latest (d0 ++ map (E chain) (nseqN k (l0 + 1))) = Some h -> h = l0 + N.of_nat k.
Proof.
  intros H0 h. destruct k as [|k].
  - cbn. rewrite app_nil_r. intro H. rewrite (H0 h H). lia.
  - rewrite db_latest_canon by lia. intro H. injection H as <-. lia.
Qed.

(* one iteration *)
Definition RoundSpec (local finalized : N) (t' : task) (ok : bool) (pages : list (N * N)) : Prop :=
  if finalized <=? local then ok = true /\ pages = [] /\ t_height t' = local
  else exists next,
    pages_tileb (local + 1) finalized pages = Some next /\
    local <= t_height t' /\ t_height t' < next /\ next <= finalized + 1 /\
    (ok = true -> next = finalized + 1 /\ t_height t' = finalized /\ t_synced t' = true) /\
    (ok = false -> pages <> [] /\ t_height t' + 1 = last_page_start pages 0).

Lemma run_once_spec chain d0 l0 t finalized script :
  TaskInv chain d0 l0 t -> finalized < u64max ->
  let '(t', ok, pages) := run_once chain t finalized script in
  TaskInv chain d0 l0 t' /\ RoundSpec (t_height t) finalized t' ok pages.
Proof.
  intros [Hs Hb H0 k Hdb Hh] Hfin. unfold run_once, RoundSpec.
  destruct (finalized <=? t_height t) eqn:Esync.
  - split; [now apply Build_TaskInv with (ti_k := k)|]. repeat split.
  - assert (Hold : sat_add u64max (t_height t) 1 = t_height t + 1) by (unfold sat_add; lia).
    rewrite Hold.
    destruct (gap_page_spec (t_height t + 1) finalized (ps_current (t_sizer t)) Hs ltac:(lia) Hfin)
      as [p [Hp [Hwf [Hst Hstop]]]].
    rewrite Hp.
    assert (Hk : keys_below (t_db t) (pg_start p)).
    { rewrite Hdb, Hst, Hh. replace (l0 + N.of_nat k + 1) with (l0 + 1 + N.of_nat k) by lia.
      apply keys_below_canon. exact Hb. }
    assert (Hfuel : pg_stop p + 1 - pg_start p < N.of_nat (gap_fuel (t_height t + 1) finalized)).
    { rewrite Hst, Hstop. unfold gap_fuel. lia. }
    destruct (dl_loop_spec chain _ p (t_sizer t) (t_db t) script [] Hwf Hs Hk Hfuel)
      as [n [new [next [P1 [P2 [P3 [P4 [P5 [P6 [P7 P8]]]]]]]]]].
    set (r := dl_loop (gap_fuel (t_height t + 1) finalized) chain (Some p) (t_sizer t) (t_db t) script []) in *.
    cbn [app] in P1. rewrite Hst, Hstop in *.
    assert (Hdb' : dl_db r = d0 ++ map (E chain) (nseqN (k + n) (l0 + 1))).
    { rewrite P2, Hdb, <- app_assoc, <- map_app. do 2 f_equal.
      rewrite <- nseqN_app. do 2 f_equal. lia. }
    assert (Hheight : match db_latest (dl_db r) with Some h => h | None => t_height t end
                      = l0 + N.of_nat (k + n)).
    { destruct (db_latest (dl_db r)) as [h|] eqn:El.
      - rewrite Hdb' in El. apply (canon_latest chain d0 l0 (k + n) H0 h El).
      - destruct (k + n)%nat as [|kn] eqn:Ekn; [lia|].
        rewrite Hdb', db_latest_canon in El by lia. discriminate. }
    destruct (db_latest (dl_db r)) as [h|] eqn:El; cbn [fst snd].
    + split; [now apply Build_TaskInv with (ti_k := (k + n)%nat)|].
      cbn [t_height t_synced]. exists next. rewrite P1.
      split; [exact P4|]. split; [lia|]. split; [lia|]. split; [lia|]. split.
      * intro Hok. destruct (P7 Hok) as [A B]. split; [exact A|]. split; lia.
      * intro Hok. destruct (P8 Hok) as [A B]. split; [exact A|]. lia.
    + split; [now apply Build_TaskInv with (ti_k := (k + n)%nat)|].
      cbn [t_height t_synced]. exists next. rewrite P1.
      split; [exact P4|]. split; [lia|]. split; [lia|]. split; [lia|]. split.
      * intro Hok. destruct (P7 Hok) as [A B]. lia.
      * intro Hok. destruct (P8 Hok) as [A B]. split; [exact A|]. lia.
Qed.
