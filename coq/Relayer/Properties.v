(* Property theorems of the Relayer cluster (C29). Nothing but statements, [exact], and
   Print Assumptions.
   [TaskInv chain d0 l0 t] (ProofsRun.v): t is a relayer task whose page size is >= 1, created
   over the database d0 with published height l0, that has since written exactly the heights
   l0+1 .. t_height t.  [E chain h] = (h, expected_events chain h): the listened message /
   forced-transaction logs of DA block h ordered by log index (stable).  The DA node's
   finalized height is assumed < u64::MAX (pages_overlap_at_u64max in ProofsRounds.v shows
   the overlap at u64::MAX). *)
From FC Require Import Relayer.Model Relayer.ProofsPage Relayer.ProofsWrite Relayer.ProofsLoop
  Relayer.ProofsRun Relayer.ProofsRounds.
Open Scope N_scope.

(* Any resize with a size >= 1: the next page starts right after the current one, and there is
   no next page exactly when the current one ends the gap. *)
Theorem page_advance_contiguous : forall p s,
  page_wf p -> 1 <= s ->
  match advance_and_resize p s with
  | None => pg_end p = pg_stop p
  | Some p' => page_wf p' /\ pg_start p' = pg_end p + 1 /\ pg_stop p' = pg_stop p /\ pg_end p < pg_stop p
  end.
Proof. exact advance_spec. Qed.
Print Assumptions page_advance_contiguous.

(* The page sizer never reaches 0 once it is >= 1 (so every resize is with a size >= 1). *)
Theorem page_size_stays_positive : forall s o, 1 <= ps_current s -> 1 <= ps_current (sizer_update s o).
Proof. exact sizer_update_pos. Qed.
Print Assumptions page_size_stays_positive.

(* pages_tile_gap: in one run::run iteration, under any script of RPC outcomes, the requested
   pages are consecutive from the height after the published one, never pass the finalized
   height, and cover the whole gap when the iteration succeeds; an RPC error ends the stream
   with exactly the pages before the failing one written (a contiguous prefix). *)
Theorem pages_tile_gap : forall chain d0 l0 t finalized script,
  TaskInv chain d0 l0 t -> t_height t < finalized -> finalized < u64max ->
  let '(t', ok, pages) := run_once chain t finalized script in
  exists next,
    Tiles (t_height t + 1) pages next /\ Forall (fun p => snd p <= finalized) pages /\
    t_height t <= t_height t' /\ t_height t' < next /\ next <= finalized + 1 /\
    (ok = true -> next = finalized + 1 /\ t_height t' = finalized /\ t_synced t' = true) /\
    (ok = false -> pages <> [] /\ t_height t' + 1 = last_page_start pages 0).
Proof. exact run_once_tiles. Qed.
Print Assumptions pages_tile_gap.

(* consecutive tiles are disjoint and cover [from, next) *)
Theorem tiles_are_disjoint_and_cover : forall from pages next, Tiles from pages next ->
  (forall a b, In (a, b) pages -> from <= a /\ a <= b /\ b < next) /\
  (forall h, from <= h < next -> exists a b, In (a, b) pages /\ a <= h <= b).
Proof. exact (fun f p n H => conj (tiles_disjoint f p n H) (proj2 (tiles_cover f p n H))). Qed.
Print Assumptions tiles_are_disjoint_and_cover.

(* stored_exact: after the task is created over a database whose stored heights are all <= the
   published height, and after ANY number of iterations with ANY finalized heights and RPC
   outcome scripts, every height above the initial one and up to the published (synced) height
   holds exactly that DA block's events ordered by log index. *)
Theorem stored_exact : forall chain deploy d0 ps ml grow rounds,
  1 <= ps -> rounds_wf rounds ->
  let t0 := task_new deploy d0 ps ml grow in
  keys_below d0 (t_height t0 + 1) ->
  let tf := snd (run_rounds chain t0 rounds) in
  forall h, t_height t0 < h <= t_height tf -> db_get (t_db tf) h = Some (expected_events chain h).
Proof.
  exact (fun chain deploy d0 ps ml grow rounds Hps Hw Hk =>
    stored_exact_inv chain d0 _ _
      (proj1 (run_rounds_inv chain d0 _ rounds _ (task_new_inv chain deploy d0 ps ml grow Hps Hk) Hw))).
Qed.
Print Assumptions stored_exact.

(* synced_monotone: the published height never decreases from one iteration to the next. *)
Theorem synced_monotone : forall chain deploy d0 ps ml grow rounds,
  1 <= ps -> rounds_wf rounds ->
  let t0 := task_new deploy d0 ps ml grow in
  keys_below d0 (t_height t0 + 1) ->
  monotone_from (t_height t0) (map r_height (fst (run_rounds chain t0 rounds))).
Proof.
  exact (fun chain deploy d0 ps ml grow rounds Hps Hw Hk =>
    run_rounds_monotone chain d0 _ rounds _ (task_new_inv chain deploy d0 ps ml grow Hps Hk) Hw).
Qed.
Print Assumptions synced_monotone.

(* the observations of every run pass the checker that is evaluated on the implementation *)
Theorem relayer_trace_ok : forall chain deploy d0 ps ml grow rounds,
  1 <= ps -> rounds_wf rounds ->
  let t0 := task_new deploy d0 ps ml grow in
  keys_below d0 (t_height t0 + 1) ->
  run_okb chain (t_height t0) ps rounds (fst (run_rounds chain t0 rounds))
          (t_db (snd (run_rounds chain t0 rounds))) = true.
Proof. exact run_ok_model. Qed.
Print Assumptions relayer_trace_ok.

(* meaning of the two parts of the checker *)
Theorem pages_checker_sound : forall latest pages from next,
  pages_tileb from latest pages = Some next <->
  Tiles from pages next /\ Forall (fun p => snd p <= latest) pages.
Proof. exact pages_tileb_sound. Qed.
Print Assumptions pages_checker_sound.

Theorem stored_checker_sound : forall chain l0 final stored,
  stored_okb chain l0 final stored = true <->
  forall h, l0 < h <= final -> db_get stored h = Some (expected_events chain h).
Proof. exact stored_okb_sound. Qed.
Print Assumptions stored_checker_sound.
