(* C29, part 3: download_logs |> write_logs over any RPC outcome script. *)
From FC Require Import Relayer.Model Relayer.ProofsPage Relayer.ProofsWrite.
From Coq Require Import ZifyBool ZifyN ZifyNat Lia.
Open Scope N_scope.

Definition E (chain : list log) (h : N) : N * list event := (h, expected_events chain h).

Lemma keys_below_canon chain d n : forall a, keys_below d a ->
  keys_below (d ++ map (E chain) (nseqN n a)) (a + N.of_nat n).
Proof.
  intros a Hk k e Hin. apply in_app_or in Hin. destruct Hin as [Hin|Hin].
  - specialize (Hk k e Hin). lia.
  - apply in_map_iff in Hin. destruct Hin as [h [Eh Hh]]. unfold E in Eh. injection Eh as <- _.
    apply nseqN_In in Hh. lia.
Qed.

Lemma last_page_start_cons x l d : l <> [] -> last_page_start (x :: l) d = last_page_start l d.
Proof. unfold last_page_start. destruct l; [congruence|reflexivity]. Qed.

Lemma dl_loop_none fuel chain sz d script pages :
  dl_loop fuel chain None sz d script pages =
  {| dl_ok := true; dl_sizer := sz; dl_db := d; dl_script := script; dl_pages := pages |}.
Proof. destruct fuel; reflexivity. Qed.

(* the result of the loop started on page p *)
Definition LoopSpec (chain : list log) (p : page) (d : db) (pages : list (N * N)) (r : dl) : Prop :=
  exists (n : nat) (new : list (N * N)) (next : N),
    dl_pages r = pages ++ new /\
    dl_db r = d ++ map (E chain) (nseqN n (pg_start p)) /\
    1 <= ps_current (dl_sizer r) /\
    pages_tileb (pg_start p) (pg_stop p) new = Some next /\
    pg_start p + N.of_nat n <= next /\ next <= pg_stop p + 1 /\
    (dl_ok r = true -> next = pg_stop p + 1 /\ pg_start p + N.of_nat n = next) /\
    (dl_ok r = false -> new <> [] /\ last_page_start new 0 = pg_start p + N.of_nat n).

Lemma dl_loop_spec chain : forall fuel p sz d script pages,
  page_wf p -> 1 <= ps_current sz -> keys_below d (pg_start p) ->
  pg_stop p + 1 - pg_start p < N.of_nat fuel ->
  LoopSpec chain p d pages (dl_loop fuel chain (Some p) sz d script pages).
Proof.
  induction fuel as [|f IH]; intros p sz d script pages Hwf Hsz Hk Hfuel.
  { destruct Hwf as [H1 [H2 _]]. lia. }
  cbn [dl_loop].
  set (code := match script with [] => 0 | c :: _ => c end).
  set (script' := match script with [] => [] | _ :: r => r end).
  assert (Htile1 : pages_tileb (pg_start p) (pg_stop p) [(pg_start p, pg_end p)] = Some (pg_end p + 1)).
  { destruct Hwf as [H1 [H2 _]]. cbn. rewrite N.eqb_refl.
    replace (pg_start p <=? pg_end p) with true by lia. replace (pg_end p <=? pg_stop p) with true by lia.
    reflexivity. }
  pose proof Hwf as [W1 [W2 [W3 [W4 [W5 W6]]]]].
  destruct (code =? 0) eqn:Ec.
  - (* the call succeeds *)
    set (sz' := sizer_update sz (Success (N.of_nat (length (provider_logs chain (pg_start p) (pg_end p)))))).
    assert (Hsz' : 1 <= ps_current sz') by (apply sizer_update_pos; exact Hsz).
    rewrite (write_page_spec chain d (pg_start p) (pg_end p) Hk W1).
    set (m := N.to_nat (pg_end p + 1 - pg_start p)).
    set (d' := d ++ map (fun h => (h, expected_events chain h)) (nseqN m (pg_start p))).
    pose proof (advance_spec p (ps_current sz') Hwf Hsz') as Hadv.
    destruct (advance_and_resize p (ps_current sz')) as [p'|] eqn:Ea.
    + destruct Hadv as [Hwf' [Hst' [Hstop' Hlt]]].
      assert (Hk' : keys_below d' (pg_start p')).
      { rewrite Hst'. replace (pg_end p + 1) with (pg_start p + N.of_nat m) by (unfold m; lia).
        apply (keys_below_canon chain d m (pg_start p) Hk). }
      assert (Hf' : pg_stop p' + 1 - pg_start p' < N.of_nat f) by lia.
      destruct (IH p' sz' d' script' (pages ++ [(pg_start p, pg_end p)]) Hwf' Hsz' Hk' Hf')
        as [n [new [next [P1 [P2 [P3 [P4 [P5 [P6 [P7 P8]]]]]]]]]].
      exists (m + n)%nat, ((pg_start p, pg_end p) :: new), next.
      split; [rewrite P1, <- app_assoc; reflexivity|].
      split.
      { rewrite P2. unfold d'. rewrite <- app_assoc, <- map_app. do 2 f_equal.
        rewrite Hst'. replace (pg_end p + 1) with (pg_start p + N.of_nat m) by (unfold m; lia).
        apply nseqN_app. }
      split; [exact P3|].
      split.
      { cbn [pages_tileb]. rewrite N.eqb_refl.
        replace (pg_start p <=? pg_end p) with true by lia.
        replace (pg_end p <=? pg_stop p) with true by lia. cbn [andb].
        rewrite <- Hst', <- Hstop'. exact P4. }
      split; [unfold m in *; lia|]. split; [lia|]. split.
      * intro Hok. destruct (P7 Hok) as [A B]. split; [lia|unfold m in *; lia].
      * intro Hok. destruct (P8 Hok) as [A B]. split; [discriminate|].
        rewrite last_page_start_cons by exact A. rewrite B. unfold m. lia.
    + (* the last page of the gap *)
      rewrite dl_loop_none.
      exists m, [(pg_start p, pg_end p)], (pg_end p + 1). cbn [dl_pages dl_db dl_sizer dl_ok].
      split; [reflexivity|]. split; [reflexivity|]. split; [exact Hsz'|].
      split; [exact Htile1|]. unfold m. split; [lia|]. split; [lia|].
      split; [intros _; lia|discriminate].
  - (* the call fails: nothing of this page is written *)
    assert (Hfail : forall sz2, 1 <= ps_current sz2 ->
       LoopSpec chain p d pages
         {| dl_ok := false; dl_sizer := sz2; dl_db := d; dl_script := script';
            dl_pages := pages ++ [(pg_start p, pg_end p)] |}).
    { intros sz2 H2. exists O, [(pg_start p, pg_end p)], (pg_end p + 1).
      cbn [dl_pages dl_db dl_sizer dl_ok nseqN map].
      split; [reflexivity|]. split; [now rewrite app_nil_r|]. split; [exact H2|].
      split; [exact Htile1|]. split; [lia|]. split; [lia|].
      split; [discriminate|]. intros _. split; [discriminate|]. unfold last_page_start. cbn. lia. }
    destruct (code =? 1); apply Hfail; [apply sizer_update_pos; exact Hsz|exact Hsz].
Qed.
